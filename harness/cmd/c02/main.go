// C02 — two-party protocol: both parties obtain f(x, y).
package main

import (
	"encoding/json"
	"fmt"
	"math/big"
	"strconv"
	"strings"
	"time"

	"github.com/markkurossi/mpc/circuit"

	"verif/bitsim"
	"verif/circgen"
	"verif/mpcl"
	"verif/mpclgen"
	"verif/refsem"
	"verif/runner"
	"verif/sess"
	"verif/valpha"
)

type cs struct {
	Circ   *circgen.Desc `json:"circuit,omitempty"`
	Src    string        `json:"src,omitempty"`
	G      string        `json:"g"` // garbler input (decimal)
	E      string        `json:"e"`
	OT     string        `json:"ot"`
	Regime string        `json:"regime"` // all | chunk:N | cut:DIR:K
	Seed   uint64        `json:"seed"`
	// schedule exploration: P > 0 explores every schedule of the session with <= P preemptions and F-1 non-default
	// free switches; Prefix replays one schedule
	P      int   `json:"p,omitempty"`
	F      int   `json:"f,omitempty"`
	Prefix []int `json:"prefix,omitempty"`
}

var progCache = map[string]*circuit.Circuit{}

func build(k cs) (*circuit.Circuit, error) {
	if k.Circ != nil {
		return k.Circ.Build(), nil
	}
	if c, ok := progCache[k.Src]; ok {
		return c, nil
	}
	c, _, err, _ := mpcl.Compile(k.Src, mpcl.Opts{}, nil)
	if err != nil {
		return nil, err
	}
	progCache[k.Src] = c
	return c, nil
}

func regime(r string) func(off int64, avail, want int) []int {
	switch {
	case r == "all" || r == "":
		return nil
	case strings.HasPrefix(r, "chunk:"):
		n, _ := strconv.Atoi(r[6:])
		return func(off int64, avail, want int) []int { return []int{n} }
	case strings.HasPrefix(r, "cut:"):
		// reads never cross stream offset K (both directions)
		k, _ := strconv.Atoi(r[4:])
		return func(off int64, avail, want int) []int {
			if off < int64(k) && off+int64(avail) > int64(k) {
				return []int{int(int64(k) - off)}
			}
			return nil
		}
	}
	panic("regime " + r)
}

func desc(k cs) string {
	if k.Circ != nil {
		return k.Circ.String()
	}
	return strings.ReplaceAll(strings.TrimPrefix(k.Src, "package main\n"), "\n", " ")
}

// runSchedules explores the schedules of one session (the parties' threads and their connections' writer
// goroutines) within the bounds and judges every execution with the session oracle.
func runSchedules(ctx *runner.Ctx, k cs, c *circuit.Circuit) {
	gin, _ := new(big.Int).SetString(k.G, 10)
	ein, _ := new(big.Int).SetString(k.E, 10)
	execs, trans, cut := sess.ExploreCircuit(c, gin, ein, sess.Opts{OT: k.OT, Seed: k.Seed}, k.P, k.F, ctx.Expired, func(r *sess.Result) bool {
		ctx.Eval(1)
		kk := k
		kk.P, kk.F = 0, 0
		kk.Prefix = append([]int{}, r.Choices...)
		return judge(ctx, kk, c, gin, ein, r, "schedule")
	})
	ctx.Count("schedule_executions", execs)
	ctx.Count("schedule_transitions", trans)
	if cut {
		ctx.Incomplete("schedule exploration of a session was cut by the deadline")
	} else {
		ctx.Nontrivial(fmt.Sprintf("schedules|%s|%s|%s|%s|P%d", desc(k), k.G, k.E, k.OT, k.P))
	}
}

func runCase(ctx *runner.Ctx, k cs) *sess.Result {
	if k.P > 0 {
		c, err := build(k)
		if err != nil {
			ctx.Outcome("compile-error")
			return nil
		}
		runSchedules(ctx, k, c)
		return nil
	}
	ctx.Eval(1)
	c, err := build(k)
	if err != nil {
		ctx.Note("program does not compile: " + err.Error())
		ctx.Outcome("compile-error")
		return nil
	}
	gin, _ := new(big.Int).SetString(k.G, 10)
	ein, _ := new(big.Int).SetString(k.E, 10)
	r := sess.RunCircuit(c, gin, ein, sess.Opts{OT: k.OT, Seed: k.Seed, Regime: regime(k.Regime), Prefix: k.Prefix})
	site := strings.SplitN(k.Regime, ":", 2)[0]
	if k.Prefix != nil {
		site = "schedule"
	}
	judge(ctx, k, c, gin, ein, r, site)
	return r
}

// judge applies the session oracle to one execution; it returns false after a violation.
func judge(ctx *runner.Ctx, k cs, c *circuit.Circuit, gin, ein *big.Int, r *sess.Result, site string) bool {
	site = k.OT + "." + site
	ok := true
	fail := func(kind, what string) {
		ok = false
		ctx.Violate(kind+"."+site, fmt.Sprintf("%s :: %s g=%s e=%s ot=%s regime=%s schedule=%v", what, desc(k), k.G, k.E, k.OT, k.Regime, nonzero(k.Prefix)), k)
	}
	if r.Outcome != "ok" {
		if r.Outcome == "stuck" {
			panic("harness: " + r.Detail)
		}
		fail("no-termination", fmt.Sprintf("session %s: %s (garbler err=%v evaluator err=%v)", r.Outcome, first(r.Detail), r.GErr, r.EErr))
		return ok
	}
	if r.GErr != nil || r.EErr != nil {
		fail("error", fmt.Sprintf("honest session failed: garbler=%v evaluator=%v", r.GErr, r.EErr))
		return ok
	}
	// reference: plain evaluation of (garbler input, evaluator input)
	n0 := int(c.Inputs[0].Type.Bits)
	n1 := int(c.Inputs[1].Type.Bits)
	in := make([]bool, n0+n1)
	for i := 0; i < n0; i++ {
		in[i] = gin.Bit(i) == 1
	}
	for i := 0; i < n1; i++ {
		in[n0+i] = ein.Bit(i) == 1
	}
	wires, err := bitsim.Eval(c, in)
	if err != nil {
		panic(err)
	}
	want := bitsim.Outputs(c, wires)
	if len(r.GOut) != len(want) || len(r.EOut) != len(want) {
		fail("arity", fmt.Sprintf("garbler returned %d values, evaluator %d, circuit declares %d outputs", len(r.GOut), len(r.EOut), len(want)))
		return ok
	}
	for i := range want {
		if r.GOut[i].Cmp(want[i]) != 0 || r.EOut[i].Cmp(want[i]) != 0 {
			fail("value", fmt.Sprintf("output %d: garbler=%s evaluator=%s plain evaluation=%s", i, r.GOut[i], r.EOut[i], want[i]))
			return ok
		}
	}
	ctx.Outcome("ok/" + k.OT)
	ctx.Nontrivial(fmt.Sprintf("%s|%s|%s|%s|%s", desc(k), k.G, k.E, k.OT, k.Regime))
	return ok
}

// nonzero lists the positions of the non-default scheduler choices.
func nonzero(p []int) []string {
	var r []string
	for i, c := range p {
		if c != 0 {
			r = append(r, fmt.Sprintf("%d:%d", i, c))
		}
	}
	return r
}

func first(s string) string {
	if i := strings.Index(s, "\n"); i > 0 {
		s = s[:i]
	}
	if len(s) > 300 {
		s = s[:300]
	}
	return s
}

// pseudo-random structured circuit over n0+n1 inputs with the given outputs
func randomCircuit(n0, n1 int, outs []int, seed uint32) circgen.Desc {
	nin := n0 + n1
	nout := 0
	for _, o := range outs {
		nout += o
	}
	g := 2*nin + nout + 2
	d := circgen.Desc{In: []int{n0, n1}, Out: outs}
	x := seed*2654435761 + 12345
	next := func(n int) int {
		x ^= x << 13
		x ^= x >> 17
		x ^= x << 5
		return int(x % uint32(n))
	}
	for i := 0; i < g; i++ {
		avail := nin + i
		a := next(avail)
		b := next(avail)
		if i < nin {
			a = i // make sure every input is used
		}
		d.Gates = append(d.Gates, circgen.G{int(circgen.Ops[next(5)]), a, b})
	}
	return d
}

var programs = []string{
	"package main\nfunc main(a, b int1) int1 {\n\treturn a ^ b\n}\n",
	"package main\nfunc main(a uint3, b uint3) (uint3, bool) {\n\treturn a + b, a > b\n}\n",
	"package main\nfunc main(a int9, b int9) (int9, int9, bool) {\n\tif a > b {\n\t\treturn a - b, a, true\n\t}\n\treturn b - a, b, false\n}\n",
	"package main\nfunc main(a uint65, b uint65) uint65 {\n\treturn a + b\n}\n",
	"package main\nfunc main(a uint8, b uint8) (uint8, uint8) {\n\treturn a * b, a / (b | 1)\n}\n",
}

func inputsFor(w int, quick bool) []*big.Int {
	if w <= 3 {
		var r []*big.Int
		for x := 0; x < 1<<w; x++ {
			r = append(r, big.NewInt(int64(x)))
		}
		return r
	}
	a := valpha.Unsigned(w)
	if quick && len(a) > 5 {
		a = []*big.Int{a[0], a[1], a[len(a)/2], a[len(a)-2], a[len(a)-1]}
	}
	return a
}

func work(ctx *runner.Ctx) {
	mpcl.Quiet()
	var cases []cs
	quick := ctx.Quick()
	seed := uint64(ctx.Seed)
	ots := []string{"co", "cot", "cot-mal", "ideal"}
	// (a) every circuit with (n0,n1) in {1,2}^2 and <= 2 gates (quick: 1 gate + a stride), all input pairs, ideal OT + rotating real OT
	idx := 0
	for _, nn := range [][2]int{{1, 1}, {1, 2}, {2, 1}, {2, 2}} {
		for g := 1; g <= 2; g++ {
			circgen.EnumGates(nn[0]+nn[1], g, func(gates []circgen.G) bool {
				idx++
				if g == 2 && quick && idx%4 != 0 {
					return true
				}
				if false {
					return true
				}
				for nout := 1; nout <= g; nout++ {
					d := circgen.Desc{In: []int{nn[0], nn[1]}, Out: []int{nout}, Gates: append([]circgen.G(nil), gates...)}
					if nout == 2 {
						d.Out = []int{1, 1}
					}
					for x := 0; x < 1<<nn[0]; x++ {
						for y := 0; y < 1<<nn[1]; y++ {
							o := "ideal"
							if (idx+x+y)%7 == 0 {
								o = ots[(idx+x)%3]
							}
							cases = append(cases, cs{Circ: &d, G: fmt.Sprint(x), E: fmt.Sprint(y), OT: o, Regime: "all", Seed: seed})
						}
					}
				}
				return true
			})
		}
	}
	// (b) structured circuits over the width/output alphabets, every OT
	widths := []int{1, 2, 3, 5, 8, 9}
	sigs := [][]int{{1}, {2}, {7}, {1, 1}, {3, 5}, {1, 7, 2}}
	s := uint32(1)
	for _, n0 := range widths {
		for _, n1 := range widths {
			for si, sig := range sigs {
				s++
				if quick && (n0+n1+si)%3 != 0 {
					continue
				}
				d := randomCircuit(n0, n1, sig, s)
				gs, es := inputsFor(n0, quick), inputsFor(n1, quick)
				for gi, x := range gs {
					for ei, y := range es {
						if quick && (gi+ei)%2 != 0 {
							continue
						}
						o := ots[(gi+ei+si)%len(ots)]
						cases = append(cases, cs{Circ: &d, G: x.String(), E: y.String(), OT: o, Regime: "all", Seed: seed})
					}
				}
			}
		}
	}
	// (c) compiled programs (multi-output, odd widths), every OT incl. RSA on the small ones
	for pi, p := range programs {
		c, _, err, _ := mpcl.Compile(p, mpcl.Opts{}, nil)
		if err != nil {
			ctx.Note("program does not compile: " + err.Error())
			continue
		}
		n0, n1 := int(c.Inputs[0].Type.Bits), int(c.Inputs[1].Type.Bits)
		gs, es := inputsFor(n0, true), inputsFor(n1, true)
		for gi, x := range gs {
			for ei, y := range es {
				for oi, o := range append(ots, "rsa") {
					if o == "rsa" && (n1 > 9 || (gi+ei)%3 != 0) {
						continue
					}
					if quick && (gi+ei+oi+pi)%2 != 0 {
						continue
					}
					cases = append(cases, cs{Src: p, G: x.String(), E: y.String(), OT: o, Regime: "all", Seed: seed})
				}
			}
		}
	}
	// (d) evaluator inputs wider than one OT-extension chunk (512): choice bits set in one 512-bit block and clear in the next
	wide := "package main\nfunc main(a uint520, b uint520) uint520 {\n\treturn a ^ b\n}\n"
	wvals := []string{"13", new(big.Int).Lsh(big.NewInt(13), 512).String(), new(big.Int).Sub(new(big.Int).Lsh(big.NewInt(1), 519), big.NewInt(1)).String(), "0"}
	for _, e := range wvals {
		for _, o := range []string{"cot", "cot-mal", "cot-ideal", "cot-mal-ideal"} {
			if quick && (o == "cot-mal" || o == "cot-ideal") {
				continue
			}
			cases = append(cases, cs{Src: wide, G: "5", E: e, OT: o, Regime: "all", Seed: seed})
		}
	}
	// (d') inputs handed over as NEGATIVE integers (what IOArg.Parse returns for "-5"): two's complement on the wires
	signedProg := "package main\nfunc main(a int9, b int9) (int9, bool, int9) {\n\tif a > b {\n\t\treturn a - b, true, a\n\t}\n\treturn b - a, false, b\n}\n"
	for _, g := range []string{"-1", "-256", "-5", "7"} {
		for _, e := range []string{"-1", "-256", "-77", "255"} {
			for oi, o := range []string{"ideal", "co", "cot", "cot-mal", "rsa"} {
				if quick && (oi > 2 || o == "rsa") && !(g == "-5" && e == "-77") {
					continue
				}
				cases = append(cases, cs{Src: signedProg, G: g, E: e, OT: o, Regime: "all", Seed: seed})
			}
		}
	}
	// (e) transport fragmentation: constant chunks and a single cut at EVERY byte offset of the transcript
	frag := []cs{
		{Circ: &circgen.Desc{In: []int{2, 3}, Out: []int{1, 2}, Gates: []circgen.G{{2, 0, 2}, {3, 1, 3}, {4, 4, 0}, {0, 5, 6}, {1, 7, 4}, {2, 8, 1}}}, G: "2", E: "5"},
		{Src: programs[1], G: "5", E: "6"},
	}
	if !quick {
		frag = append(frag, cs{Src: programs[2], G: "300", E: "17"}, cs{Src: programs[4], G: "200", E: "77"})
	}
	for fi, f := range frag {
		for _, o := range []string{"ideal", "co", "cot-mal"} {
			for _, ch := range []int{1, 2, 3, 5, 16, 17, 4096} {
				if quick && o != "ideal" && ch > 3 && ch < 4096 {
					continue
				}
				k := f
				k.OT, k.Regime, k.Seed = o, fmt.Sprintf("chunk:%d", ch), seed
				cases = append(cases, k)
			}
		}
		// transcript length with the ideal OT, measured once
		k := f
		k.OT, k.Regime, k.Seed = "ideal", "all", seed
		c, err := build(k)
		if err != nil {
			continue
		}
		gin, _ := new(big.Int).SetString(k.G, 10)
		ein, _ := new(big.Int).SetString(k.E, 10)
		r := sess.RunCircuit(c, gin, ein, sess.Opts{OT: "ideal", Seed: seed, Record: true})
		n := len(r.G2E)
		if len(r.E2G) > n {
			n = len(r.E2G)
		}
		if ctx.Shard == 0 {
			ctx.Note(fmt.Sprintf("fragmentation session %d: transcripts %d + %d bytes: one session per cut offset 1..%d", fi, len(r.G2E), len(r.E2G), n))
		}
		for off := 1; off <= n; off++ {
			k := f
			k.OT, k.Regime, k.Seed = "ideal", fmt.Sprintf("cut:%d", off), seed
			cases = append(cases, k)
		}
	}
	// (f) a stride through the statement-level and cast families of the C03 program generator (two-argument mains)
	{
		n := 0
		stride := 2
		if quick {
			stride = 13
		}
		genEmit := func(g mpclgen.Gen) {
			ps := g.P.Main().Params
			if len(ps) != 2 || ps[0].T.N > 0 || len(ps[0].T.Fields) > 0 || ps[1].T.N > 0 || len(ps[1].T.Fields) > 0 || ps[0].T.Bool || ps[1].T.Bool {
				return
			}
			n++
			if n%stride != 0 {
				return
			}
			in := func(t refsem.Type, odd bool) string {
				w := t.W
				if t.Signed {
					w--
				}
				v := new(big.Int)
				for i := 0; i < w; i++ {
					if (i%2 == 1) == odd || i == 0 {
						v.SetBit(v, i, 1)
					}
				}
				return v.String()
			}
			cases = append(cases, cs{Src: g.P.Src(), G: in(ps[0].T, false), E: in(ps[1].T, true), OT: ots[n%len(ots)], Regime: "all", Seed: seed})
		}
		mpclgen.Statements(quick, genEmit)
		mpclgen.Casts(quick, genEmit)
	}
	// (g) degenerate shapes: one party's input is zero bits wide; 1-bit outputs; every OT incl. RSA
	zero := []string{
		"package main\nfunc main(g uint16, e [0]byte) (uint8, uint16) {\n\treturn uint8(g >> 3), g + 1\n}\n",
		"package main\nfunc main(g [0]byte, e uint8) (uint8, bool) {\n\treturn e ^ 0x5a, e > 7\n}\n",
		"package main\nfunc main(g uint1, e [0]byte) uint1 {\n\treturn g\n}\n",
	}
	for _, p := range zero {
		for _, v := range []string{"0", "1", "37", "65535"} {
			for _, o := range append(ots, "rsa") {
				g, e := v, "0"
				if strings.Contains(p, "g [0]byte") {
					g, e = "0", v
				}
				cases = append(cases, cs{Src: p, G: g, E: e, OT: o, Regime: "all", Seed: seed})
			}
		}
	}
	// (h) large circuits: more than 65536 wires and gates in one whole-circuit session
	bigp := "package main\nfunc main(a uint256, b uint256) (uint256, bool) {\n\treturn a * b, a > b\n}\n"
	for i, o := range []string{"co", "cot", "ideal"} {
		if quick && i == 1 {
			continue
		}
		cases = append(cases, cs{Src: bigp, G: "115792089237316195423570985008687907853269984665640564039457584007913129639935", E: "98765432109876543210987654321098765432109876543210", OT: o, Regime: "all", Seed: seed})
	}
	// (i) schedules: every interleaving of the two parties and their connections' writer goroutines with one
	// preemption (thorough: two for the smallest session) and one non-default free switch, ideal OT (thorough: CO too)
	{
		sched := []cs{
			{Circ: &circgen.Desc{In: []int{1, 1}, Out: []int{1}, Gates: []circgen.G{{2, 0, 1}}}, G: "1", E: "1"},
			{Circ: &circgen.Desc{In: []int{2, 3}, Out: []int{1, 2}, Gates: []circgen.G{{2, 0, 2}, {3, 1, 3}, {4, 4, 0}, {0, 5, 6}, {1, 7, 4}, {2, 8, 1}}}, G: "2", E: "5"},
		}
		for si, k := range sched {
			k.OT, k.Regime, k.Seed, k.P, k.F = "ideal", "all", seed, 1, 2
			cases = append(cases, k)
			if !quick {
				k.OT = "co"
				cases = append(cases, k)
				if si == 0 {
					k.OT, k.P = "ideal", 2
					cases = append(cases, k)
				}
			}
		}
	}
	ctx.Note(fmt.Sprintf("case list: %d sessions", len(cases)))
	for i, k := range cases {
		if !ctx.Mine(i) {
			continue
		}
		if ctx.Expired() {
			return
		}
		runCase(ctx, k)
		if i%3000 == 0 {
			ctx.Sample(k)
		}
	}
}

func replay(ctx *runner.Ctx, raw json.RawMessage) {
	var k cs
	if err := json.Unmarshal(raw, &k); err != nil {
		panic(err)
	}
	mpcl.Quiet()
	runCase(ctx, k)
}

func main() {
	runner.Main(runner.Spec{
		ID:    "C02",
		Level: "exploration",
		Rule: "complete garbler/evaluator sessions of the real code (circuit.Garbler, circuit.Evaluator, ot.*, p2p.Conn) under the deterministic default schedule of the cooperative scheduler (a hang is a detected deadlock): every circuit with input widths (n0,n1) in {1,2}^2 and 1 gate (a stride of the 2-gate ones) on ALL input pairs; structured circuits for (n0,n1) in {1,2,3,5,8,9}^2 x 6 output signatures; compiled programs with multi-value returns and odd widths (int1, uint3, int9, uint65), uint520 inputs crossing the 512-row OT-extension chunk; OT in {Chou-Orlandi, COT, COT-malicious, RSA-1024 (small inputs), ideal}; transport fragmentation: constant chunks {1,2,3,5,16,17,4096} and a single cut at EVERY byte offset of the transcript. Oracle: no error, no deadlock, garbler's outputs == evaluator's outputs == truth-table evaluation split per declared output. " +
			"distinct_nontrivial = distinct (circuit, inputs, OT, regime) sessions that reached the oracle",
		Assumptions: []string{
			"p2p is rewritten onto the scheduler at check time; all sessions run under the default schedule except the schedule part: two sessions under EVERY schedule with <= 1 preemption (thorough 2) and one non-default free switch (counters schedule_executions / schedule_transitions); the connection layer's own schedule space is C11's subject",
			"RSA sessions are not bit-reproducible (rsa.GenerateKey) and are compared on outputs only",
		},
		Work:           work,
		Replay:         replay,
		QuickBudget:    80 * time.Second,
		ThoroughBudget: 20 * time.Minute,
	})
}
