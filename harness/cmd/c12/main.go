// C12 — constant folding equals circuit evaluation.
// Differential: the same operator on the same values, once as typed constants
// (folded by the compiler) and once as run-time inputs (evaluated by the circuit).
package main

import (
	"encoding/json"
	"fmt"
	"math/big"
	"strings"
	"time"

	"github.com/markkurossi/mpc/circuit"

	"verif/mpcl"
	"verif/runner"
	"verif/valpha"
)

type cs struct {
	Op       string `json:"op"`
	Signed   bool   `json:"signed"`
	W        int    `json:"w"`
	A        string `json:"a"` // bit pattern of the first operand (decimal, unsigned)
	B        string `json:"b"`
	Consumer string `json:"consumer"` // ret add div lt shr
}

var mnemonics = map[string][]string{
	"+": {"iadd", "uadd"}, "-": {"isub", "usub"}, "*": {"imult", "umult"}, "/": {"idiv", "udiv"}, "%": {"imod", "umod"},
	"&": {"band"}, "|": {"bor"}, "^": {"bxor"}, "&^": {"bclr"}, "<<": {"lshift"}, ">>": {"rshift", "srshift"},
	"<": {"ilt", "ult"}, "<=": {"ile", "ule"}, ">": {"igt", "ugt"}, ">=": {"ige", "uge"}, "==": {"eq"}, "!=": {"neq"},
	"neg": {"isub", "usub"}, "!": {"not"},
}

func isCmp(op string) bool {
	switch op {
	case "<", "<=", ">", ">=", "==", "!=":
		return true
	}
	return false
}

func tname(signed bool, w int) string {
	if signed {
		return fmt.Sprintf("int%d", w)
	}
	return fmt.Sprintf("uint%d", w)
}

// lit writes the bit pattern as a typed constant of the type.
func lit(signed bool, w int, pat *big.Int) string {
	v := pat
	if signed {
		v = valpha.ToSigned(pat, w)
	}
	return fmt.Sprintf("%s(%s)", tname(signed, w), v.String())
}

func consume(expr, consumer, T string, cmp bool) (string, string) {
	if cmp {
		switch consumer {
		case "ret":
			return expr, "bool"
		case "and":
			return fmt.Sprintf("(%s) && (x > y)", expr), "bool"
		}
		return "", ""
	}
	switch consumer {
	case "ret":
		return expr, T
	case "add":
		return fmt.Sprintf("(%s) + x", expr), T
	case "div":
		return fmt.Sprintf("(%s) / (x | 1)", expr), T
	case "lt":
		return fmt.Sprintf("(%s) < x", expr), "bool"
	case "shr":
		return fmt.Sprintf("(%s) >> 1", expr), T
	}
	return "", ""
}

func opExpr(op, a, b string) string {
	switch op {
	case "neg":
		return "-" + a
	case "!":
		return "!" + a
	}
	return fmt.Sprintf("%s %s %s", a, op, b)
}

func programs(k cs) (pconst, pdyn string, ok bool) {
	T := tname(k.Signed, k.W)
	pa, _ := new(big.Int).SetString(k.A, 10)
	pb, _ := new(big.Int).SetString(k.B, 10)
	la, lb := lit(k.Signed, k.W, pa), lit(k.Signed, k.W, pb)
	if k.Op == "<<" || k.Op == ">>" {
		lb = pb.String() // shift counts are plain constants
	}
	if k.Op == "!" {
		// boolean constants
		la = "false"
		if pa.Sign() != 0 {
			la = "true"
		}
		body, R := "!"+la, "bool"
		if k.Consumer != "ret" {
			return "", "", false
		}
		pconst = fmt.Sprintf("package main\n\nfunc main(x, y bool) %s {\n\treturn %s\n}\n", R, body)
		pdyn = fmt.Sprintf("package main\n\nfunc main(p bool, q bool) %s {\n\treturn !p\n}\n", R)
		return pconst, pdyn, true
	}
	if k.Consumer == "kconst" || k.Consumer == "kzero" {
		// the folded value re-enters the program as a typed package-level constant, next to the literal 0
		if isCmp(k.Op) {
			return "", "", false
		}
		db := "v[0]"
		if k.Op == "<<" || k.Op == ">>" {
			db = lb
		}
		body := "\tif %s == 0 {\n\t\treturn %s\n\t}\n\treturn %s + %s\n"
		if k.Consumer == "kzero" {
			body = "\tr := %[3]s + %[4]s\n\tif %[1]s == 0 {\n\t\treturn 0\n\t}\n\treturn r\n"
		}
		pconst = fmt.Sprintf("package main\n\nconst K %s = %s\n\nfunc main(x %s, y %s) %s {\n"+body+"}\n", T, opExpr(k.Op, la, lb), T, T, T, "x", "K", "K", "x")
		pdyn = fmt.Sprintf("package main\n\nfunc main(p %s, v [3]%s) %s {\n\tk := %s\n"+body+"}\n", T, T, T, opExpr(k.Op, "p", db), "v[1]", "k", "k", "v[1]")
		return pconst, pdyn, true
	}
	ce, R := consume(opExpr(k.Op, la, lb), k.Consumer, T, isCmp(k.Op))
	if ce == "" {
		return "", "", false
	}
	pconst = fmt.Sprintf("package main\n\nfunc main(x %s, y %s) %s {\n\treturn %s\n}\n", T, T, R, ce)
	db := "v[0]"
	if k.Op == "<<" || k.Op == ">>" {
		db = lb // the dynamic program shifts by the same constant
	}
	de, _ := consume(opExpr(k.Op, "p", db), k.Consumer, T, isCmp(k.Op))
	de = strings.ReplaceAll(strings.ReplaceAll(de, "x", "v[1]"), "y", "v[2]")
	pdyn = fmt.Sprintf("package main\n\nfunc main(p %s, v [3]%s) %s {\n\treturn %s\n}\n", T, T, R, de)
	return pconst, pdyn, true
}

type compiled struct {
	c      *circuit.Circuit
	ssa    string
	err    string
	panicd bool
}

var cache = map[string]*compiled{}

func compile(src string) *compiled {
	if c, ok := cache[src]; ok {
		return c
	}
	c, ssa, err, p := mpcl.Compile(src, mpcl.Opts{SSA: true}, nil)
	r := &compiled{c: c, ssa: ssa, panicd: p}
	if err != nil {
		r.err = err.Error()
	}
	if len(cache) > 5000 {
		cache = map[string]*compiled{}
	}
	cache[src] = r
	return r
}

func bucket(w int) string {
	switch {
	case w <= 31:
		return "w<=31"
	case w == 32:
		return "w32"
	case w <= 63:
		return "w33..63"
	case w == 64:
		return "w64"
	}
	return "w>=65"
}

func runCase(ctx *runner.Ctx, k cs) {
	ctx.Eval(1)
	pconst, pdyn, ok := programs(k)
	if !ok {
		return
	}
	pa, _ := new(big.Int).SetString(k.A, 10)
	pb, _ := new(big.Int).SetString(k.B, 10)
	sg := "u"
	if k.Signed {
		sg = "i"
	}
	site := fmt.Sprintf("%s.%s.%s.a=%s.b=%s", k.Op, sg, bucket(k.W), valpha.Class(pa, k.W, k.Signed), valpha.Class(pb, k.W, k.Signed))
	if k.Op == "<<" || k.Op == ">>" {
		site = fmt.Sprintf("%s.%s.%s.a=%s.count", k.Op, sg, bucket(k.W), valpha.Class(pa, k.W, k.Signed))
	}
	cd := compile(pdyn)
	if cd.err != "" {
		ctx.Outcome("runtime-form-rejected(shape dropped)")
		ctx.Note("run-time form rejected: " + firstLine(cd.err) + " :: " + oneLine(pdyn))
		return
	}
	cc := compile(pconst)
	desc := fmt.Sprintf("%s %s %s on %s, consumer %s", lit(k.Signed, k.W, pa), k.Op, lit(k.Signed, k.W, pb), tname(k.Signed, k.W), k.Consumer)
	if cc.panicd {
		ctx.Violate("compiler-panic."+site, fmt.Sprintf("folding %s crashed the compiler: %s", desc, firstLine(cc.err)), k)
		return
	}
	if cc.err != "" {
		ctx.Violate("const-form-rejected."+site, fmt.Sprintf("%s: the constant form is rejected (%s) although the run-time form compiles :: %s", desc, firstLine(cc.err), oneLine(pconst)), k)
		return
	}
	// was the operator folded? (no instruction for it in the listing)
	folded := true
	for _, m := range mnemonics[k.Op] {
		for _, line := range strings.Split(cc.ssa, "\n") {
			f := strings.Fields(line)
			if len(f) > 0 && f[0] == m && !((k.Consumer == "add" || k.Consumer == "kconst" || k.Consumer == "kzero") && (m == "iadd" || m == "uadd") && strings.Count(cc.ssa, m) == 1) &&
				!(k.Consumer == "div" && (m == "idiv" || m == "udiv") && strings.Count(cc.ssa, m) == 1) &&
				!(k.Consumer == "lt" && (m == "ilt" || m == "ult") && strings.Count(cc.ssa, m) == 1) &&
				!(k.Consumer == "shr" && (m == "rshift" || m == "srshift") && strings.Count(cc.ssa, m) == 1) {
				folded = false
			}
		}
	}
	if !folded {
		ctx.Outcome("not-folded")
		return
	}
	ctx.Nontrivial(fmt.Sprintf("%s/%v/%d/%s/%s/%s", k.Op, k.Signed, k.W, k.A, k.B, k.Consumer))
	xs := valpha.Unsigned(k.W)
	if len(xs) > 7 {
		xs = []*big.Int{xs[0], xs[1], xs[2], xs[len(xs)/2], xs[len(xs)-3], xs[len(xs)-2], xs[len(xs)-1]}
	}
	for _, x := range xs {
		var in1, in2 []*big.Int
		if k.Op == "!" {
			in1 = []*big.Int{big.NewInt(0), big.NewInt(0)}
			in2 = []*big.Int{pa, big.NewInt(0)}
		} else {
			in1 = []*big.Int{x, big.NewInt(0)}
			// v = [q, x, y] packed little-endian per element
			v := new(big.Int).Set(pb)
			v.Or(v, new(big.Int).Lsh(x, uint(k.W)))
			in2 = []*big.Int{pa, v}
		}
		o1, err1 := cc.c.Compute(in1)
		o2, err2 := cd.c.Compute(in2)
		if err1 != nil || err2 != nil {
			panic(fmt.Sprintf("compute: %v %v", err1, err2))
		}
		if o1[0].Cmp(o2[0]) != 0 {
			ctx.Violate("value-differs."+site, fmt.Sprintf("%s with x=%s: the folded program returns %s, the circuit computes %s :: %s", desc, x, o1[0], o2[0], oneLine(pconst)), k)
			return
		}
	}
	ctx.Outcome("folded-equal")
}

func oneLine(s string) string {
	s = strings.TrimPrefix(s, "package main\n\n")
	return strings.ReplaceAll(strings.ReplaceAll(s, "\n\t", " ; "), "\n", " ")
}

func firstLine(s string) string {
	if i := strings.Index(s, "\n"); i > 0 {
		s = s[:i]
	}
	if len(s) > 200 {
		s = s[:200]
	}
	return s
}

func work(ctx *runner.Ctx) {
	mpcl.Quiet()
	quick := ctx.Quick()
	widths := []int{1, 8, 32, 33, 64, 65, 128}
	if !quick {
		widths = valpha.Widths
	}
	ops := []string{"+", "-", "*", "/", "%", "&", "|", "^", "&^", "<<", ">>", "<", "<=", ">", ">=", "==", "!=", "neg", "!"}
	var cases []cs
	for _, op := range ops {
		for _, signed := range []bool{false, true} {
			for _, w := range widths {
				if signed && w == 1 {
					continue
				}
				if op == "!" {
					if w != 1 || signed {
						continue
					}
					cases = append(cases, cs{Op: op, W: 1, A: "0", B: "0", Consumer: "ret"}, cs{Op: op, W: 1, A: "1", B: "0", Consumer: "ret"})
					continue
				}
				vals := valpha.Unsigned(w)
				if quick && len(vals) > 9 {
					vals = []*big.Int{vals[0], vals[1], vals[2], vals[len(vals)/2-1], vals[len(vals)/2], vals[len(vals)/2+1], vals[len(vals)-3], vals[len(vals)-2], vals[len(vals)-1]}
				}
				for _, a := range vals {
					bs := vals
					if op == "<<" || op == ">>" {
						bs = []*big.Int{big.NewInt(0), big.NewInt(1), big.NewInt(int64(w - 1))}
					}
					if op == "neg" {
						bs = []*big.Int{big.NewInt(0)}
					}
					for _, b := range bs {
						if (op == "/" || op == "%") && b.Sign() == 0 {
							continue
						}
						consumers := []string{"ret", "add", "div", "lt", "shr"}
						if isCmp(op) {
							consumers = []string{"ret", "and"}
						}
						if quick {
							consumers = consumers[:2]
						}
						if !isCmp(op) {
							consumers = append(consumers, "kconst")
							if !quick {
								consumers = append(consumers, "kzero")
							}
						}
						for _, c := range consumers {
							cases = append(cases, cs{Op: op, Signed: signed, W: w, A: a.String(), B: b.String(), Consumer: c})
						}
					}
				}
			}
		}
	}
	ctx.Note(fmt.Sprintf("case list: %d (operator, type, values, consumer) cases", len(cases)))
	for i, k := range cases {
		if !ctx.Mine(i) {
			continue
		}
		if ctx.Expired() {
			return
		}
		runCase(ctx, k)
		if i%4001 == 0 {
			ctx.Sample(k)
		}
	}
}

func replay(ctx *runner.Ctx, raw json.RawMessage) {
	var k cs
	if err := json.Unmarshal(raw, &k); err != nil {
		panic(err)
	}
	mpcl.Quiet()
	runCase(ctx, k)
}

func main() {
	runner.Main(runner.Spec{
		ID:    "C12",
		Level: "exploration",
		Rule: "for every operator in {+,-,*,/,%,&,|,^,&^,<<,>>,<,<=,>,>=,==,!=, unary -, !} x {uintW,intW} for W in {1,8,32,33,64,65,128} (thorough: 17 widths up to 130) x operand patterns from the boundary alphabet (0, 1, 2, max, max-1, top bit set, min, -1, 0x55.., 0xaa.., powers of two +-1) x consumer {returned, + x, / x, < x, >> 1}: P_const applies the operator to typed constants (the listing must show it was folded), P_dyn applies it to run-time inputs holding the same values; both are evaluated for 7 values of the run-time operand x and must agree. " +
			"distinct_nontrivial = folded cases compared; cases whose operator was not folded are counted as outcome not-folded",
		Assumptions: []string{
			"differential oracle: the run-time circuit is the reference (its own agreement with arithmetic is C07's subject)",
			"a shape whose run-time form the compiler rejects is dropped and listed",
			"violation keys are (kind, operator, signedness, width bucket, class of a, class of b)",
		},
		Work:           work,
		Replay:         replay,
		QuickBudget:    85 * time.Second,
		ThoroughBudget: 45 * time.Minute,
	})
}
