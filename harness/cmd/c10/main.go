// C10 — GMW: every party outputs f(inputs); dealt triples are valid.
// The real gmw.Network (CreateNetwork/JoinNetwork/Connect/Run/Close, triple
// pool, accept loops) and p2p.Conn run on the cooperative scheduler over an
// in-memory network: a data part under the deterministic default schedule
// and a schedule part exploring start orders, preemptions at the
// non-deterministic operations and free switches.
package main

import (
	"encoding/json"
	"fmt"
	"math/big"
	"os"
	"os/exec"
	"sort"
	"strings"
	"time"

	"github.com/markkurossi/mpc/circuit"
	"github.com/markkurossi/mpc/compiler/utils"
	"github.com/markkurossi/mpc/gmw"
	"github.com/markkurossi/mpc/zverif/csched"
	"github.com/markkurossi/mpc/zverif/vnet"
	"github.com/markkurossi/mpc/zverif/vrand"

	"verif/bitsim"
	"verif/mpcl"
	"verif/runner"
)

type cs struct {
	N      int      `json:"parties"`
	Prog   int      `json:"program"`
	Inputs []string `json:"inputs"`
	// Inputs2: a second Run on the same Network (same circuit) with these inputs, after the first one returned
	Inputs2 []string `json:"inputs2,omitempty"`
	Triples []int    `json:"triple_requests"` // Pool.Get counts issued by every party right after Connect
	Order   []int    `json:"order"`
	P       int      `json:"p"`
	F       int      `json:"f"`
	Seed    uint64   `json:"seed"`
	Slow    []int    `json:"slow_mains,omitempty"` // parties whose main thread runs only when nothing else can (baseline speeds)
	Fast    []int    `json:"fast_mains,omitempty"` // parties whose main thread runs before any helper thread
	Prefix  []int    `json:"prefix,omitempty"`
}

// programs per party count; %s = argument list
func program(n, which int) string {
	names := []string{"a", "b", "c", "d", "e"}[:n]
	args := strings.Join(names, ", ")
	sum := strings.Join(names, " + ")
	and := strings.Join(names, " & ")
	switch which {
	case 0: // few AND levels, narrow
		return fmt.Sprintf("package main\n\nfunc main(%s uint8) uint8 {\n\treturn (%s) ^ (%s)\n}\n", args, sum, and)
	case 1: // many AND levels (multiplication chain) and a comparison
		return fmt.Sprintf("package main\n\nfunc main(%s uint8) (uint8, bool) {\n\tx := a * b + %s\n\tif x > a {\n\t\treturn x * x, true\n\t}\n\treturn x - b, false\n}\n", args, names[n-1])
	case 2: // wide AND levels whose sizes are not multiples of 64: 130 and 65 ANDs per level
		return fmt.Sprintf("package main\n\nfunc main(%s uint130) (uint130, uint65) {\n\tx := %s\n\treturn x | a, uint65(x) & uint65(b)\n}\n", args, and)
	case 3: // 63/64-bit levels and inversions (XNOR/INV are handled by party 0)
		return fmt.Sprintf("package main\n\nfunc main(%s uint64) (uint64, uint63, bool) {\n\tx := %s\n\treturn (x ^ a) + a, uint63(x) & uint63(a), a == b\n}\n", args, and)
	case 5: // AND levels of exactly 64 gates
		return fmt.Sprintf("package main\n\nfunc main(%s uint64) uint64 {\n\treturn %s\n}\n", args, and)
	case 6: // AND levels of exactly 128 and 192 gates
		return fmt.Sprintf("package main\n\nfunc main(%s uint192) (uint128, uint192) {\n\treturn uint128(a) & uint128(b), %s\n}\n", args, and)
	case 7: // gates of every kind whose SECOND input is deeper in AND levels than the first (a == b*b), and the reverse
		return fmt.Sprintf("package main\n\nfunc main(%s uint8) (bool, bool, bool, uint8) {\n\tx := b * b\n\ty := x * b\n\treturn a == x, x == a, y != a, (a ^ y) & %s\n}\n", args, names[n-1])
	case 4: // more than 4096 AND gates in the early levels: the first triple batch is not enough
		return fmt.Sprintf("package main\n\nfunc main(%s uint4500) uint4500 {\n\tx := a & b\n\ty := x | %s\n\treturn (y & a) ^ (x & b)\n}\n", args, names[n-1])
	}
	panic("program")
}

var circCache = map[string]*circuit.Circuit{}

func compiled(n, which int) *circuit.Circuit {
	key := fmt.Sprintf("%d/%d", n, which)
	if c, ok := circCache[key]; ok {
		return c
	}
	c, _, err, _ := mpcl.Compile(program(n, which), mpcl.Opts{Target: utils.TargetGMW}, nil)
	if err != nil {
		panic("program does not compile for GMW: " + err.Error())
	}
	circCache[key] = c
	return c
}

type party struct {
	id      int
	err     error
	out     []*big.Int
	out2    []*big.Int
	triples []*gmw.Triples
	done    bool
}

type world struct{ ps []*party }

func addr(i int) string { return fmt.Sprintf("gmw%d:7000", i) }

func system(k cs, w *world, c *circuit.Circuit) func() {
	return func() {
		vnet.Reset()
		vrand.Seed(k.Seed + 5)
		w.ps = make([]*party, k.N)
		for i := range w.ps {
			w.ps[i] = &party{id: i}
		}
		leader, err := gmw.CreateNetwork(addr(0), k.N)
		if err != nil {
			w.ps[0].err = err
			return
		}
		run := func(i int) func() {
			return func() {
				p := w.ps[i]
				defer func() { p.done = true }()
				nw := leader
				if i != 0 {
					var err error
					nw, err = gmw.JoinNetwork(addr(0), addr(i), i)
					if err != nil {
						p.err = fmt.Errorf("JoinNetwork: %v", err)
						return
					}
				}
				in, _ := new(big.Int).SetString(k.Inputs[i], 10)
				if err := nw.Connect([]int{int(c.Inputs[i].Type.Bits)}); err != nil {
					p.err = fmt.Errorf("Connect: %v", err)
					nw.Close()
					return
				}
				for _, cnt := range k.Triples {
					t := new(gmw.Triples)
					nw.Pool.Get(cnt, t)
					cp := &gmw.Triples{Words: t.Words, A: append([]uint64(nil), t.A...), B: append([]uint64(nil), t.B...), C: append([]uint64(nil), t.C...)}
					p.triples = append(p.triples, cp)
				}
				out, err := nw.Run(in, c, false)
				if err != nil {
					p.err = fmt.Errorf("Run: %v", err)
					nw.Close()
					return
				}
				p.out = out
				if k.Inputs2 != nil {
					in2, _ := new(big.Int).SetString(k.Inputs2[i], 10)
					out2, err := nw.Run(in2, c, false)
					if err != nil {
						p.err = fmt.Errorf("second Run: %v", err)
						nw.Close()
						return
					}
					p.out2 = out2
				}
				if err := nw.Close(); err != nil {
					p.err = fmt.Errorf("Close: %v", err)
				}
			}
		}
		for _, i := range k.Order {
			csched.GoNamed(fmt.Sprintf("party%d", i), run(i))
		}
	}
}

func judge(k cs, w *world, r *csched.Result, c *circuit.Circuit) (string, string) {
	switch r.Outcome {
	case "ok":
	case "stuck":
		return "HARNESS", r.Detail
	case "deadlock":
		var s []string
		for _, p := range w.ps {
			s = append(s, fmt.Sprintf("party %d: done=%v err=%v", p.id, p.done, p.err))
		}
		return "never-completes", fmt.Sprintf("the protocol deadlocks (%s); %s", strings.Join(s, "; "), firstLine(r.Detail))
	default:
		return r.Outcome, firstLine(r.Detail)
	}
	for _, p := range w.ps {
		if p.err != nil {
			return "error", fmt.Sprintf("party %d: %v", p.id, p.err)
		}
	}
	// dealt triples: (xor of a-shares) AND (xor of b-shares) == xor of c-shares, bit for bit
	for ti, cnt := range k.Triples {
		words := (cnt + 63) / 64
		for wd := 0; wd < words; wd++ {
			var a, b, cc uint64
			for _, p := range w.ps {
				t := p.triples[ti]
				if t.Words < words || len(t.A) < words || len(t.B) < words || len(t.C) < words {
					return "triple-count", fmt.Sprintf("party %d got %d words for a request of %d triples", p.id, t.Words, cnt)
				}
				a ^= t.A[wd]
				b ^= t.B[wd]
				cc ^= t.C[wd]
			}
			mask := ^uint64(0)
			if wd == words-1 && cnt%64 != 0 {
				mask = uint64(1)<<uint(cnt%64) - 1
			}
			if (a&b^cc)&mask != 0 {
				return "invalid-triple", fmt.Sprintf("request #%d (%d triples), word %d: (xor a) & (xor b) != xor c", ti, cnt, wd)
			}
		}
	}
	// outputs
	check := func(inputs []string, get func(p *party) []*big.Int, which string) (string, string) {
		var in []bool
		for i := 0; i < k.N; i++ {
			v, _ := new(big.Int).SetString(inputs[i], 10)
			for b := 0; b < int(c.Inputs[i].Type.Bits); b++ {
				in = append(in, v.Bit(b) == 1)
			}
		}
		wires, err := bitsim.Eval(c, in)
		if err != nil {
			panic(err)
		}
		want := bitsim.Outputs(c, wires)
		for _, p := range w.ps {
			out := get(p)
			if len(out) != len(want) {
				return "arity" + which, fmt.Sprintf("party %d returned %d outputs, want %d", p.id, len(out), len(want))
			}
			for i := range want {
				if out[i].Cmp(want[i]) != 0 {
					return "wrong-output" + which, fmt.Sprintf("party %d output %d = %s, plain evaluation = %s", p.id, i, out[i], want[i])
				}
			}
		}
		return "", ""
	}
	if kind, what := check(k.Inputs, func(p *party) []*big.Int { return p.out }, ""); kind != "" {
		return kind, what
	}
	if k.Inputs2 != nil {
		return check(k.Inputs2, func(p *party) []*big.Int { return p.out2 }, ".second-run")
	}
	return "", ""
}

func firstLine(s string) string {
	if i := strings.Index(s, "\n"); i > 0 {
		s = s[:i]
	}
	if len(s) > 400 {
		s = s[:400]
	}
	return s
}

var preemptKinds = map[string]bool{"lock": true, "cond-wait": true, "signal": true, "broadcast": true, "accept": true, "dial": true, "spawn": true, "close-listener": true, "listen": true}

func runCaseSharded(ctx *runner.Ctx, k cs, shard, nshards int) {
	c := compiled(k.N, k.Prog)
	report := func(kk cs, kind, what string, r *csched.Result) {
		ctx.Violate(fmt.Sprintf("%s.n%d", kind, k.N), fmt.Sprintf("%s :: parties=%d program=%d inputs=%v triple-requests=%v order=%v schedule-deviations=%v", what, k.N, k.Prog, k.Inputs, k.Triples, k.Order, nonzero(r.Choices)), kk)
	}
	opts := csched.Options{Horizon: 50000000, PreemptKinds: preemptKinds, Watchdog: 300 * time.Second}
	if len(k.Slow) > 0 || len(k.Fast) > 0 {
		// baseline "speeds": helper threads (accept loops, triple generation, Conn writers) have priority 50;
		// a fast main thread runs before them, a slow main thread only when nothing else can run
		opts.Priority = func(name string) int {
			if strings.Contains(name, "/") || !strings.HasPrefix(name, "party") {
				return 50
			}
			var id int
			fmt.Sscanf(name, "party%d", &id)
			for _, s := range k.Slow {
				if s == id {
					return 0
				}
			}
			for _, f := range k.Fast {
				if f == id {
					return 100
				}
			}
			return 50
		}
	}
	if k.Prefix != nil {
		w := &world{}
		r := csched.Run(k.Prefix, opts, system(k, w, c))
		ctx.Eval(1)
		if kind, what := judge(k, w, r, c); kind != "" {
			report(k, kind, what, r)
		}
		return
	}
	x := &csched.Explorer{PBound: k.P, FBound: k.F, Shard: shard, NShards: nshards, Opts: opts, Stop: ctx.Expired}
	var w *world
	x.Explore(func() {
		w = &world{}
		system(k, w, c)()
	}, func(r *csched.Result, p, e int) bool {
		ctx.Eval(1)
		ctx.State(uint64(r.Steps)<<20 ^ uint64(len(r.Points))<<8 ^ hashChoices(r.Choices))
		kind, what := judge(k, w, r, c)
		if kind == "HARNESS" {
			panic("harness: " + what)
		}
		if kind != "" {
			kk := k
			kk.Prefix = append([]int{}, r.Choices...)
			report(kk, kind, fmt.Sprintf("%s [preemptions=%d]", what, p), r)
			return false
		}
		ctx.Outcome(fmt.Sprintf("all-parties-correct/n=%d", k.N))
		return true
	})
	ctx.Count("executions", x.Executions)
	ctx.Count("transitions", x.Transitions)
	ctx.Max("max_choice_points_per_execution", int64(x.MaxPoints))
	if x.Truncated {
		ctx.Incomplete(fmt.Sprintf("exploration of n=%d program=%d cut (deadline)", k.N, k.Prog))
	} else if shard == 0 {
		ctx.NontrivialN(1)
	}
}

func hashChoices(c []int) uint64 {
	h := uint64(1469598103934665603)
	for i, v := range c {
		if v != 0 {
			h = (h ^ uint64(i*31+v)) * 1099511628211
		}
	}
	return h
}

func nonzero(c []int) string {
	var s []string
	for i, v := range c {
		if v != 0 {
			s = append(s, fmt.Sprintf("%d:%d", i, v))
		}
	}
	return "[" + strings.Join(s, " ") + "] of " + fmt.Sprint(len(c))
}

func inputsFor(c *circuit.Circuit, n, variant int) []string {
	var res []string
	for i := 0; i < n; i++ {
		w := int(c.Inputs[i].Type.Bits)
		ones := new(big.Int).Sub(new(big.Int).Lsh(big.NewInt(1), uint(w)), big.NewInt(1))
		var v *big.Int
		switch (variant + i) % 4 {
		case 0:
			v = ones
		case 1:
			v = new(big.Int).Div(ones, big.NewInt(3)) // 0x55..
		case 2:
			v = new(big.Int).Sub(ones, new(big.Int).Div(ones, big.NewInt(5)))
		default:
			v = big.NewInt(int64(7 + 13*i + variant))
			v.And(v, ones)
		}
		res = append(res, v.String())
	}
	return res
}

// negInputsFor: negative values (variant 0: small negatives and -1, variant 1: the most negative value and mixed
// signs), each representable in the input's width as a signed number.
func negInputsFor(c *circuit.Circuit, n, variant int) []string {
	var res []string
	for i := 0; i < n; i++ {
		w := int(c.Inputs[i].Type.Bits)
		half := new(big.Int).Lsh(big.NewInt(1), uint(w-1))
		var v *big.Int
		switch {
		case w <= 1:
			v = big.NewInt(int64(i % 2))
		case variant == 0 && i%2 == 0:
			v = new(big.Int).Neg(big.NewInt(int64(3 + 2*i)))
			if v.CmpAbs(half) > 0 {
				v = big.NewInt(-1)
			}
		case variant == 0:
			v = big.NewInt(-1)
		case i%2 == 0:
			v = new(big.Int).Neg(half)
		default:
			v = big.NewInt(int64(5 + i))
			if v.Cmp(half) >= 0 {
				v = big.NewInt(1)
			}
		}
		res = append(res, v.String())
	}
	return res
}

func perms(n int) [][]int {
	var res [][]int
	a := make([]int, n)
	for i := range a {
		a[i] = i
	}
	var rec func(i int)
	rec = func(i int) {
		if i == n {
			res = append(res, append([]int(nil), a...))
			return
		}
		for j := i; j < n; j++ {
			a[i], a[j] = a[j], a[i]
			rec(i + 1)
			a[i], a[j] = a[j], a[i]
		}
	}
	rec(0)
	sort.Slice(res, func(i, j int) bool { return fmt.Sprint(res[i]) < fmt.Sprint(res[j]) })
	return res
}

func ident(n int) []int {
	r := make([]int, n)
	for i := range r {
		r[i] = i
	}
	return r
}

// runRace runs complete GMW sessions free on unmodified code over loopback TCP under the race detector
// (harness/racepass10): accesses between two synchronisation operations (the triple pool's arrays, share buffers) are
// atomic under the cooperative scheduler and can only be seen there. Sampled schedules, declared as such.
func runRace(ctx *runner.Ctx) {
	count := "3"
	if !ctx.Quick() {
		count = "40"
	}
	args := []string{"test", "-race", "-vet=off", "-count=" + count}
	if ctx.Quick() {
		args = append(args, "-short")
	}
	args = append(args, runner.RaceDeadlineArg(ctx))
	if runner.RepoDir != "/repo" {
		args = append(args, "-modfile="+os.Getenv("VERIF_WORK")+"/go.mod")
	}
	cmd := exec.Command("go", append(args, "./racepass10/")...)
	cmd.Dir = "/verif/harness"
	cmd.Env = append(os.Environ(), "GOFLAGS=-mod=mod", "GOPROXY=off")
	out, err := cmd.CombinedOutput()
	ctx.Eval(1)
	o := string(out)
	tail := o
	if len(tail) > 1500 {
		tail = tail[len(tail)-1500:]
	}
	k := cs{N: 0, Prog: -1}
	switch {
	case strings.Contains(o, "WARNING: DATA RACE"):
		i := strings.Index(o, "WARNING: DATA RACE")
		end := i + 1500
		if end > len(o) {
			end = len(o)
		}
		ctx.Violate("data-race", "race detector report in free-running GMW sessions: "+o[i:end], k)
	case err != nil && runner.RaceDeadlineHit(ctx, "GMW sessions", o):
	case err != nil && strings.Contains(o, "--- FAIL"):
		ctx.Violate("wrong-output.free-running", "free-running GMW sessions failed: "+tail, k)
	case err != nil:
		panic("race pass could not run: " + tail)
	case strings.Contains(o, "--- SKIP") || strings.Contains(o, "no loopback"):
		ctx.Outcome("race-pass-skipped")
		ctx.Incomplete("the free-running race pass could not use loopback TCP")
	default:
		ctx.Outcome("race-pass-clean/count=" + count)
		ctx.NontrivialN(1)
	}
}

func work(ctx *runner.Ctx) {
	if ctx.Shard == 0 {
		runRace(ctx)
	}
	mpcl.Quiet()
	if err := csched.SelfTest(); err != nil {
		panic(err)
	}
	quick := ctx.Quick()
	var data, sched []cs
	seed := uint64(ctx.Seed)
	// data part: default schedule, every start order for small n
	maxN := 3
	if !quick {
		maxN = 5
	}
	for n := 2; n <= maxN; n++ {
		for prog := 0; prog < 8; prog++ {
			if prog == 4 && (n > 2 || quick) && !(n == 2) {
				continue
			}
			c := compiled(n, prog)
			for variant := 0; variant < 3; variant++ {
				if quick && variant > 0 && (n > 2 || prog > 1) {
					continue
				}
				var reqs []int
				switch variant {
				case 0:
					reqs = []int{1, 64, 65}
				case 1:
					reqs = []int{4096, 4097}
				default:
					reqs = []int{9000, 1}
				}
				orders := [][]int{ident(n)}
				if variant == 0 && n <= 3 {
					orders = perms(n)
				} else if variant == 0 {
					rev := make([]int, n)
					for i := range rev {
						rev[i] = n - 1 - i
					}
					orders = append(orders, rev)
				}
				for _, o := range orders {
					in := inputsFor(c, n, variant)
					if prog == 7 {
						// a == b*b holds: the equality is an AND over XNOR gates, a stale input shows as "false"
						b := []int{13, 255, 16}[variant]
						in[0], in[1] = fmt.Sprint(b*b%256), fmt.Sprint(b)
					}
					data = append(data, cs{N: n, Prog: prog, Inputs: in, Triples: reqs, Order: o, P: 0, F: 1, Seed: seed + uint64(variant)})
				}
				// a second Run on the same Network after the first one (same circuit, other inputs)
				if variant == 0 && (!quick || prog <= 1) {
					data = append(data, cs{N: n, Prog: prog, Inputs: inputsFor(c, n, 0), Inputs2: inputsFor(c, n, 1), Triples: []int{1}, Order: ident(n), P: 0, F: 1, Seed: seed})
					data = append(data, cs{N: n, Prog: prog, Inputs: inputsFor(c, n, 2), Inputs2: inputsFor(c, n, 2), Triples: nil, Order: ident(n), P: 0, F: 1, Seed: seed})
				}
				// the same session with inputs handed over as NEGATIVE integers (what IOArg.Parse returns for "-5"):
				// the wires carry their two's complement bits
				if variant == 0 && (!quick || prog <= 2) {
					for _, nv := range []int{0, 1} {
						data = append(data, cs{N: n, Prog: prog, Inputs: negInputsFor(c, n, nv), Triples: []int{1}, Order: ident(n), P: 0, F: 1, Seed: seed})
					}
				}
			}
		}
	}
	// schedule part: preemptions at the non-deterministic operations and one free switch, per start order
	for _, o := range perms(2) {
		c := compiled(2, 0)
		sched = append(sched, cs{N: 2, Prog: 0, Inputs: inputsFor(c, 2, 1), Triples: []int{65}, Order: o, P: 1, F: 2, Seed: seed})
		if !quick {
			sched = append(sched, cs{N: 2, Prog: 1, Inputs: inputsFor(c, 2, 2), Triples: []int{4097}, Order: o, P: 1, F: 2, Seed: seed})
			sched = append(sched, cs{N: 2, Prog: 4, Inputs: inputsFor(compiled(2, 4), 2, 0), Triples: nil, Order: o, P: 1, F: 1, Seed: seed})
		}
	}
	if !quick {
		for _, o := range perms(3) {
			c := compiled(3, 0)
			sched = append(sched, cs{N: 3, Prog: 0, Inputs: inputsFor(c, 3, 1), Triples: []int{65}, Order: o, P: 1, F: 1, Seed: seed})
		}
	} else {
		c := compiled(3, 0)
		sched = append(sched, cs{N: 3, Prog: 0, Inputs: inputsFor(c, 3, 1), Triples: []int{65}, Order: []int{2, 0, 1}, P: 0, F: 2, Seed: seed})
	}
	// relative speeds: every assignment of {fast, slow} to the parties' main threads, for requests that cross the
	// first triple batch (4096) - one party reaches Pool.Get between two batches, another after both
	for n := 2; n <= 3; n++ {
		if n == 3 && quick {
			continue
		}
		c := compiled(n, 0)
		for mask := 0; mask < 1<<uint(n); mask++ {
			var slow, fast []int
			for i := 0; i < n; i++ {
				if mask>>uint(i)&1 == 1 {
					slow = append(slow, i)
				} else {
					fast = append(fast, i)
				}
			}
			for _, reqs := range [][]int{{4097}, {9000}, {4096, 1}} {
				if quick && reqs[0] == 4096 {
					continue
				}
				data = append(data, cs{N: n, Prog: 0, Inputs: inputsFor(c, n, 1), Triples: reqs, Order: ident(n), P: 0, F: 1, Seed: seed, Slow: slow, Fast: fast})
			}
		}
	}
	ctx.Note(fmt.Sprintf("case list: %d data sessions (default schedule), %d explored systems", len(data), len(sched)))
	for i, k := range data {
		if !ctx.Mine(i) {
			continue
		}
		if ctx.Expired() {
			return
		}
		runCaseSharded(ctx, k, 0, 1)
		if i%7 == 0 {
			ctx.Sample(k)
		}
	}
	for _, k := range sched {
		if ctx.Expired() {
			return
		}
		runCaseSharded(ctx, k, ctx.Shard, ctx.NShards)
	}
}

func replay(ctx *runner.Ctx, raw json.RawMessage) {
	var k cs
	if err := json.Unmarshal(raw, &k); err != nil {
		panic(err)
	}
	mpcl.Quiet()
	if k.Prog < 0 {
		runRace(ctx)
		return
	}
	runCaseSharded(ctx, k, 0, 1)
}

func main() {
	runner.Main(runner.Spec{
		ID:    "C10",
		Level: "model_checking",
		Rule: "the real gmw.Network and p2p.Conn (rewritten onto the cooperative scheduler; gmw's randomness seeded) run complete sessions over an in-memory network: (data part) 2..3 (thorough 2..5) parties x 7 GMW-compiled programs (narrow, many AND levels, AND levels of 130/65/63 gates and of exactly 64/128/192 gates, inversions, > 4096 ANDs in the early levels) x input vectors x triple requests {1,64,65 | 4096,4097 | 9000,1} issued by every party right after Connect x start orders, under the deterministic default schedule; (schedule part) for 2 (thorough 2 and 3) parties every start order x every schedule with <= 1 preemption at a non-deterministic operation (mutex, cond, accept, dial, spawn, listener close) and a bounded number of non-default free switches. Oracle: every party's Run returns without error, outputs equal the truth-table evaluation on all parties' inputs, every requested triple word satisfies (xor a)&(xor b) = xor c across the parties, Close returns, no deadlock. " +
			"states = distinct (steps, choice-point profile) classes of executions, transitions = scheduling steps, traces_validated_against_impl = complete protocol executions",
		Assumptions: []string{
			"link reads/writes and the Conn buffer ring are not preemption points here (FIFO links with one reader and one writer thread each; C11 explores them); preemptions are explored at mutex/cond/accept/dial/spawn operations",
			"each execution costs 0.05-1 s (128 Chou-Orlandi base OTs per ordered pair are hard-wired), which fixes the bounds",
		},
		Work:           work,
		Replay:         replay,
		QuickBudget:    85 * time.Second,
		ThoroughBudget: 25 * time.Minute,
	})
}
