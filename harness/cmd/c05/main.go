// C05 — streaming mode agrees with whole-circuit mode.
package main

import (
	"encoding/json"
	"fmt"
	"github.com/markkurossi/mpc/compiler/ssa"
	"math/big"
	"sort"
	"strings"
	"time"

	"github.com/markkurossi/mpc/circuit"
	"github.com/markkurossi/mpc/types"

	"verif/mpcl"
	"verif/mpclgen"
	"verif/refsem"
	"verif/runner"
	"verif/sess"
)

type cs struct {
	Src   string  `json:"src"`
	G     string  `json:"g"`
	E     string  `json:"e"`
	OT    string  `json:"ot"`
	Sizes [][]int `json:"sizes,omitempty"`
	Fam   string  `json:"family"`
}

type compiled struct {
	c   *circuit.Circuit
	err string
}

var cache = map[string]*compiled{}

func compile(src string, sizes [][]int) *compiled {
	key := src + fmt.Sprint(sizes)
	if c, ok := cache[key]; ok {
		return c
	}
	c, _, err, _ := mpcl.Compile(src, mpcl.Opts{}, sizes)
	r := &compiled{c: c}
	if err != nil {
		r.err = err.Error()
	}
	if len(cache) > 20000 {
		cache = map[string]*compiled{}
	}
	cache[key] = r
	return r
}

func oneLine(s string) string {
	s = strings.TrimPrefix(s, "package main\n\n")
	return strings.ReplaceAll(strings.ReplaceAll(s, "\n\t", " ; "), "\n", " ")
}

func runCase(ctx *runner.Ctx, k cs) {
	ctx.Eval(1)
	cc := compile(k.Src, k.Sizes)
	fail := func(kind, what string) {
		ctx.Violate(kind+"."+k.Fam, fmt.Sprintf("%s :: %s inputs g=%s e=%s ot=%s", what, oneLine(k.Src), k.G, k.E, k.OT), k)
	}
	if cc.err != "" {
		ctx.Outcome("shape-rejected-by-compiler/" + k.Fam)
		ctx.Note("rejected shape (" + k.Fam + "): " + firstLine(cc.err))
		if strings.HasPrefix(cc.err, "compiler panic") {
			// not a rejection but a crash of the whole-circuit compilation: there is no circuit to compare with,
			// but a streaming session that hands both parties values for such a program cannot be right either
			r := sess.RunStream(k.Src, []string{k.G}, []string{k.E}, k.Sizes, sess.Opts{Seed: 5, OT: k.OT})
			if r.Outcome == "ok" && r.GErr == nil && r.EErr == nil && len(r.GOut) > 0 {
				fail("streaming-returns-values-where-whole-circuit-compilation-panics", fmt.Sprintf("streaming: garbler=%v evaluator=%v; whole-circuit compilation: %s", r.GOut, r.EOut, firstLine(cc.err)))
			}
		}
		return
	}
	c := cc.c
	// whole-circuit reference on the same textual inputs
	gin, err1 := c.Inputs[0].Parse([]string{k.G})
	ein, err2 := c.Inputs[1].Parse([]string{k.E})
	if err1 != nil || err2 != nil {
		ctx.Outcome("input-rejected")
		return
	}
	want, err := c.Compute([]*big.Int{gin, ein})
	if err != nil {
		fail("whole-circuit-error", err.Error())
		return
	}
	r := sess.RunStream(k.Src, []string{k.G}, []string{k.E}, k.Sizes, sess.Opts{OT: k.OT, Seed: 3})
	if r.Outcome == "stuck" {
		panic("harness: " + r.Detail)
	}
	if r.Outcome != "ok" {
		fail("no-termination", fmt.Sprintf("streaming session %s: %s (garbler=%v evaluator=%v)", r.Outcome, firstLine(r.Detail), r.GErr, r.EErr))
		return
	}
	if r.GErr != nil || r.EErr != nil {
		fail("error", fmt.Sprintf("streaming session failed: garbler=%v evaluator=%v", r.GErr, r.EErr))
		return
	}
	if len(r.GOut) != len(want) || len(r.EOut) != len(want) {
		fail("arity", fmt.Sprintf("streaming returned %d/%d values, whole circuit %d", len(r.GOut), len(r.EOut), len(want)))
		return
	}
	for i := range want {
		if r.GOut[i].Cmp(r.EOut[i]) != 0 {
			fail("parties-disagree", fmt.Sprintf("output %d: garbler=%s evaluator=%s", i, r.GOut[i], r.EOut[i]))
			return
		}
		if r.GOut[i].Cmp(want[i]) != 0 {
			fail("value", fmt.Sprintf("output %d: streaming=%s whole-circuit=%s", i, r.GOut[i], want[i]))
			return
		}
	}
	if len(r.GIO) != len(c.Outputs) || len(r.EIO) != len(c.Outputs) {
		fail("types", fmt.Sprintf("streaming reports %d/%d outputs, compiled circuit %d", len(r.GIO), len(r.EIO), len(c.Outputs)))
		return
	}
	for i := range c.Outputs {
		w := c.Outputs[i].Type
		for side, got := range map[string]circuit.IO{"garbler": r.GIO, "evaluator": r.EIO} {
			t := got[i].Type
			if t.Bits != w.Bits || t.Type != w.Type || t.ArraySize != w.ArraySize {
				fail("types", fmt.Sprintf("output %d type at the %s is %s (%d bits), compiled circuit says %s (%d bits)", i, side, t, t.Bits, w, w.Bits))
				return
			}
			if what := typeDiff(t, w); what != "" {
				fail("types.deep."+what, fmt.Sprintf("output %d type at the %s is %s, compiled circuit says %s: %s", i, side, t, w, what))
				return
			}
		}
	}
	ctx.Outcome("agree/" + k.Fam)
	ctx.Nontrivial(k.Src + "|" + k.G + "|" + k.E + k.OT)
}

// typeDiff compares two output types all the way down: element types of arrays, fields of structs.
func typeDiff(t, w types.Info) string {
	if t.Type != w.Type || t.Bits != w.Bits {
		return "kind-or-width"
	}
	switch w.Type {
	case types.TArray, types.TSlice:
		if t.ArraySize != w.ArraySize {
			return "array-size"
		}
		if (t.ElementType == nil) != (w.ElementType == nil) {
			return "element-type-missing"
		}
		if w.ElementType != nil {
			if d := typeDiff(*t.ElementType, *w.ElementType); d != "" {
				return "element." + d
			}
		}
	case types.TStruct:
		if len(t.Struct) != len(w.Struct) {
			return "struct-fields-missing"
		}
		for i := range w.Struct {
			if d := typeDiff(t.Struct[i].Type, w.Struct[i].Type); d != "" {
				return "field." + d
			}
		}
	}
	return ""
}

func firstLine(s string) string {
	if i := strings.Index(s, "\n"); i > 0 {
		s = s[:i]
	}
	if len(s) > 200 {
		s = s[:200]
	}
	return s
}

const W = 4

var aliasKinds = []string{"mov", "shl1", "shr1", "shl3", "cast", "slice"}

func aliasExpr(kind, x string) string {
	switch kind {
	case "mov":
		return x
	case "shl1":
		return x + " << 1"
	case "shr1":
		return x + " >> 1"
	case "shl3":
		return x + " << 3"
	case "cast":
		return fmt.Sprintf("uint%d(uint%d(%s))", W, W/2, x)
	case "slice":
		return fmt.Sprintf("uint%d(%s[1:%d])", W, x, W)
	}
	panic(kind)
}

func prog(body []string, ret string) string {
	return fmt.Sprintf("package main\n\nfunc main(a, b uint%d) uint%d {\n\t%s\n\treturn %s\n}\n", W, W, strings.Join(body, "\n\t"), ret)
}

func permutations(items []string) [][]string {
	var res [][]string
	var rec func(i int)
	a := append([]string(nil), items...)
	rec = func(i int) {
		if i == len(a) {
			res = append(res, append([]string(nil), a...))
			return
		}
		seen := map[string]bool{}
		for j := i; j < len(a); j++ {
			if seen[a[j]] {
				continue
			}
			seen[a[j]] = true
			a[i], a[j] = a[j], a[i]
			rec(i + 1)
			a[i], a[j] = a[j], a[i]
		}
	}
	rec(0)
	return res
}

// aliasFamily: a gate-produced value v, nAlias aliases of it (of v or of an earlier alias), then every order of
// the events {use of each alias, allocations of fresh same-width values}; all results stay live to the end.
func aliasFamily(nAlias, nAlloc int, stride int, emit func(src, fam string)) {
	var kinds func(i int, cur []string)
	count := 0
	kinds = func(i int, cur []string) {
		if i == nAlias {
			// parents: alias i derives from v or from any earlier alias
			var parents func(j int, ps []int)
			parents = func(j int, ps []int) {
				if j == nAlias {
					var events []string
					for x := 0; x < nAlias; x++ {
						events = append(events, fmt.Sprintf("u%d", x))
					}
					for x := 0; x < nAlloc; x++ {
						events = append(events, fmt.Sprintf("n%d", x))
					}
					// the aliased value itself is used once more, somewhere among the other events
					events = append(events, "v9")
					for _, order := range permutations(events) {
						for _, nested := range []bool{false, true} {
							count++
							if count%stride != 0 {
								continue
							}
							body := []string{"v := a + b"}
							for x := 0; x < nAlias; x++ {
								p := "v"
								if ps[x] > 0 {
									p = fmt.Sprintf("x%d", ps[x]-1)
								}
								body = append(body, fmt.Sprintf("x%d := %s", x, aliasExpr(cur[x], p)))
							}
							var terms []string
							for _, ev := range order {
								idx := int(ev[1] - '0')
								if ev[0] == 'v' {
									if nested {
										body = append(body, "tv := (v & a) - b")
									} else {
										body = append(body, "tv := v & a")
									}
									terms = append(terms, "tv")
								} else if ev[0] == 'u' {
									if nested {
										body = append(body, fmt.Sprintf("t%d := (x%d & a) - b", idx, idx))
									} else {
										body = append(body, fmt.Sprintf("t%d := x%d & a", idx, idx))
									}
									terms = append(terms, fmt.Sprintf("t%d", idx))
								} else {
									ops := []string{"a - b", "a | b", "b - a"}
									body = append(body, fmt.Sprintf("n%d := %s", idx, ops[idx%3]))
									terms = append(terms, fmt.Sprintf("n%d", idx))
								}
							}
							emit(prog(body, strings.Join(terms, " + ")), fmt.Sprintf("alias%d-alloc%d", nAlias, nAlloc))
						}
					}
					return
				}
				for p := 0; p <= j; p++ {
					parents(j+1, append(ps, p))
				}
			}
			parents(0, nil)
			return
		}
		for _, k := range aliasKinds {
			kinds(i+1, append(cur, k))
		}
	}
	kinds(0, nil)
}

// generalFamily: every program of k single-operation statements over {+, &} and the alias operations, returning
// the last value combined with one earlier value.
func generalFamily(k int, stride int, emit func(src, fam string)) {
	type st struct{ text string }
	count := 0
	var rec func(i int, body []string)
	rec = func(i int, body []string) {
		vars := []string{"a", "b"}
		for j := 0; j < i; j++ {
			vars = append(vars, fmt.Sprintf("v%d", j))
		}
		if i == k {
			last := fmt.Sprintf("v%d", k-1)
			for _, o := range vars[:len(vars)-1] {
				count++
				if count%stride != 0 {
					continue
				}
				emit(prog(body, last+" + "+o), fmt.Sprintf("general%d", k))
			}
			return
		}
		for xi, x := range vars {
			for _, y := range vars[xi:] {
				for _, op := range []string{"+", "&"} {
					rec(i+1, append(body, fmt.Sprintf("v%d := %s %s %s", i, x, op, y)))
				}
			}
			for _, ak := range []string{"mov", "shl1", "shr1", "cast"} {
				rec(i+1, append(body, fmt.Sprintf("v%d := %s", i, aliasExpr(ak, x))))
			}
		}
	}
	rec(0, nil)
}

func hexArr(elBits, n, salt int) string {
	s := "0x"
	for i := 0; i < n; i++ {
		v := (i*37 + salt*11 + 5) & (1<<uint(elBits) - 1)
		s += fmt.Sprintf("%0*x", elBits/4, v)
	}
	return s
}

// sameHashNames: variable names whose ssa.Value hash codes (the repository's own HashCode) are EQUAL, so that their
// values share a bucket of the streaming wire allocator whatever its size: the order in which colliding values are
// allocated, looked up and recycled then matters.
func sameHashNames() [][]string {
	groups := map[int][]string{}
	letters := "abcdefghijklmnopqrstuvwxyz"
	var names []string
	for _, a := range letters {
		for _, b := range letters {
			names = append(names, string(a)+string(b))
			for _, c := range letters {
				names = append(names, string(a)+string(b)+string(c))
			}
		}
	}
	reserved := map[string]bool{"if": true, "for": true, "var": true, "int": true, "len": true, "go": true, "map": true, "new": true, "nil": true, "cap": true}
	for _, n := range names {
		if reserved[n] {
			continue
		}
		v := ssa.Value{Name: n, Scope: 1}
		h := v.HashCode()
		groups[h] = append(groups[h], n)
	}
	var res [][]string
	var keys []int
	for h, g := range groups {
		if len(g) >= 3 {
			keys = append(keys, h)
		}
	}
	sort.Ints(keys)
	for _, h := range keys {
		res = append(res, groups[h][:3])
	}
	return res
}

func hashCollisions(ctx *runner.Ctx, quick bool, idx *int) {
	groups := sameHashNames()
	if len(groups) == 0 {
		ctx.Note("no three short names with equal ssa.Value.HashCode found: same-hash family empty")
		return
	}
	max := 12
	if quick {
		max = 3
	}
	if len(groups) > max {
		groups = groups[:max]
	}
	run := func(src, g, e string) {
		*idx++
		if !ctx.Mine(*idx) || ctx.Expired() {
			return
		}
		runCase(ctx, cs{Src: src, G: g, E: e, OT: "ideal", Fam: "same-hash-names"})
	}
	for _, g := range groups {
		// as arguments, each recycled first
		for _, o := range [][2]string{{g[0], g[1]}, {g[1], g[0]}, {g[0], g[2]}} {
			run(fmt.Sprintf("package main\n\nfunc main(%s, %s uint32) uint32 {\n\tt := %s * 3\n\treturn t + %s\n}\n", o[0], o[1], o[0], o[1]), "1000", "77")
			run(fmt.Sprintf("package main\n\nfunc main(%s, %s uint32) uint32 {\n\tt := %s * 3\n\treturn t + %s\n}\n", o[0], o[1], o[1], o[0]), "1000", "77")
		}
		// as three locals, used (and therefore recycled) in every order
		for _, p := range permutations([]string{g[0], g[1], g[2]}) {
			src := fmt.Sprintf("package main\n\nfunc main(a, b uint16) uint16 {\n\t%s := a + b\n\t%s := a * b\n\t%s := a ^ b\n\tu := %s * 3\n\tv := u + %s\n\tw := v * 5\n\treturn w + %s\n}\n", g[0], g[1], g[2], p[0], p[1], p[2])
			run(src, "1000", "77")
			run(src, "65535", "3")
		}
	}
}

func sameShape(ctx *runner.Ctx, quick bool, idx *int) {
	run := func(fam, src, g, e string) {
		*idx++
		if !ctx.Mine(*idx) || ctx.Expired() {
			return
		}
		runCase(ctx, cs{Src: src, G: g, E: e, OT: "ideal", Fam: fam})
	}
	// two (three) run-time index operations over arrays of equal total width and different element widths,
	// indexed by one variable
	els := []int{4, 8, 16, 32}
	for _, total := range []int{32, 64} {
		for i, e1 := range els {
			for _, e2 := range els[i+1:] {
				if total%e2 != 0 || total/e2 < 2 {
					continue
				}
				n1, n2 := total/e1, total/e2
				mask := n2 - 1
				for _, order := range []int{0, 1} {
					first, second := "a[i]", "b[i]"
					if order == 1 {
						first, second = "b[i]", "a[i]"
					}
					src := fmt.Sprintf("package main\n\nfunc main(a [%d]uint%d, b [%d]uint%d, c uint8) (uint%d, uint%d) {\n\ti := c & %d\n\tx := %s\n\ty := %s\n\treturn uint%d(x) + uint%d(y), uint%d(x) ^ uint%d(y)\n}\n",
						n1, e1, n2, e2, e1, e2, mask, first, second, e1, e1, e2, e2)
					_ = src
					// index by an evaluator value: main(a garbler array, e struct?) - keep two-party: a and c from
					// the garbler would need a compound input; use a package-level table for b instead
					src = fmt.Sprintf("package main\n\nfunc main(a [%d]uint%d, b [%d]uint%d) (uint%d, uint%d) {\n\ti := b[0] & %d\n\tx := %s\n\ty := %s\n\treturn uint%d(x) + uint%d(y), uint%d(x) ^ uint%d(y)\n}\n",
						n1, e1, n2, e2, e1, e2, mask, first, second, e1, e1, e2, e2)
					for sel := 0; sel <= mask; sel++ {
						if quick && sel > 1 && sel < mask {
							continue
						}
						// b[0] selects the index; its other elements are distinct
						e := "0x" + fmt.Sprintf("%0*x", e2/4, sel) + hexArr(e2, n2-1, sel)[2:]
						run("same-shape-index", src, hexArr(e1, n1, sel), e)
					}
				}
			}
		}
	}
	// slices, casts and shifts of one value that differ only in constant offsets / result widths
	for _, w := range []int{16, 32} {
		h := w / 2
		q := w / 4
		srcs := []string{
			fmt.Sprintf("package main\n\nfunc main(a, b uint%d) (uint%d, uint%d, uint%d, uint%d) {\n\tx := a + b\n\treturn x[0:%d], x[%d:%d], x[%d:%d], x[%d:%d]\n}\n", w, q, q, h, h, q, q, 2*q, h, w, 0, h),
			fmt.Sprintf("package main\n\nfunc main(a, b uint%d) (uint%d, uint%d, uint%d) {\n\tx := a ^ b\n\treturn uint%d(x), uint%d(x >> %d), uint%d(x >> %d)\n}\n", w, h, h, q, h, h, h, q, q),
			fmt.Sprintf("package main\n\nfunc main(a, b uint%d) (uint%d, uint%d, uint%d) {\n\tx := a & b\n\treturn x + 1, x + 2, (x + 1) * (x + 3)\n}\n", w, w, w, w),
			fmt.Sprintf("package main\n\nfunc main(a, b uint%d) (bool, bool, uint%d, uint%d) {\n\treturn a < b, a <= b, a / (b | 1), a %% (b | 1)\n}\n", w, w, w),
			fmt.Sprintf("package main\n\nfunc main(a, b int%d) (bool, bool, int%d, int%d, uint%d) {\n\treturn a < b, uint%d(a) < uint%d(b), a >> 1, a / (b | 1), uint%d(a) / (uint%d(b) | 1)\n}\n", w, w, w, w, w, w, w, w),
		}
		for _, src := range srcs {
			for _, in := range [][2]string{{"0x1234", "0x0ff1"}, {"0xffff", "0x0001"}, {"0x8001", "0x7ffe"}, {"40000", "3"}} {
				run("same-shape-const", src, in[0], in[1])
			}
		}
	}
}

var fixedPrograms = []struct {
	name, src string
	sizes     [][]int
	g, e      []string
}{
	{"array-update", "package main\n\nfunc main(a, b uint8) uint8 {\n\tvar arr [3]uint8\n\tarr[0] = a & b\n\tarr[1] = arr[0] << 1\n\tx := arr[0:2]\n\tarr[2] = a - b\n\ty := a + b\n\treturn x[1] + arr[2] + y + x[0]\n}\n", nil, []string{"200", "7"}, []string{"77", "255"}},
	{"struct-field", "package main\n\ntype P struct {\n\tx uint8\n\ty uint8\n}\n\nfunc main(a, b uint8) uint8 {\n\tvar p P\n\tp.x = a + b\n\tq := p\n\tp.y = a & b\n\tz := a - b\n\treturn q.x + p.y + z + p.x\n}\n", nil, []string{"200", "7"}, []string{"77", "255"}},
	{"if-phi", "package main\n\nfunc main(a, b uint8) (uint8, bool) {\n\tx := a + b\n\ty := x >> 1\n\tif a > b {\n\t\tx = a - b\n\t} else {\n\t\ty = y << 2\n\t}\n\tz := a ^ b\n\treturn x + y + z, a > b\n}\n", nil, []string{"200", "7"}, []string{"77", "255"}},
	{"sized-int", "package main\n\nfunc main(a, b int) int {\n\tx := a + b\n\ty := x >> 1\n\tz := a - b\n\treturn y + z\n}\n", [][]int{{8}, {8}}, []string{"100", "7"}, []string{"27", "120"}},
	{"sized-int16", "package main\n\nfunc main(a, b int) int {\n\tx := a + b\n\ty := x >> 1\n\tz := a - b\n\treturn y + z\n}\n", [][]int{{16}, {16}}, []string{"1000", "7"}, []string{"277", "30000"}},
	{"bytes", "package main\n\nfunc main(a, b []byte) []byte {\n\tvar r [2]byte\n\tr[0] = a[0] ^ b[1]\n\tr[1] = a[1] + b[0]\n\treturn r[0:2]\n}\n", [][]int{{16}, {16}}, []string{"0x1234", "0xff01"}, []string{"0xa0b1", "0x0203"}},
	{"wide-instr-div96", "package main\n\nfunc main(a, b uint96) uint96 {\n\treturn a / (b | 1)\n}\n", nil, []string{"79228162514264337593543950335", "12345678901234567890123"}, []string{"3", "987654321987"}},
	{"wide-instr-mul256", "package main\n\nfunc main(a, b uint256) uint256 {\n\treturn a * b\n}\n", nil, []string{"115792089237316195423570985008687907853269984665640564039457584007913129639935", "12345678901234567890123456789012345678901234567890"}, []string{"115792089237316195423570985008687907853269984665640564039457584007913129639935", "98765432109876543210987654321"}},
	{"wide-instr-mod128", "package main\n\nfunc main(a, b uint128) uint128 {\n\treturn a % (b | 1)\n}\n", nil, []string{"340282366920938463463374607431768211455"}, []string{"18446744073709551629"}},
	{"zero-width-evaluator", "package main\n\nfunc main(g uint16, e [0]byte) (uint8, uint16) {\n\treturn uint8(g >> 3), g + 1\n}\n", nil, []string{"65535", "37"}, []string{"0", "0"}},
	{"zero-width-garbler", "package main\n\nfunc main(g [0]byte, e uint8) (uint8, bool) {\n\treturn e ^ 0x5a, e > 7\n}\n", nil, []string{"0", "0"}, []string{"200", "5"}},
	{"array-concat", "package main\n\nfunc main(a [4]uint8, b [4]uint8) ([8]uint8, uint32) {\n\tvar t uint32 = uint32(b[0]) + 7\n\tc := a + b\n\tt = t * 3\n\treturn c, t\n}\n", nil, []string{"0x01020304", "0xfffefdfc"}, []string{"0x05060708", "0x00010203"}},
	{"array-concat-reuse", "package main\n\nfunc main(a [2]uint8, b [2]uint8) ([4]uint8, [4]uint8, uint16) {\n\tc := a + b\n\td := b + a\n\tx := uint16(a[0]) * uint16(b[1])\n\ty := x + uint16(c[3])\n\treturn c, d, y\n}\n", nil, []string{"0x0102", "0xfffe"}, []string{"0x0506", "0x0001"}},
	{"index-const-offset", "package main\n\nfunc get(p []uint8, i uint1) uint8 {\n\treturn p[i]\n}\n\nfunc f(p *[8]uint8, i uint1) (uint8, uint8, uint8) {\n\treturn get(p[4:6], i), get(p[6:8], i), get(p[0:2], i)\n}\n\nfunc main(a [8]uint8, b uint1) (uint8, uint8, uint8) {\n\treturn f(&a, b)\n}\n", nil, []string{"0x0001020304050607", "0x0001020304050607", "0xa0a1a2a3a4a5a6a7"}, []string{"1", "0", "1"}},
	{"native-hamming", "package main\n\nfunc main(a, b uint32) uint32 {\n\treturn native(\"hamming\", a, b)\n}\n", nil, []string{"0xdeadbeef", "0", "0xffffffff"}, []string{"0x11111111", "0", "0"}},
	{"native-hamming-64-8", "package main\n\nfunc main(a uint64, b uint8) (uint64, uint8) {\n\treturn native(\"hamming\", a, uint64(b)), native(\"hamming\", uint8(a), b)\n}\n", nil, []string{"0xdeadbeefcafebabe", "0xff"}, []string{"0x11", "0"}},
	{"slice-concat-unequal", "package main\n\nfunc main(a, b []byte) ([]byte, int) {\n\tc := a + b\n\treturn c, len(c)\n}\n", [][]int{{24}, {16}}, []string{"0x010203", "0xfffefd"}, []string{"0x0405", "0x0001"}},
	{"slice-concat-unequal-short-left", "package main\n\nfunc main(a, b []byte) ([]byte, int) {\n\tc := a + b\n\treturn c, len(c)\n}\n", [][]int{{16}, {24}}, []string{"0x0102", "0xfffe"}, []string{"0x030405", "0x000102"}},
	{"slice-concat-equal", "package main\n\nfunc main(a, b []byte) ([]byte, int) {\n\tc := a + b\n\treturn c, len(c)\n}\n", [][]int{{16}, {16}}, []string{"0x0102", "0xfffe"}, []string{"0x0304", "0x0001"}},
	{"struct-result", "package main\n\ntype P struct {\n\tX uint8\n\tY int16\n}\n\nfunc main(a, b uint8) (P, uint8) {\n\tvar p P\n\tp.X = a + b\n\tp.Y = int16(a) - int16(b)\n\treturn p, a ^ b\n}\n", nil, []string{"200", "7"}, []string{"77", "255"}},
	{"nested-array-result", "package main\n\nfunc main(a, b uint8) [2][2]uint8 {\n\tvar r [2][2]uint8\n\tr[0][0] = a\n\tr[0][1] = b\n\tr[1][0] = a + b\n\tr[1][1] = a ^ b\n\treturn r\n}\n", nil, []string{"200", "7"}, []string{"77", "255"}},
	{"widemul-1bit-recycled-ids", "package main\n\nfunc main(a, b uint2) (uint2, uint2) {\n\tt := a + b\n\tu := t + a\n\tx := uint1(u)\n\ty := uint1(b)\n\tp := wideMul(x, y)\n\treturn p, u\n}\n", nil, []string{"2", "3", "1", "3"}, []string{"1", "2", "3", "3"}},
	{"widemul-1bit-first", "package main\n\nfunc main(a, b uint1) (uint2, uint1) {\n\tp := wideMul(a, b)\n\treturn p, a ^ b\n}\n", nil, []string{"1", "1", "0"}, []string{"1", "0", "1"}},
	{"widemul-3bit-recycled-ids", "package main\n\nfunc main(a, b uint6) (uint6, uint6) {\n\tt := a + b\n\tu := t + a\n\tx := uint3(u)\n\ty := uint3(b)\n\tp := wideMul(x, y)\n\treturn p, u\n}\n", nil, []string{"63", "42", "7"}, []string{"63", "21", "7"}},
	{"loop", "package main\n\nfunc main(a, b uint8) uint8 {\n\tvar sum uint8\n\tfor i := 0; i < 4; i++ {\n\t\tt := (a >> i) & 1\n\t\tsum = sum + t*b\n\t}\n\treturn sum\n}\n", nil, []string{"13", "255"}, []string{"7", "3"}},
}

func work(ctx *runner.Ctx) {
	mpcl.Quiet()
	quick := ctx.Quick()
	inputs := [][2]string{{"0", "0"}, {"15", "15"}, {"5", "10"}, {"9", "6"}, {"3", "12"}, {"8", "1"}}
	if quick {
		inputs = inputs[1:5]
	}
	idx := 0
	emit := func(src, fam string) {
		idx++
		if !ctx.Mine(idx) || ctx.Expired() {
			return
		}
		for ii, in := range inputs {
			o := "ideal"
			if idx%97 == 0 && ii == 0 {
				o = "co"
			}
			k := cs{Src: src, G: in[0], E: in[1], OT: o, Fam: fam}
			runCase(ctx, k)
			if idx%4001 == 0 && ii == 0 {
				ctx.Sample(k)
			}
			if ctx.NumViolations() > 20 {
				return
			}
		}
	}
	if quick {
		aliasFamily(1, 1, 1, emit)
		aliasFamily(2, 1, 1, emit)
		aliasFamily(2, 2, 23, emit)
		aliasFamily(3, 1, 113, emit)
		generalFamily(2, 1, emit)
		generalFamily(3, 7, emit)
	} else {
		aliasFamily(1, 1, 1, emit)
		aliasFamily(1, 2, 1, emit)
		aliasFamily(2, 1, 1, emit)
		aliasFamily(2, 2, 1, emit)
		aliasFamily(3, 1, 2, emit)
		aliasFamily(3, 2, 11, emit)
		generalFamily(2, 1, emit)
		generalFamily(3, 1, emit)
		generalFamily(4, 61, emit)
	}
	// the statement-level and cast families of the C03 generator, streamed (two-argument mains only)
	genInputs := func(t refsem.Type) []string {
		w := t.W
		if t.Signed {
			w--
		}
		max := new(big.Int).Sub(new(big.Int).Lsh(big.NewInt(1), uint(w)), big.NewInt(1))
		alt := new(big.Int)
		for i := 0; i < w; i += 2 {
			alt.SetBit(alt, i, 1)
		}
		return []string{max.String(), alt.String(), "1"}
	}
	gidx := 0
	genEmit := func(g mpclgen.Gen) {
		gidx++
		ps := g.P.Funcs[len(g.P.Funcs)-1].Params
		if len(ps) != 2 || ps[0].T.N > 0 || len(ps[0].T.Fields) > 0 || ps[1].T.N > 0 || len(ps[1].T.Fields) > 0 || ps[0].T.Bool || ps[1].T.Bool {
			return
		}
		if quick && g.Fam == "if-else" && gidx%3 != 0 {
			return
		}
		idx++
		if !ctx.Mine(idx) || ctx.Expired() {
			return
		}
		gi, ei := genInputs(ps[0].T), genInputs(ps[1].T)
		src := g.P.Src()
		for _, pr := range [][2]int{{0, 1}, {1, 0}, {2, 1}} {
			if quick && pr[0] == 2 {
				continue
			}
			runCase(ctx, cs{Src: src, G: gi[pr[0]], E: ei[pr[1]], OT: "ideal", Fam: "gen-" + g.Fam})
		}
	}
	// instructions that agree in operator and operand bit counts but differ in their typed shape (element width
	// of an indexed array, result width or offsets of a slice/cast, constant operand value): per-instruction
	// circuits are cached during streaming and a cache that merges two of them computes the wrong one
	sameShape(ctx, quick, &idx)
	hashCollisions(ctx, quick, &idx)
	mpclgen.Statements(quick, genEmit)
	mpclgen.Casts(quick, genEmit)
	// every operator x operand shape (the streamer has its own code for each instruction, e.g. for shifts by a
	// constant count at or beyond the operand's width)
	exprTypes := []refsem.Type{refsem.Int(8), refsem.Uint(8), refsem.Int(3)}
	if !quick {
		exprTypes = mpclgen.TypesFor(false)
	}
	for _, t := range exprTypes {
		mpclgen.FamExpr(t, genEmit)
	}
	for fi, f := range fixedPrograms {
		idx++
		if !ctx.Mine(idx) {
			continue
		}
		for i := range f.g {
			for _, o := range []string{"ideal", "co"} {
				runCase(ctx, cs{Src: f.src, G: f.g[i], E: f.e[i], OT: o, Sizes: f.sizes, Fam: "fixed-" + f.name})
			}
		}
		_ = fi
	}
	// wire ids crossing the 64 Ki pages of the streaming wire tables: one program, garbler inputs of every size
	// around 8 KiB (65536 bits) - which value's last wire lands exactly on the boundary depends on the size
	pageProg := "package main\n\nfunc main(a, b []byte) (uint8, bool, uint8) {\n\tc0 := a[0] > b[0]\n\tc1 := a[1] > b[1]\n\tc2 := a[2] > b[2]\n\tc3 := a[3] > b[3]\n\tc4 := a[4] > b[0]\n\tx := a[7] + b[3]\n\ty := a[len(a)-1] ^ b[1]\n\treturn x, c0 && c1 && c2 && c3 && c4, y\n}\n"
	sizes := []int{}
	for n := 8160; n <= 8196; n++ {
		sizes = append(sizes, n)
	}
	if !quick {
		for n := 16370; n <= 16390; n++ {
			sizes = append(sizes, n)
		}
	}
	for _, n := range sizes {
		idx++
		if !ctx.Mine(idx) || ctx.Expired() {
			continue
		}
		buf := make([]byte, n)
		for i := range buf {
			buf[i] = byte(37*i + n)
		}
		runCase(ctx, cs{Src: pageProg, G: fmt.Sprintf("0x%x", buf), E: "0x05810a7f", OT: "ideal", Sizes: [][]int{{8 * n}, {32}}, Fam: "page-boundary"})
	}
	for _, pp := range []string{
		"package main\n\nfunc main(a, b [4096]byte) (uint8, uint8) {\n\tvar x, y uint8\n\tfor i := 0; i < 4; i++ {\n\t\tx = x + a[i] ^ b[i]\n\t\ty = y ^ a[4095-i] + b[4095-i]\n\t}\n\treturn x, y\n}\n",
	} {
		idx++
		if !ctx.Mine(idx) || ctx.Expired() {
			continue
		}
		buf := make([]byte, 4096)
		for i := range buf {
			buf[i] = byte(91*i + 3)
		}
		runCase(ctx, cs{Src: pp, G: fmt.Sprintf("0x%x", buf), E: fmt.Sprintf("0x%x", buf[1:]) + "07", OT: "ideal", Fam: "page-boundary-4k"})
	}
	if !quick && ctx.Shard == 0 {
		// live wire ids beyond 65535: both wire-id encodings of the streaming format
		big := "package main\n\nfunc main(a, b uint8) uint8 {\n\tvar arr [9000]uint8\n\tfor i := 0; i < 9000; i++ {\n\t\tarr[i] = a + uint8(i)\n\t}\n\tx := a & b\n\ty := x << 1\n\tz := a - b\n\treturn arr[8999] + arr[0] + y + z + arr[4500]\n}\n"
		runCase(ctx, cs{Src: big, G: "200", E: "77", OT: "ideal", Fam: "wire-ids-over-65535"})
	}
	ctx.Note(fmt.Sprintf("enumerated %d programs (all shards) x %d input pairs", idx, len(inputs)))
	_ = sort.Strings
}

func replay(ctx *runner.Ctx, raw json.RawMessage) {
	var k cs
	if err := json.Unmarshal(raw, &k); err != nil {
		panic(err)
	}
	mpcl.Quiet()
	runCase(ctx, k)
}

func main() {
	runner.Main(runner.Spec{
		ID:    "C05",
		Level: "exploration",
		Rule: "MPCL programs from an alias grammar and from the statement-level and cast families of the C03 program generator (if/else, nested ifs sharing conditions, unrolled loops, arrays, structs, calls, globals, casts), each run in streaming mode (Compiler.Stream / StreamEvaluator over the real p2p.Conn under the scheduler's deterministic schedule) and compared with Compute on its whole compiled circuit: (alias family) a gate-produced value, 1..3 aliases of it or of each other from {move, <<1, >>1, <<3, narrowing+widening cast, bit slice}, then EVERY order of the events {use of each alias, one more use of the aliased value itself, allocation of 1..2 fresh same-width values}, in plain and nested-expression form; (general family) every program of k <= 3 single-operation statements over {+, &, the alias operations}; fixed programs with array updates, slices, struct copies, if/phi, loops, []byte and size-instantiated int signatures; thorough adds a program whose live wire ids exceed 65535. Oracle: no error/deadlock, garbler == evaluator == whole-circuit values, output types equal. " +
			"distinct_nontrivial = distinct (program, inputs, OT) that reached the oracle",
		Assumptions: []string{
			"programs are generated at source level: SSA sequences the front end cannot produce are outside the property",
			"a shape the compiler rejects is dropped and listed (outcome shape-rejected-by-compiler), not alarmed",
		},
		Work:           work,
		Replay:         replay,
		QuickBudget:    80 * time.Second,
		ThoroughBudget: 20 * time.Minute,
	})
}
