// C03 — the compiled circuit computes what the MPCL program means.
package main

import (
	"encoding/json"
	"fmt"
	"io/fs"
	"math/big"
	"os"
	"path/filepath"
	"reflect"
	"regexp"
	"strings"
	"time"

	mpc "github.com/markkurossi/mpc"
	"github.com/markkurossi/mpc/circuit"
	"github.com/markkurossi/mpc/compiler"
	"github.com/markkurossi/mpc/compiler/utils"

	"verif/bitsim"
	"verif/mpcl"
	"verif/mpclgen"
	. "verif/refsem"
	"verif/runner"
	"verif/valpha"
)

type cs struct {
	Fam    string   `json:"family"`
	Src    string   `json:"src,omitempty"`
	Inputs []string `json:"inputs,omitempty"` // per main argument: packed bits, decimal
	Want   []string `json:"want,omitempty"`   // per result: packed bits, decimal (from the reference interpreter)
	File   string   `json:"file,omitempty"`   // @Test mode: program under testsuite/
}

func oneLine(s string) string {
	s = strings.TrimPrefix(s, "package main\n\n")
	s = strings.ReplaceAll(s, "\n\n", "\n")
	return strings.ReplaceAll(strings.ReplaceAll(s, "\n", " ; "), "\t", "")
}

func firstLine(s string) string {
	if i := strings.Index(s, "\n"); i > 0 {
		s = s[:i]
	}
	if len(s) > 200 {
		s = s[:200]
	}
	return s
}

type compiledProg struct {
	c   *circuit.Circuit
	err string
	pan bool
}

func compileSrc(src string) *compiledProg {
	c, _, err, p := mpcl.Compile(src, mpcl.Opts{}, nil)
	r := &compiledProg{c: c, pan: p}
	if err != nil {
		r.err = err.Error()
	}
	return r
}

// checkVector compares the circuit with stored expectations (replay path and generation path share it).
func checkVector(ctx *runner.Ctx, k cs, c *circuit.Circuit) bool {
	var in []*big.Int
	for _, s := range k.Inputs {
		v, _ := new(big.Int).SetString(s, 10)
		in = append(in, v)
	}
	// main's arguments map to the circuit's (flattened) arguments
	args := bitsim.FlatArgs(c)
	var flat []*big.Int
	if len(args) == len(in) {
		flat = in
	} else {
		// struct arguments are flattened into their members by Compute
		ai := 0
		for _, io := range c.Inputs {
			v := in[ai]
			ai++
			if len(io.Compound) == 0 {
				flat = append(flat, v)
				continue
			}
			off := 0
			for _, m := range io.Compound {
				w := int(m.Type.Bits)
				p := new(big.Int).Rsh(v, uint(off))
				p.And(p, new(big.Int).Sub(new(big.Int).Lsh(big.NewInt(1), uint(w)), big.NewInt(1)))
				flat = append(flat, p)
				off += w
			}
		}
	}
	got, err := c.Compute(flat)
	if err != nil {
		ctx.Violate("compute-error."+k.Fam, fmt.Sprintf("%v :: %s", err, oneLine(k.Src)), k)
		return false
	}
	if len(got) != len(k.Want) {
		ctx.Violate("arity."+k.Fam, fmt.Sprintf("circuit has %d outputs, program returns %d values :: %s", len(got), len(k.Want), oneLine(k.Src)), k)
		return false
	}
	for i := range got {
		if got[i].String() != k.Want[i] {
			ctx.Violate("value."+k.Fam, fmt.Sprintf("inputs %v: output %d of the compiled circuit is %s, the program means %s :: %s", k.Inputs, i, got[i], k.Want[i], oneLine(k.Src)), k)
			return false
		}
	}
	return true
}

func inputValues(t Type, quick bool) []*big.Int {
	w := t.Bits()
	if w <= 6 {
		var r []*big.Int
		for x := 0; x < 1<<uint(w); x++ {
			r = append(r, big.NewInt(int64(x)))
		}
		return r
	}
	if t.N > 0 || len(t.Fields) > 0 {
		// compound: a few packed patterns
		ones := new(big.Int).Sub(new(big.Int).Lsh(big.NewInt(1), uint(w)), big.NewInt(1))
		alt := new(big.Int)
		for i := 0; i < w; i += 2 {
			alt.SetBit(alt, i, 1)
		}
		x := new(big.Int).Rsh(new(big.Int).Mul(ones, big.NewInt(0x9E3779B9)), 7)
		x.And(x, ones)
		return []*big.Int{big.NewInt(0), ones, alt, new(big.Int).Lsh(alt, 1).And(new(big.Int).Lsh(alt, 1), ones), x, big.NewInt(1)}
	}
	a := valpha.Unsigned(w)
	if quick && len(a) > 8 {
		a = []*big.Int{a[0], a[1], a[2], a[len(a)/2-1], a[len(a)/2], a[len(a)-3], a[len(a)-2], a[len(a)-1]}
	}
	return a
}

func runGenerated(ctx *runner.Ctx, g mpclgen.Gen) {
	src := g.P.Src()
	cp := compileSrc(src)
	if cp.pan {
		ctx.Eval(1)
		ctx.Outcome("compiler-panic(recorded)/" + g.Fam)
		ctx.Note("compiler panic (" + g.Fam + "): " + firstLine(cp.err) + " :: " + oneLine(src))
		return
	}
	if cp.err != "" {
		ctx.Eval(1)
		ctx.Outcome("shape-rejected-by-compiler/" + g.Fam)
		ctx.Note("rejected shape (" + g.Fam + "): " + firstLine(cp.err) + " :: " + oneLine(src))
		return
	}
	m := g.P.Main()
	var alph [][]*big.Int
	for _, pa := range m.Params {
		alph = append(alph, inputValues(pa.T, ctx.Quick()))
	}
	in := make([]*big.Int, len(m.Params))
	ok := true
	var rec func(i int)
	rec = func(i int) {
		if !ok {
			return
		}
		if i == len(in) {
			var args []Value
			k := cs{Fam: g.Fam, Src: src}
			for j, pa := range m.Params {
				args = append(args, Unflatten(pa.T, in[j]))
				k.Inputs = append(k.Inputs, in[j].String())
			}
			res, err := g.P.Run(args)
			if err != nil {
				panic("reference interpreter: " + err.Error() + " :: " + oneLine(src))
			}
			for _, r := range res {
				k.Want = append(k.Want, r.Flatten().String())
			}
			ctx.Eval(1)
			ok = checkVector(ctx, k, cp.c)
			return
		}
		for _, v := range alph[i] {
			in[i] = v
			rec(i + 1)
		}
	}
	rec(0)
	if ok {
		ctx.Nontrivial(src)
		ctx.Outcome("agrees/" + g.Fam)
	}
}

// ---- @Test vectors of the repository's test programs ----

var reWhitespace = regexp.MustCompilePOSIX(`[[:space:]]+`)

func reverseHex(val string) string {
	var prefix string
	if strings.HasPrefix(val, "0x") {
		val = val[2:]
		prefix = "0x"
	}
	var result string
	for i := len(val) - 2; i >= 0; i -= 2 {
		result += val[i : i+2]
	}
	if len(val)%2 == 1 {
		result += val[0:1]
	}
	return prefix + result
}

func sha512Emptied() bool {
	fi, err := os.Stat(runner.RepoDir + "/pkg/crypto/sha512/sha512.circ")
	return err == nil && fi.Size() == 0
}

// runTestFile mirrors testsuite_test.go.
func runTestFile(ctx *runner.Ctx, file string) {
	k := cs{Fam: "testsuite", File: file}
	params := utils.NewParams()
	params.MPCLCErrorLoc = true
	cc := compiler.New(params)
	pkg, err := cc.ParseFile(file)
	if err != nil {
		ctx.Violate("testsuite.parse."+filepath.Base(file), fmt.Sprintf("%s: %v", file, err), k)
		return
	}
	main, ok := pkg.Functions["main"]
	if !ok {
		return
	}
	base := 10
	lsb := false
	n := 0
	for _, annotation := range main.Annotations {
		ann := strings.TrimSpace(annotation)
		if strings.HasPrefix(ann, "@Hex") {
			base = 16
			continue
		}
		if strings.HasPrefix(ann, "@LSB") {
			lsb = true
			continue
		}
		if !strings.HasPrefix(ann, "@Test ") {
			continue
		}
		parts := reWhitespace.Split(ann, -1)
		var inputValues [][]string
		var inputs, outputs []*big.Int
		var sep bool
		for i := 1; i < len(parts); i++ {
			part := parts[i]
			if part == "=" {
				sep = true
				continue
			}
			var iv []string
			for _, input := range strings.Split(part, ",") {
				var v *big.Int
				if input != "_" {
					v = new(big.Int)
					if base == 16 && lsb {
						input = reverseHex(input)
					}
					if _, ok := v.SetString(input, 0); !ok {
						ctx.Note(file + ": invalid @Test argument " + input)
						return
					}
				}
				if sep {
					outputs = append(outputs, v)
				} else {
					iv = append(iv, input)
					inputs = append(inputs, v)
				}
			}
			inputValues = append(inputValues, iv)
		}
		var inputSizes [][]int
		for _, iv := range inputValues {
			sizes, err := circuit.InputSizes(iv)
			if err != nil {
				ctx.Note(file + ": invalid inputs: " + err.Error())
				return
			}
			inputSizes = append(inputSizes, sizes)
		}
		ctx.Eval(1)
		circ, _, err := cc.CompileFile(file, inputSizes)
		if err != nil {
			if strings.Contains(err.Error(), "failed to parse circuit: EOF") && sha512Emptied() {
				ctx.Outcome("testsuite-skipped-environment(sha512 circuit files emptied by the task setup)")
				return
			}
			ctx.Violate("testsuite.compile."+filepath.Base(file), fmt.Sprintf("%s: %v", file, firstLine(err.Error())), k)
			return
		}
		results, err := circ.Compute(inputs)
		if err != nil {
			ctx.Violate("testsuite.compute."+filepath.Base(file), fmt.Sprintf("%s: %v", file, err), k)
			return
		}
		if len(results) != len(outputs) {
			ctx.Violate("testsuite.vector."+filepath.Base(file), fmt.Sprintf("%s @Test #%d: %d results, %d expected", file, n, len(results), len(outputs)), k)
			return
		}
		for idx := range results {
			out := circ.Outputs[idx]
			if outputs[idx] == nil || results[idx] == nil {
				continue
			}
			rr := mpc.Result(new(big.Int).Set(results[idx]), out)
			re := mpc.Result(new(big.Int).Set(outputs[idx]), out)
			if !reflect.DeepEqual(rr, re) {
				ctx.Violate("testsuite.vector."+filepath.Base(file), fmt.Sprintf("%s @Test #%d result %d: got %v, annotated %v", file, n, idx, rr, re), k)
				return
			}
		}
		n++
		ctx.Nontrivial(fmt.Sprintf("%s#%d", file, n))
		ctx.Outcome("testsuite-vector-holds")
	}
}

func work(ctx *runner.Ctx) {
	mpcl.Quiet()
	quick := ctx.Quick()
	idx := 0
	emit := func(g mpclgen.Gen) {
		idx++
		if !ctx.Mine(idx) || ctx.Expired() {
			return
		}
		runGenerated(ctx, g)
		if idx%3001 == 0 {
			ctx.Sample(map[string]string{"family": g.Fam, "program": g.P.Src()})
		}
	}
	mpclgen.All(quick, emit)
	// @Test vectors
	var files []string
	filepath.WalkDir(runner.RepoDir+"/testsuite", func(path string, d fs.DirEntry, err error) error {
		if err == nil && !d.IsDir() && compiler.IsFilename(path) {
			files = append(files, path)
		}
		return nil
	})
	for fi, f := range files {
		if !ctx.Mine(fi) || ctx.Expired() {
			continue
		}
		runTestFile(ctx, f)
	}
	if ctx.Shard == 0 {
		ctx.Note(fmt.Sprintf("generated %d programs (all shards); %d test programs with @Test vectors", idx, len(files)))
		for _, r := range Rules {
			ctx.Note("semantics rule: " + r)
		}
	}
}

func replay(ctx *runner.Ctx, raw json.RawMessage) {
	var k cs
	if err := json.Unmarshal(raw, &k); err != nil {
		panic(err)
	}
	mpcl.Quiet()
	if k.File != "" {
		runTestFile(ctx, k.File)
		return
	}
	cp := compileSrc(k.Src)
	if cp.err != "" {
		fmt.Println("replay: program no longer compiles:", cp.err)
		return
	}
	ctx.Eval(1)
	checkVector(ctx, k, cp.c)
}

func main() {
	runner.Main(runner.Spec{
		ID:    "C03",
		Level: "exploration",
		Rule: "programs are enumerated family by family from a typed AST (harness/refsem) that prints MPCL source and interprets it under the pinned semantics: (expr) every binary operator x operand shapes {var, const, nested once} x comparisons, boolean combinations, constant shifts, division/modulo with a non-zero divisor, for uintW/intW at 14 (thorough 21) widths 1..130; (cast) widening/narrowing of the same signedness and same-width reinterpretation between 10 widths; (if-else) every combination of 8 then-bodies x 9 else-bodies (assignment, shadowing :=, early return, nested if, nothing) x 3 conditions x 3 follow-up statements; (if-nest) 4 shapes of two or three sequential/nested ifs x every choice of their conditions among {bool argument c, bool argument d, bool local p, a==b, !c} (so one condition value guards several ifs) x branches assigning one or two variables; (loop) 0..4 iterations x 7 bodies incl. early return and loop-variable shifts; (array) constant / loop / masked dynamic indices, copies, array arguments; (struct) field updates, copies, struct arguments; (call) helpers with 1..3 results and aliased arguments; (globals) package-level var/const read and shadowed by a local or an argument around an if. Inputs: all when a program has <= 12 input bits, else the cross product of the boundary alphabet. Oracle: Circuit.Compute == reference interpreter per declared output. Plus every @Test vector of every program under testsuite/, run as testsuite_test.go runs them. " +
			"distinct_nontrivial = programs whose every vector agreed + @Test vectors that hold",
		Assumptions: []string{
			"the reference interpreter is the specification of the subset; each of its rules names the documentation or test program that pins it (listed in the evidence notes)",
			"constants are typed, non-negative and small (constant folding is C12's subject); mixed-sign widening casts, pointers, slices by reference, strings, make/copy and native circuits are outside the generated subset",
			"a shape the compiler rejects is dropped and listed, never alarmed; the five sha512 test programs are skipped because the task setup emptied pkg/crypto/sha512/sha512.{circ,mpclc}",
		},
		Work:           work,
		Replay:         replay,
		QuickBudget:    85 * time.Second,
		ThoroughBudget: 20 * time.Minute,
	})
}
