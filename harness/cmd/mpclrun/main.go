package main

import (
	"fmt"
	"math/big"
	"os"

	"verif/mpcl"
)

func main() {
	src, _ := os.ReadFile(os.Args[1])
	c, ssa, err, p := mpcl.Compile(string(src), mpcl.Opts{SSA: true}, nil)
	fmt.Println("err:", err, "panic:", p)
	if err != nil {
		return
	}
	fmt.Println(c)
	if len(os.Args) > 2 {
		fmt.Print(ssa)
	}
	var in []*big.Int
	for _, a := range os.Args[3:] {
		v, _ := new(big.Int).SetString(a, 0)
		in = append(in, v)
	}
	if len(in) > 0 {
		out, err := c.Compute(in)
		fmt.Println(out, err)
	}
}
