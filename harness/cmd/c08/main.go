// C08 — compilation is deterministic.
// Go's randomised map iteration order (and the directory listing order) is
// owned by the harness: every map range in the compiler packages is a choice
// point (source rewrite). Every compilation with <= d deviating range events
// must produce the byte-identical circuit and SSA listing; so must any history
// of earlier compilations in the process, and a separate process.
package main

import (
	"bytes"
	"crypto/sha256"
	"encoding/hex"
	"encoding/json"
	"fmt"
	"io"
	"net"
	"os"
	"os/exec"
	"path/filepath"
	"strings"
	"sync"
	"time"

	"github.com/markkurossi/mpc/compiler"
	"github.com/markkurossi/mpc/compiler/utils"
	"github.com/markkurossi/mpc/zverif/vmap"

	"verif/mpcl"
	"verif/runner"
)

var pkgSources = map[string]map[string]string{
	"pa": {"pa.mpcl": "package pa\n\nconst K = 3\n\nvar Table = [4]uint8{1, 2, 3, 4}\n\nfunc F(x uint8) uint8 {\n\treturn x + Table[1] + K\n}\n"},
	"pb": {"pb.mpcl": "package pb\n\nconst K = 5\n\nvar Table = [4]uint8{9, 8, 7, 6}\n\nfunc F(x uint8) uint8 {\n\treturn x ^ Table[2] ^ K\n}\n"},
	"pc": {"pc.mpcl": "package pc\n\nconst M = 7\n\nvar Mask = [2]uint8{0x0f, 0xf0}\n\nfunc G(x uint8) uint8 {\n\treturn (x & Mask[0]) + M\n}\n"},
	"pd": {"pd.mpcl": "package pd\n\nconst Q = 11\n\nvar Tab = [3]uint8{21, 22, 23}\n\nfunc H(x uint8) uint8 {\n\treturn x - Tab[0] - Q\n}\n"},
	// a package split over several files: the directory listing order decides the parse order
	"pe": {
		"e1.mpcl": "package pe\n\nconst A = 1\n\nvar T1 = [2]uint8{31, 32}\n\nfunc E1(x uint8) uint8 {\n\treturn x + T1[0] + A\n}\n",
		"e2.mpcl": "package pe\n\nconst B = 2\n\nvar T2 = [2]uint8{41, 42}\n\nfunc E2(x uint8) uint8 {\n\treturn E1(x) + T2[1] + B\n}\n",
		"e3.mpcl": "package pe\n\nvar T3 = [2]uint8{51, 52}\n\nfunc E3(x uint8) uint8 {\n\treturn E2(x) ^ T3[0]\n}\n",
	},
	// two DIFFERENT packages with the same last path component, imported by two different packages
	"alpha/util": {"util.mpcl": "package util\n\nvar T = [2]uint8{3, 4}\n\nfunc Mask(x uint8) uint8 {\n\treturn x & T[0]\n}\n"},
	"beta/util":  {"util.mpcl": "package util\n\nvar T = [2]uint8{5, 6}\n\nfunc Mask(x uint8) uint8 {\n\treturn (x >> 1) * T[1]\n}\n"},
	"left":       {"left.mpcl": "package left\n\nimport (\n\t\"alpha/util\"\n)\n\nfunc L(x uint8) uint8 {\n\treturn util.Mask(x) + 1\n}\n"},
	"right":      {"right.mpcl": "package right\n\nimport (\n\t\"beta/util\"\n)\n\nfunc R(x uint8) uint8 {\n\treturn util.Mask(x) + 2\n}\n"},
	// a package importing another harness package (nested init order)
	"pf": {"pf.mpcl": "package pf\n\nimport (\n\t\"pa\"\n\t\"pb\"\n)\n\nvar Z = [2]uint8{61, 62}\n\nfunc J(x uint8) uint8 {\n\treturn pa.F(x) + pb.F(x) + Z[1]\n}\n"},
}

func mainProg(imports []string, body string) string {
	s := "package main\n\nimport (\n"
	for _, i := range imports {
		s += "\t\"" + i + "\"\n"
	}
	s += ")\n\nfunc main(a, b uint8) uint8 {\n" + body + "}\n"
	return s
}

var programs = []struct {
	name string
	src  string
}{
	{"ab", mainProg([]string{"pa", "pb"}, "\treturn pa.F(a) + pb.F(b)\n")},
	{"ba", mainProg([]string{"pb", "pa"}, "\treturn pb.F(a) - pa.F(b)\n")},
	{"abc", mainProg([]string{"pa", "pb", "pc"}, "\treturn pa.F(a) + pb.F(b) + pc.G(a)\n")},
	{"abcd", mainProg([]string{"pa", "pb", "pc", "pd"}, "\tx := pa.F(a) + pb.F(b)\n\ty := pc.G(a) ^ pd.H(b)\n\tif x > y {\n\t\treturn x - y\n\t}\n\treturn y - x\n")},
	{"e", mainProg([]string{"pe"}, "\treturn pe.E3(a) + pe.E2(b)\n")},
	{"fc", mainProg([]string{"pf", "pc"}, "\treturn pf.J(a) + pc.G(b)\n")},
	{"consts", "package main\n\nconst (\n\tC1 = 17\n\tC2 = 99\n\tC3 = 250\n)\n\nfunc main(a, b uint8) (uint8, uint8) {\n\tx := a + C1\n\ty := b * C2\n\tif x > C3 {\n\t\treturn x ^ 85, y + 1\n\t}\n\treturn y - 3, x & 7\n}\n"},
	{"constsizes", "package main\n\nconst golden = 0x9e3779b9\n\nconst wide = 0x9e3779b97f4a7c15\n\nfunc main(a int64, b uint32) (int64, uint32, uint64, int128, int16) {\n\tk := int16(a) + 0x9e\n\treturn a + int64(golden), b ^ golden, (uint64(a) ^ wide) + uint64(golden), int128(a) + int128(wide) + int128(golden), k + int16(0x9e)\n}\n"},
	{"samename", mainProg([]string{"left", "right"}, "\treturn left.L(a) + right.R(b)\n")},
	{"widths", widthsProg()},
	{"crypto", mainProg([]string{"crypto/aes", "crypto/hmac"}, "\treturn a + b + aes.BlockSize\n")},
}

// widthsProg multiplies, divides and compares at many operand widths: the circuit builders choose algorithms
// and parameters by width (threshold tables).
func widthsProg() string {
	s := "package main\n\nfunc main(a, b uint64) uint64 {\n\tvar r uint64\n"
	for _, w := range []int{5, 9, 12, 13, 17, 21, 24, 29, 31, 33, 40, 48, 56, 63} {
		s += fmt.Sprintf("\tr = r + uint64(uint%d(a)*uint%d(b))\n", w, w)
	}
	for _, w := range []int{7, 16, 29} {
		s += fmt.Sprintf("\tr = r ^ uint64(uint%d(a)/(uint%d(b)|1))\n", w, w)
	}
	s += "\treturn r\n}\n"
	return s
}

type cs struct {
	Mode    string `json:"mode"`    // deviate | history | xproc
	Prog    int    `json:"prog"`    // program index
	Events  []int  `json:"events"`  // deviating range events
	Sels    []int  `json:"sels"`    // their order selectors
	History []int  `json:"history"` // programs compiled before, on the same instance
	Share   string `json:"share"`   // history: compiler | params
	Expect  string `json:"expect,omitempty"`
	// app: a history of two-party sessions of the repository's own application (apps/garbled, built unmodified):
	// one long-running evaluator process, one garbler process per session
	App      int      `json:"app,omitempty"`      // application program index
	EvalIn   string   `json:"eval_in,omitempty"`  // the evaluator's input (fixed for its lifetime)
	Sessions []string `json:"sessions,omitempty"` // the garbler's input per session
	// appcirc: one invocation `garbled -circ -ssa f1 f2 ...` of the application; Files index appCircPrograms
	Files []int `json:"files,omitempty"`
	// envhist: the package root the LAST compilation resolves ($MPCLDIR); an earlier compilation in the same
	// process resolved another root holding another version of the imported package
	Root string `json:"root,omitempty"`
}

const envProg = "package main\n\nimport (\n\t\"envq\"\n)\n\nfunc main(a, b uint8) uint8 {\n\treturn envq.F(a) ^ b\n}\n"

func envRoot(base, name string, k int) string {
	root := filepath.Join(base, name)
	os.MkdirAll(filepath.Join(root, "pkg", "envq"), 0755)
	src := fmt.Sprintf("package envq\n\nconst K = %d\n\nfunc F(x uint8) uint8 {\n\treturn x + K\n}\n", k)
	if err := os.WriteFile(filepath.Join(root, "pkg", "envq", "q.mpcl"), []byte(src), 0644); err != nil {
		panic(err)
	}
	return root
}

func compileUnderRoot(root string) output {
	old, had := os.LookupEnv("MPCLDIR")
	os.Setenv("MPCLDIR", root)
	defer func() {
		if had {
			os.Setenv("MPCLDIR", old)
		} else {
			os.Unsetenv("MPCLDIR")
		}
	}()
	var ssa bytes.Buffer
	params := utils.NewParams()
	params.SSAOut = nopCloser{&ssa}
	defer params.Close()
	return compileWith(compiler.New(params), params, &ssa, envProg)
}

// runEnvHist: the package root is part of the environment of a compilation. A process that compiled under root A
// and then compiles the same source under root B must produce what a fresh process under root B produces.
func runEnvHist(ctx *runner.Ctx, k cs) {
	if k.Expect != "" {
		// child: a fresh process, root B only
		o := compileUnderRoot(k.Root)
		ctx.Nontrivial("envhist/child")
		if h := o.hash(); h != k.Expect {
			ctx.Violate("history-dependence.package-root", fmt.Sprintf("a process that had compiled under another package root produced hash %s for the program importing envq under %s; a fresh process produces %s (err=%q)", k.Expect, k.Root, h, o.err), cs{Mode: "envhist"})
			return
		}
		ctx.Outcome("same-output-after-root-change")
		return
	}
	base, err := os.MkdirTemp(os.Getenv("VERIF_WORK"), "c08env")
	if err != nil {
		panic(err)
	}
	defer os.RemoveAll(base)
	rootA, rootB := envRoot(base, "a", 3), envRoot(base, "b", 5)
	oA := compileUnderRoot(rootA)
	oB := compileUnderRoot(rootB)
	ref := compileUnderRoot(rootB) // and once more: repeated compilation under B
	if oB.hash() != ref.hash() {
		ctx.Violate("history-dependence.package-root", fmt.Sprintf("two compilations under the same package root differ (errs %q / %q)", oB.err, ref.err), k)
		return
	}
	kk := k
	kk.Root = rootB
	kk.Expect = oB.hash()
	if crashed, tail := ctx.RunIsolated(kk, 120*time.Second); crashed {
		panic("envhist child died: " + tail)
	}
	// the two roots must matter, else the case shows nothing
	if oA.err == "" && oB.err == "" && oA.circ == oB.circ {
		ctx.Note("envhist: the two package roots gave the same circuit (the earlier root was used for both?)")
	}
}

type output struct {
	circ string
	ssa  string
	io   string
	err  string
}

func (o output) hash() string {
	h := sha256.Sum256([]byte(o.circ + "\x00" + o.ssa + "\x00" + o.io + "\x00" + o.err))
	return hex.EncodeToString(h[:8])
}

func diff(a, b output) string {
	switch {
	case a.err != b.err:
		return fmt.Sprintf("compile error differs: %q vs %q", a.err, b.err)
	case a.io != b.io:
		return fmt.Sprintf("input/output description differs: %q vs %q", a.io, b.io)
	case a.circ != b.circ:
		return fmt.Sprintf("circuit bytes differ (%d vs %d bytes)", len(a.circ), len(b.circ))
	case a.ssa != b.ssa:
		la, lb := strings.Split(a.ssa, "\n"), strings.Split(b.ssa, "\n")
		for i := 0; i < len(la) && i < len(lb); i++ {
			if la[i] != lb[i] {
				return fmt.Sprintf("SSA listing differs at line %d: %q vs %q", i+1, strings.TrimSpace(la[i]), strings.TrimSpace(lb[i]))
			}
		}
		return fmt.Sprintf("SSA listing differs in length (%d vs %d lines)", len(la), len(lb))
	}
	return ""
}

func kindOf(d string) string {
	switch {
	case strings.HasPrefix(d, "compile error"):
		return "error"
	case strings.HasPrefix(d, "input/output"):
		return "io"
	case strings.HasPrefix(d, "circuit"):
		return "circuit"
	}
	return "ssa"
}

// ---- app-level session histories ----

var appPrograms = []struct {
	name string
	src  string
	// f computes the expected printed result from the garbler's and the evaluator's input bytes
	f func(g, e []byte) uint64
}{
	{"sum-bytes", "package main\n\nfunc main(g []byte, e uint8) uint16 {\n\tvar sum uint16\n\tfor i := 0; i < len(g); i++ {\n\t\tsum = sum + uint16(g[i])\n\t}\n\treturn sum + uint16(e)\n}\n",
		func(g, e []byte) uint64 {
			var s uint64
			for _, b := range g {
				s += uint64(b)
			}
			return (s + uint64(e[0])) & 0xffff
		}},
	{"both-unsized", "package main\n\nfunc main(g []byte, e []byte) uint32 {\n\tvar s uint32\n\tfor i := 0; i < len(g); i++ {\n\t\ts = s*3 + uint32(g[i])\n\t}\n\tfor i := 0; i < len(e); i++ {\n\t\ts = s ^ (uint32(e[i]) << 8)\n\t}\n\treturn s\n}\n",
		func(g, e []byte) uint64 {
			var s uint32
			for _, b := range g {
				s = s*3 + uint32(b)
			}
			for _, b := range e {
				s ^= uint32(b) << 8
			}
			return uint64(s)
		}},
}

// appCircPrograms are compiled to files by the application; sizes differ so that buffered output of one file ends
// at different places relative to the 4 KiB / 16 KiB buffer boundaries.
var appCircPrograms = []struct{ name, src string }{
	{"add", "package main\n\nfunc main(a, b uint64) uint64 {\n\treturn a + b\n}\n"},
	{"mul", "package main\n\nfunc main(a, b uint32) uint32 {\n\treturn a * b\n}\n"},
	{"cmp", "package main\n\nfunc main(a, b uint8) bool {\n\treturn a > b\n}\n"},
	{"big", "package main\n\nfunc main(a, b uint64) uint64 {\n\treturn a*b + a/(b|1)\n}\n"},
}

// runAppCirc compiles the files in ONE invocation of the application and compares every output file with the one a
// single-file invocation writes for the same source.
func runAppCirc(k cs) (string, string) {
	bin := filepath.Join(os.Getenv("VERIF_WORK"), "garbled-app")
	if _, err := os.Stat(bin); err != nil {
		return "skip", "apps/garbled binary not built"
	}
	dir, err := os.MkdirTemp(os.Getenv("VERIF_WORK"), "c08circ")
	if err != nil {
		return "skip", err.Error()
	}
	defer os.RemoveAll(dir)
	invoke := func(sub string, files []int) (map[string][]byte, string) {
		d := filepath.Join(dir, sub)
		os.MkdirAll(d, 0755)
		args := []string{"-circ", "-ssa"}
		for _, f := range files {
			name := appCircPrograms[f].name + ".mpcl"
			os.WriteFile(filepath.Join(d, name), []byte(appCircPrograms[f].src), 0644)
			args = append(args, name)
		}
		cmd := exec.Command(bin, args...)
		cmd.Dir = d
		cmd.Env = append(os.Environ(), "MPCLDIR="+runner.RepoDir)
		out, err := cmd.CombinedOutput()
		if err != nil {
			return nil, fmt.Sprintf("garbled %v: %v: %s", args, err, out)
		}
		res := map[string][]byte{}
		for _, f := range files {
			for _, suffix := range []string{".mpclc", ".ssa"} {
				data, err := os.ReadFile(filepath.Join(d, appCircPrograms[f].name+suffix))
				if err != nil {
					return nil, err.Error()
				}
				res[appCircPrograms[f].name+suffix] = data
			}
		}
		return res, ""
	}
	multi, fail := invoke("multi", k.Files)
	if fail != "" {
		return "invocation-failed", fail
	}
	for i, f := range k.Files {
		single, fail := invoke(fmt.Sprintf("single%d", i), []int{f})
		if fail != "" {
			return "invocation-failed", fail
		}
		for name, want := range single {
			if got := multi[name]; !bytes.Equal(got, want) {
				var names []string
				for _, x := range k.Files {
					names = append(names, appCircPrograms[x].name+".mpcl")
				}
				return "output-depends-on-other-files", fmt.Sprintf("`garbled -circ -ssa %s` writes %d bytes of %s, `garbled -circ -ssa %s.mpcl` writes %d bytes", strings.Join(names, " "), len(got), name, appCircPrograms[f].name, len(want))
			}
		}
	}
	return "", ""
}

func hexBytes(s string) []byte {
	b, err := hex.DecodeString(strings.TrimPrefix(s, "0x"))
	if err != nil {
		panic(err)
	}
	return b
}

type lineBuf struct {
	mu sync.Mutex
	b  bytes.Buffer
}

func (l *lineBuf) Write(p []byte) (int, error) { l.mu.Lock(); defer l.mu.Unlock(); return l.b.Write(p) }
func (l *lineBuf) String() string              { l.mu.Lock(); defer l.mu.Unlock(); return l.b.String() }

func resultLines(out string) []string {
	var r []string
	lines := strings.Split(out, "\n")
	// the text after the last newline is a line still being written: ignore it
	for _, l := range lines[:len(lines)-1] {
		if strings.HasPrefix(l, "Result[") {
			r = append(r, strings.TrimSpace(l))
		}
	}
	return r
}

// runApp runs one history. It returns ("", "") if the property held, (kind, what) for a violation, and
// ("skip", why) when the environment could not run it (no loopback, port clash that persists, a 120 s guard).
func runApp(k cs) (string, string) {
	bin := filepath.Join(os.Getenv("VERIF_WORK"), "garbled-app")
	if _, err := os.Stat(bin); err != nil {
		return "skip", "apps/garbled binary not built"
	}
	dir, err := os.MkdirTemp(os.Getenv("VERIF_WORK"), "c08app")
	if err != nil {
		return "skip", err.Error()
	}
	defer os.RemoveAll(dir)
	file := filepath.Join(dir, "prog.mpcl")
	os.WriteFile(file, []byte(appPrograms[k.App].src), 0644)
	var ev *exec.Cmd
	var evOut, evErr *lineBuf
	var addr string
	for try := 0; ; try++ {
		ln, err := net.Listen("tcp", "127.0.0.1:0")
		if err != nil {
			return "skip", "no loopback TCP: " + err.Error()
		}
		addr = ln.Addr().String()
		ln.Close()
		evOut, evErr = &lineBuf{}, &lineBuf{}
		ev = exec.Command(bin, "-e", "-i", k.EvalIn, "-port", addr, file)
		ev.Dir = dir
		ev.Stdout, ev.Stderr = evOut, evErr
		if err := ev.Start(); err != nil {
			return "skip", err.Error()
		}
		up := false
		for i := 0; i < 1200 && !up; i++ {
			time.Sleep(25 * time.Millisecond)
			up = strings.Contains(evOut.String(), "Listening for connections")
			if strings.Contains(evErr.String(), "address already in use") {
				break
			}
		}
		if up {
			break
		}
		ev.Process.Kill()
		ev.Wait()
		if try >= 4 {
			return "skip", "evaluator did not start listening: " + evErr.String()
		}
	}
	evDone := make(chan error, 1)
	go func() { evDone <- ev.Wait() }()
	defer func() {
		ev.Process.Kill()
		<-evDone
	}()
	evIn := []byte{0}
	if strings.HasPrefix(k.EvalIn, "0x") {
		evIn = hexBytes(k.EvalIn)
	} else {
		var v int
		fmt.Sscan(k.EvalIn, &v)
		evIn = []byte{byte(v)}
	}
	for i, gin := range k.Sessions {
		want := fmt.Sprintf("Result[0]: %d", appPrograms[k.App].f(hexBytes(gin), evIn))
		g := exec.Command(bin, "-i", gin, "-port", addr, file)
		g.Dir = dir
		var gout, gerr bytes.Buffer
		g.Stdout, g.Stderr = &gout, &gerr
		if err := g.Start(); err != nil {
			return "skip", err.Error()
		}
		gd := make(chan error, 1)
		go func() { gd <- g.Wait() }()
		var gres error
		select {
		case gres = <-gd:
		case <-time.After(120 * time.Second):
			g.Process.Kill()
			<-gd
			return "skip", fmt.Sprintf("session %d did not finish within 120 s", i)
		}
		// the evaluator prints its result just after the garbler has got its own
		var evRes []string
		for w := 0; w < 400; w++ {
			evRes = resultLines(evOut.String())
			if len(evRes) > i {
				break
			}
			select {
			case <-evDone:
				evDone <- nil
				w = 400
			default:
				time.Sleep(25 * time.Millisecond)
			}
		}
		if gres != nil || len(evRes) <= i {
			return "session-failed", fmt.Sprintf("session %d of history %v (evaluator input %s): garbler: %v %q; evaluator: %q", i, k.Sessions, k.EvalIn, gres, strings.TrimSpace(gerr.String()), strings.TrimSpace(evErr.String()))
		}
		gr := resultLines(gout.String())
		if len(gr) != 1 || gr[0] != want || evRes[i] != want {
			return "result-differs", fmt.Sprintf("session %d of history %v (evaluator input %s): garbler printed %v, evaluator printed %q, the program computes %q", i, k.Sessions, k.EvalIn, gr, evRes[i], want)
		}
	}
	return "", ""
}

type nopCloser struct{ io.Writer }

func (nopCloser) Close() error { return nil }

var pkgDir string

func ensurePkgs() {
	if pkgDir != "" {
		return
	}
	base := os.Getenv("VERIF_WORK")
	if base == "" {
		base = os.TempDir()
	}
	dir, err := os.MkdirTemp(base, "c08pkgs")
	if err != nil {
		panic(err)
	}
	for p, files := range pkgSources {
		os.MkdirAll(filepath.Join(dir, p), 0755)
		for f, src := range files {
			if err := os.WriteFile(filepath.Join(dir, p, f), []byte(src), 0644); err != nil {
				panic(err)
			}
		}
	}
	pkgDir = dir
}

func newParams(ssa *bytes.Buffer) *utils.Params {
	params := utils.NewParams()
	params.PkgPath = []string{pkgDir}
	params.SSAOut = nopCloser{ssa}
	return params
}

func compileWith(c *compiler.Compiler, params *utils.Params, ssa *bytes.Buffer, src string) (o output) {
	ssa.Reset()
	defer func() {
		if r := recover(); r != nil {
			o.err = fmt.Sprintf("panic: %v", r)
		}
	}()
	circ, _, err := c.Compile(src, nil)
	if err != nil {
		o.err = err.Error()
		return
	}
	var buf bytes.Buffer
	circ.Marshal(&buf)
	o.circ = buf.String()
	o.ssa = ssa.String()
	o.io = circ.Inputs.String() + " -> " + circ.Outputs.String()
	return
}

// fresh compiles on fully fresh state with the given chooser.
func fresh(prog int, chooser func(site string, ev, n int) int) (output, int, map[string]int) {
	ensurePkgs()
	vmap.Reset()
	vmap.Chooser = chooser
	var ssa bytes.Buffer
	params := newParams(&ssa)
	o := compileWith(compiler.New(params), params, &ssa, programs[prog].src)
	vmap.Chooser = nil
	return o, vmap.Events, vmap.Sites
}

var baselines = map[int]output{}

func baseline(prog int) output {
	if o, ok := baselines[prog]; ok {
		return o
	}
	o, _, _ := fresh(prog, nil)
	baselines[prog] = o
	return o
}

func runCase(ctx *runner.Ctx, k cs) {
	ctx.Eval(1)
	if k.Mode == "race" {
		runRace(ctx, k)
		return
	}
	if k.Mode == "app" || k.Mode == "appcirc" {
		runAppCase(ctx, k)
		return
	}
	if k.Mode == "envhist" {
		runEnvHist(ctx, k)
		return
	}
	name := programs[k.Prog].name
	base := baseline(k.Prog)
	if base.err != "" {
		ctx.Note("program " + name + " does not compile: " + base.err)
		ctx.Outcome("baseline-compile-error/" + name)
		return
	}
	switch k.Mode {
	case "deviate":
		var sites []string
		o, _, _ := fresh(k.Prog, func(site string, ev, n int) int {
			for i, e := range k.Events {
				if e == ev {
					sites = append(sites, site)
					if k.Sels[i] < vmap.Alternatives(n) {
						return k.Sels[i]
					}
				}
			}
			return 0
		})
		ctx.Nontrivial(fmt.Sprintf("dev/%s/%v/%v", name, k.Events, k.Sels))
		if d := diff(base, o); d != "" {
			ctx.Violate(fmt.Sprintf("order-dependence.%s.%s", strings.Join(sites, "+"), kindOf(d)),
				fmt.Sprintf("program %q: iterating the map(s) at %v in another order (events %v, orders %v) changes the result: %s", name, sites, k.Events, k.Sels, d), k)
			return
		}
		ctx.Outcome("same-output-under-deviation")
	case "history":
		ensurePkgs()
		vmap.Reset()
		vmap.Chooser = nil
		var ssa bytes.Buffer
		params := newParams(&ssa)
		c := compiler.New(params)
		for _, h := range k.History {
			if k.Share == "params" {
				c = compiler.New(params)
			}
			compileWith(c, params, &ssa, programs[h].src)
		}
		if k.Share == "params" {
			c = compiler.New(params)
		}
		o := compileWith(c, params, &ssa, programs[k.Prog].src)
		var hn []string
		for _, h := range k.History {
			hn = append(hn, programs[h].name)
		}
		ctx.Nontrivial(fmt.Sprintf("hist/%s/%v/%s", name, hn, k.Share))
		if d := diff(base, o); d != "" {
			ctx.Violate(fmt.Sprintf("history-dependence.shared-%s.%s", k.Share, kindOf(d)),
				fmt.Sprintf("program %q compiled after %v on the same %s differs from its fresh compilation: %s", name, hn, k.Share, d), k)
			return
		}
		ctx.Outcome("same-output-after-history/" + k.Share)
	case "xproc":
		if k.Expect == "" {
			// parent side: ask a fresh process
			kk := k
			kk.Expect = base.hash()
			if crashed, tail := ctx.RunIsolated(kk, 120*time.Second); crashed {
				panic("xproc child died: " + tail)
			}
			return
		}
		ctx.Nontrivial("xproc/" + name)
		if h := base.hash(); h != k.Expect {
			ctx.Violate("process-dependence", fmt.Sprintf("program %q: a separate process produced a different circuit/SSA (hash %s vs %s)", name, h, k.Expect), k)
			return
		}
		ctx.Outcome("same-output-in-another-process")
	}
}

// runRace compiles programs concurrently in one process, free-running on unmodified code under the race detector
// (harness/racepass8): the compiler has no synchronisation operations, so state shared between compilations that
// overlap in time shows as a data race or as output that differs from the sequential compilation.
func runRace(ctx *runner.Ctx, k cs) {
	args := []string{"test", "-race", "-vet=off", "-count=1"}
	if ctx.Quick() {
		args = append(args, "-short")
	}
	args = append(args, runner.RaceDeadlineArg(ctx))
	if runner.RepoDir != "/repo" {
		args = append(args, "-modfile="+os.Getenv("VERIF_WORK")+"/go.mod")
	}
	cmd := exec.Command("go", append(args, "./racepass8/")...)
	cmd.Dir = "/verif/harness"
	cmd.Env = append(os.Environ(), "GOFLAGS=-mod=mod", "GOPROXY=off")
	out, err := cmd.CombinedOutput()
	ctx.Eval(1)
	o := string(out)
	tail := o
	if len(tail) > 1500 {
		tail = tail[len(tail)-1500:]
	}
	switch {
	case strings.Contains(o, "WARNING: DATA RACE"):
		i := strings.Index(o, "WARNING: DATA RACE")
		end := i + 1500
		if end > len(o) {
			end = len(o)
		}
		ctx.Violate("concurrent-compilation.data-race", "two compilations that overlap in time share unsynchronised state: "+o[i:end], k)
	case err != nil && runner.RaceDeadlineHit(ctx, "concurrent compilations", o):
	case err != nil && strings.Contains(o, "--- FAIL"):
		ctx.Violate("concurrent-compilation.differs", "compiling concurrently gives another result than compiling sequentially: "+tail, k)
	case err != nil:
		panic("race pass could not run: " + tail)
	default:
		ctx.Outcome("concurrent-compilations-race-free")
		ctx.Nontrivial("race-pass")
	}
}

func runAppCase(ctx *runner.Ctx, k cs) {
	if k.Mode == "appcirc" {
		kind, what := runAppCirc(k)
		switch kind {
		case "":
			ctx.Nontrivial(fmt.Sprintf("appcirc/%v", k.Files))
			ctx.Outcome(fmt.Sprintf("app-compile-ok/files=%d", len(k.Files)))
		case "skip":
			ctx.Outcome("app-compile-skipped")
			ctx.Incomplete("an app-level compilation could not be run in this environment: " + what)
		default:
			ctx.Violate("app-compile."+kind, "apps/garbled: "+what, k)
		}
		return
	}
	kind, what := runApp(k)
	switch kind {
	case "":
		ctx.Nontrivial(fmt.Sprintf("app/%s/%s/%v", appPrograms[k.App].name, k.EvalIn, k.Sessions))
		ctx.Outcome(fmt.Sprintf("app-history-ok/sessions=%d", len(k.Sessions)))
	case "skip":
		ctx.Outcome("app-history-skipped")
		ctx.Note("app-level history skipped: " + what)
		ctx.Incomplete("an app-level session history could not be run in this environment")
	default:
		ctx.Violate("app-history."+kind, "apps/garbled, program "+appPrograms[k.App].name+": the two parties of a later session do not hold the same circuit / result: "+what, k)
	}
	return
}

func work(ctx *runner.Ctx) {
	mpcl.Quiet()
	ensurePkgs()
	defer os.RemoveAll(pkgDir)
	d := 1
	if !ctx.Quick() {
		d = 2
	}
	idx := 0
	emit := func(k cs) {
		idx++
		if !ctx.Mine(idx) || ctx.Expired() {
			return
		}
		runCase(ctx, k)
		if idx%500 == 0 {
			ctx.Sample(k)
		}
	}
	nprog := len(programs)
	for p := 0; p < nprog; p++ {
		if ctx.Quick() && programs[p].name == "crypto" {
			continue
		}
		_, events, sites := fresh(p, func(site string, ev, n int) int { return 0 })
		// record the alternatives per event
		var alts []int
		fresh(p, func(site string, ev, n int) int {
			for len(alts) <= ev {
				alts = append(alts, 1)
			}
			alts[ev] = vmap.Alternatives(n)
			return 0
		})
		if ctx.Shard == 0 {
			ctx.Note(fmt.Sprintf("program %s: %d range events over maps/directories with >= 2 keys; sites %v", programs[p].name, events, sites))
		}
		for e := 0; e < len(alts); e++ {
			for s := 1; s < alts[e]; s++ {
				emit(cs{Mode: "deviate", Prog: p, Events: []int{e}, Sels: []int{s}})
			}
		}
		// pairs of deviating events: thorough every pair of alternatives (crypto: the first three alternatives of
		// each event); quick the first two alternatives of each event
		capSel := 1 << 30
		if ctx.Quick() {
			capSel = 2
		} else if programs[p].name == "crypto" {
			capSel = 3
		}
		if !(ctx.Quick() && programs[p].name == "crypto") {
			for e1 := 0; e1 < len(alts); e1++ {
				for e2 := e1 + 1; e2 < len(alts); e2++ {
					for s1 := 1; s1 < alts[e1] && s1 <= capSel; s1++ {
						for s2 := 1; s2 < alts[e2] && s2 <= capSel; s2++ {
							emit(cs{Mode: "deviate", Prog: p, Events: []int{e1, e2}, Sels: []int{s1, s2}})
						}
					}
				}
			}
		}
		// triples (thorough): the first two alternatives of each event
		if d >= 2 && programs[p].name != "crypto" {
			for e1 := 0; e1 < len(alts); e1++ {
				for e2 := e1 + 1; e2 < len(alts); e2++ {
					for e3 := e2 + 1; e3 < len(alts); e3++ {
						for s1 := 1; s1 < alts[e1] && s1 <= 2; s1++ {
							for s2 := 1; s2 < alts[e2] && s2 <= 2; s2++ {
								for s3 := 1; s3 < alts[e3] && s3 <= 2; s3++ {
									emit(cs{Mode: "deviate", Prog: p, Events: []int{e1, e2, e3}, Sels: []int{s1, s2, s3}})
								}
							}
						}
					}
				}
			}
		}
		emit(cs{Mode: "xproc", Prog: p})
	}
	// histories on one Compiler instance / on shared Params
	hp := []int{0, 1, 2, 3, 4, 5, 6, 7, 8, 9}
	for _, share := range []string{"compiler", "params"} {
		for _, last := range hp {
			for _, h1 := range hp {
				emit(cs{Mode: "history", Prog: last, History: []int{h1}, Share: share})
				if !ctx.Quick() {
					for _, h2 := range hp {
						emit(cs{Mode: "history", Prog: last, History: []int{h2, h1}, Share: share})
					}
				}
			}
		}
	}
	// concurrent compilations in one process under the race detector
	emit(cs{Mode: "race"})
	emit(cs{Mode: "envhist"})
	// the application compiling several files in one invocation: every ordered selection of 1..3 of 4 programs
	np := len(appCircPrograms)
	for a := 0; a < np; a++ {
		emit(cs{Mode: "appcirc", Files: []int{a}})
		for b := 0; b < np; b++ {
			if b == a {
				continue
			}
			emit(cs{Mode: "appcirc", Files: []int{a, b}})
			for c := 0; c < np; c++ {
				if c == a || c == b || ctx.Quick() && (a+b+c)%2 == 0 {
					continue
				}
				emit(cs{Mode: "appcirc", Files: []int{a, b, c}})
			}
		}
	}
	// app-level histories: every sequence of <= 3 (quick 2, plus the strictly shrinking and growing triples) sessions
	// over garbler inputs of 1..3 bytes (thorough 1..4) against one long-running evaluator
	gins := []string{"0x07", "0x0102", "0x0a0b0c"}
	if !ctx.Quick() {
		gins = append(gins, "0xfffefdfc")
	}
	for ai := range appPrograms {
		evIns := []string{"5"}
		if appPrograms[ai].name == "both-unsized" {
			evIns = []string{"0x11", "0x2233"}
		}
		for _, ein := range evIns {
			for _, a := range gins {
				emit(cs{Mode: "app", App: ai, EvalIn: ein, Sessions: []string{a}})
				for _, b := range gins {
					emit(cs{Mode: "app", App: ai, EvalIn: ein, Sessions: []string{a, b}})
					for _, c := range gins {
						if ctx.Quick() && !((len(a) > len(b) && len(b) > len(c)) || (len(a) < len(b) && len(b) < len(c)) || (a == c && a != b)) {
							continue
						}
						emit(cs{Mode: "app", App: ai, EvalIn: ein, Sessions: []string{a, b, c}})
					}
				}
			}
		}
	}
	ctx.Note(fmt.Sprintf("enumerated %d cases (all shards); deviating events per compilation <= %d", idx, d+1))
}

func replay(ctx *runner.Ctx, raw json.RawMessage) {
	var k cs
	if err := json.Unmarshal(raw, &k); err != nil {
		panic(err)
	}
	mpcl.Quiet()
	runCase(ctx, k)
}

func main() {
	runner.Main(runner.Spec{
		ID:    "C08",
		Level: "model_checking",
		Rule: "the compiler packages are rewritten so that every `range` over a map (14 sites) and the package directory listing return their keys in an order chosen by the harness (canonical = sorted; alternatives = all n! orders for n <= 4 keys, else reversal, rotations, adjacent transpositions). For 10 (thorough 11) programs importing 1..4 packages with package-level vars/consts (incl. a multi-file package, a nested import, two different packages with the same base name, one constant value used at several sizes and signednesses, multiplications/divisions at many widths, and two repository packages) EVERY compilation with one deviating range event, every compilation with two deviating events (quick: restricted to the first two alternative orders of each event; thorough: all alternatives; the 34-event crypto program: first three) and, thorough only, every compilation with three deviating events each taking one of its first two alternative orders, is executed and compared byte for byte (circuit, SSA listing, I/O description, error) with the canonical compilation; every history of <= 1 (thorough 2) earlier compilations on the same Compiler instance and on shared Params; each program once more in a separate process. A free-running pass compiles four programs concurrently in eight goroutines on unmodified code under the race detector (no report; every result equal to the sequential one). Application level: apps/garbled built unmodified from the tree; every history of <= 2 sessions plus the shrinking/growing/returning triples (thorough: every history of <= 3 over 4 sizes) of garbler processes against one long-running evaluator process (both must print the result the program computes); every ordered selection of 1..3 of 4 programs compiled by one `garbled -circ -ssa` invocation must give the files a single-file invocation gives. " +
			"For this level: states = distinct (program, deviation set) explored, transitions = range events executed, traces_validated = compilations run on the real compiler",
		Assumptions: []string{
			"map iteration order, directory listing order and earlier in-process compilations are the only nondeterminism sources considered (no goroutines, clocks or addresses influence the compiler's output: checked by the separate-process comparison)",
			"map range rewrite: snapshot of the keys, entries deleted during the loop are skipped, entries added during the loop are not visited (both allowed by the Go specification)",
		},
		Work:           work,
		Replay:         replay,
		QuickBudget:    80 * time.Second,
		ThoroughBudget: 20 * time.Minute,
		Extra: func(c map[string]int64, cov map[string]any) {
			cov["states"] = cov["distinct_nontrivial"]
			cov["transitions"] = cov["evaluations"]
			cov["traces_validated_against_impl"] = cov["evaluations"]
		},
	})
}
