package main

import (
	"fmt"
	"math/big"
	"os"
	"strconv"

	"verif/bitsim"
	"verif/valpha"
)

// probe prints the error distribution of one builder at one width (exploration aid, not a check).
// usage: driver probe <op> <target> <width> [dense]
func probe() {
	opn, target := os.Args[2], os.Args[3]
	w, _ := strconv.Atoi(os.Args[4])
	k := cs{Op: opn, W: []int{w, w}, WZ: w, Target: target}
	op := opByName(opn)
	c, err := buildCircuit(k, op)
	if err != nil {
		fmt.Println("build:", err)
		return
	}
	var xs []*big.Int
	if len(os.Args) > 5 && w <= 12 {
		for x := 0; x < 1<<w; x++ {
			xs = append(xs, big.NewInt(int64(x)))
		}
	} else {
		xs = valpha.Walk(w)
		// add small values and values near powers of two
		for i := 0; i < 300 && i < 1<<uint(min(w, 20)); i++ {
			xs = append(xs, big.NewInt(int64(i)))
		}
		for b := 2; b < w; b++ {
			for d := -3; d <= 3; d++ {
				v := new(big.Int).Lsh(big.NewInt(1), uint(b))
				v.Add(v, big.NewInt(int64(d)))
				xs = append(xs, v)
			}
		}
	}
	total, bad := 0, 0
	hist := map[string]int{}
	mod := new(big.Int).Lsh(big.NewInt(1), uint(w))
	lanes := make([]uint64, 2*w)
	var batch [][2]*big.Int
	flush := func() {
		for i := range lanes {
			lanes[i] = 0
		}
		for l, v := range batch {
			for b := 0; b < w; b++ {
				if v[0].Bit(b) == 1 {
					lanes[b] |= 1 << uint(l)
				}
				if v[1].Bit(b) == 1 {
					lanes[w+b] |= 1 << uint(l)
				}
			}
		}
		wires := bitsim.Eval64(c, lanes)
		for l, v := range batch {
			want := op.ref(k, []*big.Int{v[0], v[1]})
			if want == nil {
				continue
			}
			want.Mod(want, mod)
			got := new(big.Int)
			for b := 0; b < w; b++ {
				if wires[c.NumWires-w+b]>>uint(l)&1 == 1 {
					got.SetBit(got, b, 1)
				}
			}
			total++
			if got.Cmp(want) != 0 {
				bad++
				d := new(big.Int).Sub(got, want)
				key := d.String()
				if d.BitLen() > 4 {
					key = "large"
				}
				hist[key]++
				if bad <= 5 {
					fmt.Printf("  %s(%s,%s) = %s want %s\n", opn, v[0], v[1], got, want)
				}
			}
		}
		batch = batch[:0]
	}
	for _, x := range xs {
		for _, y := range xs {
			if x.BitLen() > w || y.BitLen() > w {
				continue
			}
			batch = append(batch, [2]*big.Int{x, y})
			if len(batch) == 64 {
				flush()
			}
		}
	}
	flush()
	fmt.Printf("%s %s w=%d: %d tuples, %d wrong, error histogram (got-want): %v\n", opn, target, w, total, bad, hist)
}

func min(a, b int) int {
	if a < b {
		return a
	}
	return b
}
