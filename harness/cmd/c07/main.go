// C07 — arithmetic and logic circuit builders are exact for every width.
package main

import (
	"encoding/json"
	"fmt"
	"math/big"
	"os"
	"sort"
	"time"

	"github.com/markkurossi/mpc/circuit"
	"github.com/markkurossi/mpc/compiler/circuits"
	"github.com/markkurossi/mpc/compiler/utils"
	"github.com/markkurossi/mpc/types"

	"verif/bitsim"
	"verif/runner"
	"verif/valpha"
)

type cs struct {
	Op     string   `json:"op"`
	W      []int    `json:"w"`  // operand widths
	WZ     int      `json:"wz"` // result width
	Target string   `json:"target"`
	Prune  bool     `json:"prune"`
	Thr    int      `json:"thr"`   // multiplier threshold / algorithm selector
	Extra  int      `json:"extra"` // index: element size; bittest: bit index
	Inputs []string `json:"inputs,omitempty"`
}

type opDef struct {
	name   string
	nin    int
	signed bool
	// widths says whether the operand width tuple is in the op's domain
	ok func(w []int, extra int) bool
	wz func(w []int, extra int) []int
	// build adds the gates
	build func(cc *circuits.Compiler, k cs, in [][]*circuits.Wire, z []*circuits.Wire) error
	// ref returns the exact result (any integer; reduced mod 2^wz by the caller) or nil when outside the domain
	ref func(k cs, v []*big.Int) *big.Int
}

func uniq(a []int) []int {
	sort.Ints(a)
	var r []int
	for i, v := range a {
		if v >= 1 && (i == 0 || v != a[i-1]) {
			r = append(r, v)
		}
	}
	return r
}

func maxw(w []int) int {
	m := 0
	for _, v := range w {
		if v > m {
			m = v
		}
	}
	return m
}

func same(w []int, _ int) bool { return w[0] == w[1] }

// divWz: result widths of the unsigned dividers: the dividend's, and for operands of different widths also the
// divisor's (the compiler divides a 32-bit literal by a narrower or wider variable and vice versa).
func divWz(w []int, _ int) []int {
	if w[0] == w[1] {
		return []int{w[0], w[0] + 2}
	}
	return uniq([]int{w[0], w[1], maxw(w) + 2})
}
func anyW(w []int, _ int) bool { return true }
func one(w []int, _ int) []int { return []int{1} }

func bin(f func(cc *circuits.Compiler, x, y, z []*circuits.Wire) error) func(cc *circuits.Compiler, k cs, in [][]*circuits.Wire, z []*circuits.Wire) error {
	return func(cc *circuits.Compiler, k cs, in [][]*circuits.Wire, z []*circuits.Wire) error {
		return f(cc, in[0], in[1], z)
	}
}

func b2i(b bool) *big.Int {
	if b {
		return big.NewInt(1)
	}
	return big.NewInt(0)
}

func sgn(v *big.Int, w int) *big.Int { return valpha.ToSigned(v, w) }

var ops = []opDef{
	{name: "adder", nin: 2, ok: anyW,
		wz:    func(w []int, _ int) []int { m := maxw(w); return uniq([]int{m, m + 1, 2 * m, 2*m + 3, 1}) },
		build: bin(circuits.NewAdder),
		ref:   func(k cs, v []*big.Int) *big.Int { return new(big.Int).Add(v[0], v[1]) }},
	{name: "subtractor", nin: 2, ok: anyW,
		wz:    func(w []int, _ int) []int { m := maxw(w); return uniq([]int{m, m + 1, 2 * m, 2*m + 3, 1}) },
		build: bin(circuits.NewSubtractor),
		ref:   func(k cs, v []*big.Int) *big.Int { return new(big.Int).Sub(v[0], v[1]) }},
	{name: "multiplier", nin: 2, ok: anyW,
		wz: func(w []int, _ int) []int { m := maxw(w); return uniq([]int{m, m + 1, 2 * m, 2*m + 3, 1}) },
		build: func(cc *circuits.Compiler, k cs, in [][]*circuits.Wire, z []*circuits.Wire) error {
			switch k.Thr {
			case -1:
				return circuits.NewArrayMultiplier(cc, in[0], in[1], z)
			case -2:
				return circuits.NewWallaceMultiplier(cc, in[0], in[1], z)
			case -3:
				return circuits.NewKaratsubaMultiplier(cc, 4, in[0], in[1], z)
			}
			return circuits.NewMultiplier(cc, k.Thr, in[0], in[1], z)
		},
		ref: func(k cs, v []*big.Int) *big.Int { return new(big.Int).Mul(v[0], v[1]) }},
	{name: "udiv", nin: 2, ok: anyW, wz: divWz,
		build: func(cc *circuits.Compiler, k cs, in [][]*circuits.Wire, z []*circuits.Wire) error {
			return circuits.NewUDivider(cc, in[0], in[1], z, nil)
		},
		ref: func(k cs, v []*big.Int) *big.Int {
			if v[1].Sign() == 0 {
				return nil
			}
			return new(big.Int).Quo(v[0], v[1])
		}},
	{name: "umod", nin: 2, ok: anyW, wz: divWz,
		build: func(cc *circuits.Compiler, k cs, in [][]*circuits.Wire, z []*circuits.Wire) error {
			return circuits.NewUDivider(cc, in[0], in[1], nil, z)
		},
		ref: func(k cs, v []*big.Int) *big.Int {
			if v[1].Sign() == 0 {
				return nil
			}
			return new(big.Int).Rem(v[0], v[1])
		}},
	{name: "idiv", nin: 2, signed: true, ok: same, wz: func(w []int, _ int) []int { return []int{w[0], w[0] + 2} },
		build: func(cc *circuits.Compiler, k cs, in [][]*circuits.Wire, z []*circuits.Wire) error {
			return circuits.NewIDivider(cc, in[0], in[1], z, nil)
		},
		ref: func(k cs, v []*big.Int) *big.Int {
			a, b := sgn(v[0], k.W[0]), sgn(v[1], k.W[1])
			if b.Sign() == 0 {
				return nil
			}
			return new(big.Int).Quo(a, b) // truncated
		}},
	{name: "imod", nin: 2, signed: true, ok: same, wz: func(w []int, _ int) []int { return []int{w[0], w[0] + 2} },
		build: func(cc *circuits.Compiler, k cs, in [][]*circuits.Wire, z []*circuits.Wire) error {
			return circuits.NewIDivider(cc, in[0], in[1], nil, z)
		},
		ref: func(k cs, v []*big.Int) *big.Int {
			a, b := sgn(v[0], k.W[0]), sgn(v[1], k.W[1])
			if b.Sign() == 0 {
				return nil
			}
			// |a| mod |b| (pinned by testsuite/lang/modi.mpcl and the NewIDivider doc comment)
			return new(big.Int).Rem(new(big.Int).Abs(a), new(big.Int).Abs(b))
		}},
	{name: "ult", nin: 2, ok: anyW, wz: one, build: bin(circuits.NewUintLtComparator),
		ref: func(k cs, v []*big.Int) *big.Int { return b2i(v[0].Cmp(v[1]) < 0) }},
	{name: "ule", nin: 2, ok: anyW, wz: one, build: bin(circuits.NewUintLeComparator),
		ref: func(k cs, v []*big.Int) *big.Int { return b2i(v[0].Cmp(v[1]) <= 0) }},
	{name: "ugt", nin: 2, ok: anyW, wz: one, build: bin(circuits.NewUintGtComparator),
		ref: func(k cs, v []*big.Int) *big.Int { return b2i(v[0].Cmp(v[1]) > 0) }},
	{name: "uge", nin: 2, ok: anyW, wz: one, build: bin(circuits.NewUintGeComparator),
		ref: func(k cs, v []*big.Int) *big.Int { return b2i(v[0].Cmp(v[1]) >= 0) }},
	{name: "ilt", nin: 2, signed: true, ok: same, wz: one, build: bin(circuits.NewIntLtComparator),
		ref: func(k cs, v []*big.Int) *big.Int { return b2i(sgn(v[0], k.W[0]).Cmp(sgn(v[1], k.W[1])) < 0) }},
	{name: "ile", nin: 2, signed: true, ok: same, wz: one, build: bin(circuits.NewIntLeComparator),
		ref: func(k cs, v []*big.Int) *big.Int { return b2i(sgn(v[0], k.W[0]).Cmp(sgn(v[1], k.W[1])) <= 0) }},
	{name: "igt", nin: 2, signed: true, ok: same, wz: one, build: bin(circuits.NewIntGtComparator),
		ref: func(k cs, v []*big.Int) *big.Int { return b2i(sgn(v[0], k.W[0]).Cmp(sgn(v[1], k.W[1])) > 0) }},
	{name: "ige", nin: 2, signed: true, ok: same, wz: one, build: bin(circuits.NewIntGeComparator),
		ref: func(k cs, v []*big.Int) *big.Int { return b2i(sgn(v[0], k.W[0]).Cmp(sgn(v[1], k.W[1])) >= 0) }},
	{name: "eq", nin: 2, ok: anyW, wz: one, build: bin(circuits.NewEqComparator),
		ref: func(k cs, v []*big.Int) *big.Int { return b2i(v[0].Cmp(v[1]) == 0) }},
	{name: "neq", nin: 2, ok: anyW, wz: one, build: bin(circuits.NewNeqComparator),
		ref: func(k cs, v []*big.Int) *big.Int { return b2i(v[0].Cmp(v[1]) != 0) }},
	{name: "band", nin: 2, ok: anyW, wz: func(w []int, _ int) []int { return uniq([]int{maxw(w), maxw(w) + 2, 1}) }, build: bin(circuits.NewBinaryAND),
		ref: func(k cs, v []*big.Int) *big.Int { return new(big.Int).And(v[0], v[1]) }},
	{name: "bor", nin: 2, ok: anyW, wz: func(w []int, _ int) []int { return uniq([]int{maxw(w), maxw(w) + 2, 1}) }, build: bin(circuits.NewBinaryOR),
		ref: func(k cs, v []*big.Int) *big.Int { return new(big.Int).Or(v[0], v[1]) }},
	{name: "bxor", nin: 2, ok: anyW, wz: func(w []int, _ int) []int { return uniq([]int{maxw(w), maxw(w) + 2, 1}) }, build: bin(circuits.NewBinaryXOR),
		ref: func(k cs, v []*big.Int) *big.Int { return new(big.Int).Xor(v[0], v[1]) }},
	{name: "bclear", nin: 2, ok: anyW, wz: func(w []int, _ int) []int { return uniq([]int{maxw(w), maxw(w) + 2, 1}) }, build: bin(circuits.NewBinaryClear),
		ref: func(k cs, v []*big.Int) *big.Int { return new(big.Int).AndNot(v[0], v[1]) }},
	{name: "land", nin: 2, ok: func(w []int, _ int) bool { return w[0] == 1 && w[1] == 1 }, wz: one, build: bin(circuits.NewLogicalAND),
		ref: func(k cs, v []*big.Int) *big.Int { return new(big.Int).And(v[0], v[1]) }},
	{name: "lor", nin: 2, ok: func(w []int, _ int) bool { return w[0] == 1 && w[1] == 1 }, wz: one, build: bin(circuits.NewLogicalOR),
		ref: func(k cs, v []*big.Int) *big.Int { return new(big.Int).Or(v[0], v[1]) }},
	{name: "hamming", nin: 2, ok: anyW,
		wz:    func(w []int, _ int) []int { m := maxw(w); return uniq([]int{big.NewInt(int64(m)).BitLen(), 32}) },
		build: bin(circuits.Hamming),
		ref: func(k cs, v []*big.Int) *big.Int {
			x := new(big.Int).Xor(v[0], v[1])
			n := 0
			for i := 0; i < x.BitLen(); i++ {
				n += int(x.Bit(i))
			}
			return big.NewInt(int64(n))
		}},
	// mux: in[0]=cond(1), in[1]=t, in[2]=f, equal widths
	{name: "mux", nin: 3, ok: func(w []int, _ int) bool { return w[0] == 1 && w[1] == w[2] }, wz: func(w []int, _ int) []int { return []int{w[1]} },
		build: func(cc *circuits.Compiler, k cs, in [][]*circuits.Wire, z []*circuits.Wire) error {
			return circuits.NewMUX(cc, in[0], in[1], in[2], z)
		},
		ref: func(k cs, v []*big.Int) *big.Int {
			if v[0].Sign() != 0 {
				return v[1]
			}
			return v[2]
		}},
	// index: in[0]=array (len*size bits), in[1]=index; extra = element size
	{name: "index", nin: 2, ok: func(w []int, e int) bool { return e > 0 && w[0]%e == 0 }, wz: func(w []int, e int) []int { return []int{e} },
		build: func(cc *circuits.Compiler, k cs, in [][]*circuits.Wire, z []*circuits.Wire) error {
			return circuits.NewIndex(cc, k.Extra, in[0], in[1], z)
		},
		ref: func(k cs, v []*big.Int) *big.Int {
			n := k.W[0] / k.Extra
			// the circuit uses the low bits of the index that cover the array; out of range selects zero
			bits := 1
			for l := 2; l < n; l *= 2 {
				bits++
			}
			idx := new(big.Int).And(v[1], big.NewInt(int64(1)<<bits-1)).Int64()
			if int(idx) >= n {
				return big.NewInt(0)
			}
			r := new(big.Int).Rsh(v[0], uint(int(idx)*k.Extra))
			return r.And(r, new(big.Int).Sub(new(big.Int).Lsh(big.NewInt(1), uint(k.Extra)), big.NewInt(1)))
		}},
	{name: "bitset", nin: 1, ok: anyW, wz: one,
		build: func(cc *circuits.Compiler, k cs, in [][]*circuits.Wire, z []*circuits.Wire) error {
			return circuits.NewBitSetTest(cc, in[0], types.Size(k.Extra), z)
		},
		ref: func(k cs, v []*big.Int) *big.Int { return big.NewInt(int64(v[0].Bit(k.Extra))) }},
	{name: "bitclr", nin: 1, ok: anyW, wz: one,
		build: func(cc *circuits.Compiler, k cs, in [][]*circuits.Wire, z []*circuits.Wire) error {
			return circuits.NewBitClrTest(cc, in[0], types.Size(k.Extra), z)
		},
		ref: func(k cs, v []*big.Int) *big.Int { return big.NewInt(int64(1 - v[0].Bit(k.Extra))) }},
}

func opByName(n string) *opDef {
	for i := range ops {
		if ops[i].name == n {
			return &ops[i]
		}
	}
	panic("op " + n)
}

func buildCircuit(k cs, op *opDef) (c *circuit.Circuit, err error) {
	defer func() {
		if r := recover(); r != nil {
			err = fmt.Errorf("builder panic: %v", r)
		}
	}()
	params := utils.NewParams()
	if k.Target == "GMW" {
		params.Target = utils.TargetGMW
	}
	params.OptPruneGates = k.Prune
	calloc := circuits.NewAllocator()
	total := 0
	var inIO circuit.IO
	for i, w := range k.W {
		total += w
		inIO = append(inIO, circuit.IOArg{Name: fmt.Sprintf("x%d", i), Type: types.Info{Type: types.TUint, IsConcrete: true, Bits: types.Size(w), MinBits: types.Size(w)}})
	}
	outIO := circuit.IO{{Name: "z", Type: types.Info{Type: types.TUint, IsConcrete: true, Bits: types.Size(k.WZ), MinBits: types.Size(k.WZ)}}}
	inW := calloc.Wires(types.Size(total))
	cc, err := circuits.NewCompiler(params, calloc, inIO, outIO, inW, nil)
	if err != nil {
		return nil, err
	}
	var in [][]*circuits.Wire
	off := 0
	for _, w := range k.W {
		in = append(in, inW[off:off+w])
		off += w
	}
	z := calloc.Wires(types.Size(k.WZ))
	if err := op.build(cc, k, in, z); err != nil {
		return nil, err
	}
	// as ssa.Program.Circuit does for Ret
	for _, w := range z {
		o := calloc.Wire()
		cc.ID(w, o)
		cc.OutputWires = append(cc.OutputWires, o)
	}
	for _, o := range cc.OutputWires {
		o.SetOutput(true)
	}
	cc.ConstPropagate()
	cc.ShortCircuitXORZero()
	if k.Prune {
		cc.Prune()
	}
	c = cc.Compile()
	c.AssignLevels(params.Target)
	return c, nil
}

func wclass(w []int) string {
	m := maxw(w)
	switch {
	case m <= 8:
		return "w<=8"
	case m <= 32:
		return "w9..32"
	case m <= 64:
		return "w33..64"
	}
	return "w>64"
}

// inputs enumerates operand tuples.
func inputs(k cs, quick bool, f func(v []*big.Int)) (exhaustive bool) {
	if k.Inputs != nil {
		var v []*big.Int
		for _, s := range k.Inputs {
			x, _ := new(big.Int).SetString(s, 10)
			v = append(v, x)
		}
		f(v)
		return false
	}
	total := 0
	for _, w := range k.W {
		total += w
	}
	limit := 16
	if quick {
		limit = 14
	}
	if total <= limit {
		n := len(k.W)
		v := make([]*big.Int, n)
		for x := 0; x < 1<<total; x++ {
			off := 0
			for i, w := range k.W {
				v[i] = big.NewInt(int64(x >> off & (1<<w - 1)))
				off += w
			}
			f(v)
		}
		return true
	}
	alph := make([][]*big.Int, len(k.W))
	for i, w := range k.W {
		if w <= 6 {
			for x := 0; x < 1<<w; x++ {
				alph[i] = append(alph[i], big.NewInt(int64(x)))
			}
		} else if quick || len(k.W) > 2 {
			alph[i] = valpha.Unsigned(w)
		} else {
			alph[i] = valpha.Walk(w)
			if w > 40 {
				alph[i] = valpha.Unsigned(w)
			}
		}
	}
	v := make([]*big.Int, len(k.W))
	var rec func(i int)
	rec = func(i int) {
		if i == len(k.W) {
			f(v)
			return
		}
		for _, x := range alph[i] {
			v[i] = x
			rec(i + 1)
		}
	}
	rec(0)
	// dividers: the GMW divider starts from a reciprocal table indexed by the divisor's top 8 bits, so every
	// table entry is a separate case: every divisor 1..255 (their normalised forms cover all entries) and the
	// same patterns shifted to the top of the operand, against dividends that give the longest quotients
	if (k.Op == "udiv" || k.Op == "umod" || k.Op == "idiv" || k.Op == "imod") && len(k.W) == 2 && k.W[0] > 8 && k.W[1] > 8 {
		w0, w1 := k.W[0], k.W[1]
		vw0 := w0
		if k.Op[0] == 'i' {
			vw0-- // keep the sign bit clear: the signed dividers negate and call the unsigned one
		}
		max := new(big.Int).Sub(new(big.Int).Lsh(big.NewInt(1), uint(vw0)), big.NewInt(1))
		divs := []*big.Int{max, new(big.Int).Sub(max, big.NewInt(1)), new(big.Int).Lsh(big.NewInt(1), uint(vw0-1)),
			new(big.Int).Rsh(new(big.Int).Mul(max, big.NewInt(0xaa)), 8)}
		step := 1
		if quick {
			step = 3
		}
		for d := 1; d <= 255; d += step {
			for _, sh := range []int{0, w1 - 9} {
				if sh < 0 || (k.Op[0] == 'i' && sh > 0 && sh+8 >= w1) {
					continue
				}
				dv := new(big.Int).Lsh(big.NewInt(int64(d)), uint(sh))
				if dv.BitLen() > w1 || (k.Op[0] == 'i' && dv.BitLen() >= w1) {
					continue
				}
				for _, a := range divs {
					f([]*big.Int{a, dv})
				}
			}
		}
	}
	return false
}

func runCase(ctx *runner.Ctx, k cs) {
	op := opByName(k.Op)
	site := fmt.Sprintf("%s.%s", k.Op, k.Target)
	c, err := buildCircuit(k, op)
	if err != nil {
		ctx.Eval(1)
		ctx.Violate(site+".build-error."+wclass(k.W), fmt.Sprintf("%v (op=%s w=%v wz=%d thr=%d extra=%d)", err, k.Op, k.W, k.WZ, k.Thr, k.Extra), k)
		return
	}
	if c.Inputs.Size() > c.NumWires || c.Outputs.Size() > c.NumWires {
		ctx.Violate(site+".malformed", "compiled circuit has fewer wires than I/O bits", k)
		return
	}
	total := c.Inputs.Size()
	nout := k.WZ
	mod := new(big.Int).Lsh(big.NewInt(1), uint(nout))
	var batch [][]*big.Int
	lanes := make([]uint64, total)
	bad := false
	flush := func() {
		if len(batch) == 0 || bad {
			batch = batch[:0]
			return
		}
		for i := range lanes {
			lanes[i] = 0
		}
		for l, v := range batch {
			off := 0
			for i, w := range k.W {
				for b := 0; b < w; b++ {
					if v[i].Bit(b) == 1 {
						lanes[off+b] |= 1 << uint(l)
					}
				}
				off += w
			}
		}
		wires := bitsim.Eval64(c, lanes)
		base := c.NumWires - nout
		for l, v := range batch {
			want := op.ref(k, v)
			if want == nil {
				continue
			}
			want = new(big.Int).Mod(want, mod)
			ctx.Eval(1)
			ok := true
			for b := 0; b < nout; b++ {
				if uint(wires[base+b]>>uint(l)&1) != want.Bit(b) {
					ok = false
					break
				}
			}
			if !ok {
				got := new(big.Int)
				for b := 0; b < nout; b++ {
					if wires[base+b]>>uint(l)&1 == 1 {
						got.SetBit(got, b, 1)
					}
				}
				kk := k
				kk.Inputs = nil
				for _, x := range v {
					kk.Inputs = append(kk.Inputs, x.String())
				}
				vk := ".value."
				if k.Op == "subtractor" && k.WZ > maxw(k.W)+1 && v[0].Cmp(v[1]) < 0 {
					// a negative difference in a result wider than max+1 bits has its own key
					vk = ".value-negative-in-wide-result."
				}
				if k.Op == "idiv" && k.WZ > maxw(k.W) && want.Bit(k.WZ-1) == 1 {
					// a negative quotient in a result wider than the operands
					vk = ".value-negative-in-wide-result."
				}
				ctx.Violate(site+vk+wclass(k.W), fmt.Sprintf("%s(%v) widths %v -> %d bits, target %s thr=%d extra=%d prune=%v: circuit gives %s, exact result mod 2^%d is %s",
					k.Op, v, k.W, k.WZ, k.Target, k.Thr, k.Extra, k.Prune, got, k.WZ, want), kk)
				bad = true
				return
			}
		}
		batch = batch[:0]
	}
	exh := inputs(k, ctx.Quick(), func(v []*big.Int) {
		cp := make([]*big.Int, len(v))
		copy(cp, v)
		batch = append(batch, cp)
		if len(batch) == 64 {
			flush()
		}
	})
	flush()
	if !bad {
		ctx.NontrivialN(1)
		if exh {
			ctx.Outcome("ok-exhaustive-inputs/" + k.Target)
		} else {
			ctx.Outcome("ok-boundary-inputs/" + k.Target)
		}
		ctx.Max("gates", int64(c.NumGates))
	}
}

var switchWidths = []int{9, 10, 11, 12, 13, 15, 16, 17, 18, 19, 20, 21, 22, 23, 24, 31, 32, 33, 34, 35, 40, 47, 48, 49, 63, 64, 65, 66, 96, 127, 128, 129, 130}

func work(ctx *runner.Ctx) {
	var cases []cs
	maxSmall := 8
	if ctx.Quick() {
		maxSmall = 7
	}
	targets := []string{"Yao", "GMW"}
	add := func(k cs) { cases = append(cases, k) }
	for i := range ops {
		op := &ops[i]
		switch op.nin {
		case 1: // bit tests
			for w := 1; w <= maxSmall+2; w++ {
				for idx := 0; idx <= w+1; idx++ {
					for _, t := range targets {
						add(cs{Op: op.name, W: []int{w}, WZ: 1, Target: t, Extra: idx})
					}
				}
			}
			for _, w := range []int{64, 65, 130} {
				for _, idx := range []int{0, 63, 64, w - 1, w} {
					add(cs{Op: op.name, W: []int{w}, WZ: 1, Target: "Yao", Extra: idx})
				}
			}
		case 3: // mux
			for w := 1; w <= maxSmall-1; w++ {
				for _, t := range targets {
					add(cs{Op: op.name, W: []int{1, w, w}, WZ: w, Target: t})
				}
			}
			for _, w := range []int{8, 31, 64, 65, 130} {
				for _, t := range targets {
					add(cs{Op: op.name, W: []int{1, w, w}, WZ: w, Target: t})
				}
			}
		default:
			if op.name == "index" {
				for size := 1; size <= 3; size++ {
					for n := 1; n <= 5; n++ {
						for iw := 1; iw <= 4; iw++ {
							for _, t := range targets {
								add(cs{Op: op.name, W: []int{n * size, iw}, WZ: size, Target: t, Extra: size})
							}
						}
					}
				}
				add(cs{Op: op.name, W: []int{16 * 8, 8}, WZ: 8, Target: "Yao", Extra: 8})
				add(cs{Op: op.name, W: []int{17 * 8, 5}, WZ: 8, Target: "GMW", Extra: 8})
				continue
			}
			thrs := []int{0}
			if op.name == "multiplier" {
				thrs = []int{0, 8, 21, 1000, -1, -2, -3}
			}
			for wx := 1; wx <= maxSmall; wx++ {
				for wy := 1; wy <= maxSmall; wy++ {
					w := []int{wx, wy}
					if !op.ok(w, 0) {
						continue
					}
					for _, wz := range op.wz(w, 0) {
						for _, t := range targets {
							for _, thr := range thrs {
								if thr != 0 && (wx != wy || (wz != wx && wz != 2*wx)) {
									continue
								}
								if thr < 0 && t == "GMW" && thr != -2 {
									continue
								}
								add(cs{Op: op.name, W: w, WZ: wz, Target: t, Thr: thr})
								if !ctx.Quick() && thr == 0 && wx == wy {
									add(cs{Op: op.name, W: w, WZ: wz, Target: t, Thr: thr, Prune: true})
								}
							}
						}
					}
				}
			}
			// switch widths with the boundary alphabet
			var sw []int
			for w := 9; w <= 130; w++ {
				sw = append(sw, w) // thorough: every width 9..130
			}
			_ = switchWidths
			if ctx.Quick() {
				sw = []int{9, 12, 16, 17, 21, 22, 24, 31, 32, 33, 48, 63, 64, 65, 128, 130}
			}
			heavy := op.name == "udiv" || op.name == "umod" || op.name == "idiv" || op.name == "imod"
			for _, wv := range sw {
				if heavy && wv > 66 && ctx.Quick() {
					continue
				}
				w := []int{wv, wv}
				if !op.ok(w, 0) {
					continue
				}
				for _, wz := range op.wz(w, 0) {
					if wz != wv && wz != wv+1 && wz != 2*wv && wz != 1 {
						continue
					}
					if (op.name == "multiplier") && wz == 1 {
						continue
					}
					for _, t := range targets {
						for _, thr := range thrs {
							if thr != 0 && (wz != wv || ctx.Quick()) {
								continue
							}
							if thr < 0 && t == "GMW" && thr != -2 {
								continue
							}
							if thr == -1 && wv > 66 {
								continue
							}
							add(cs{Op: op.name, W: w, WZ: wz, Target: t, Thr: thr})
						}
					}
				}
				// unequal widths around the switch width
				if !op.signed && !heavy && wv > 9 {
					for _, t := range targets {
						add(cs{Op: op.name, W: []int{wv, wv - 3}, WZ: op.wz([]int{wv, wv - 3}, 0)[len(op.wz([]int{wv, wv - 3}, 0))-1], Target: t})
						add(cs{Op: op.name, W: []int{3, wv}, WZ: op.wz([]int{3, wv}, 0)[0], Target: t})
					}
				}
			}
		}
	}
	if ctx.Quick() {
		// the GMW divider's refinement count steps where the width passes 7*2^k bits: both sides of each step
		for _, wv := range []int{14, 15, 28, 29, 56, 57, 111, 112, 113} {
			for _, name := range []string{"udiv", "umod"} {
				add(cs{Op: name, W: []int{wv, wv}, WZ: wv, Target: "GMW"})
			}
		}
	}
	ctx.Note(fmt.Sprintf("case list: %d circuits (builder x widths x result width x target x configuration)", len(cases)))
	for i, k := range cases {
		if !ctx.Mine(i) {
			continue
		}
		if ctx.Expired() {
			return
		}
		runCase(ctx, k)
		if i%997 == 0 {
			ctx.Sample(k)
		}
	}
}

func replay(ctx *runner.Ctx, raw json.RawMessage) {
	var k cs
	if err := json.Unmarshal(raw, &k); err != nil {
		panic(err)
	}
	runCase(ctx, k)
}

func main() {
	if len(os.Args) > 4 && os.Args[1] == "probe" {
		probe()
		return
	}
	runner.Main(runner.Spec{
		ID:    "C07",
		Level: "exploration",
		Rule: "one circuit per (builder, operand widths, result width, target Yao/GMW, multiplier algorithm/threshold, prune), built exactly as ssa.Program.Circuit does (fresh output wires via ID, ConstPropagate, ShortCircuitXORZero, Compile); ALL width pairs 1..6 (thorough 1..8) with ALL operand values, then switch widths 9..130 with the boundary alphabet cross product; every operand tuple is evaluated 64 lanes at a time and compared with math/big mod 2^wz. " +
			"evaluations = operand tuples compared; distinct_nontrivial = circuits whose every tuple matched",
		Assumptions: []string{
			"signed division/modulo reference: quotient truncates toward zero, remainder is |a| mod |b| (pinned by testsuite/lang/divi.mpcl, modi.mpcl and NewIDivider's comment); divisor != 0",
			"signed builders and dividers are driven with equal operand widths (what the type checker produces); subtractor result widths {max, max+1, 2max, 2max+3, 1}",
			"index reference: low ceil(log2 n) index bits, out-of-range selects 0 (NewIndex's comment)",
		},
		Work:           work,
		Replay:         replay,
		QuickBudget:    80 * time.Second,
		ThoroughBudget: 20 * time.Minute,
	})
}
