package main

// End-to-end families through the compiler: what the size inference (circuit.InputSizes), the instantiation of
// unsized parameters (types.Info.InstantiateWithSizes), the textual encoding and the result decoding make of a
// value together.

import (
	"fmt"
	"math/big"
	"reflect"
	"strings"

	mpc "github.com/markkurossi/mpc"
	"github.com/markkurossi/mpc/circuit"

	"verif/mpcl"
	"verif/runner"
)

// toBig converts a decoded result (any Go integer, *big.Int, bool) to a number.
func toBig(v interface{}) (*big.Int, bool) {
	switch x := v.(type) {
	case *big.Int:
		return new(big.Int).Set(x), true
	case bool:
		if x {
			return big.NewInt(1), true
		}
		return big.NewInt(0), true
	}
	rv := reflect.ValueOf(v)
	switch rv.Kind() {
	case reflect.Int, reflect.Int8, reflect.Int16, reflect.Int32, reflect.Int64:
		return big.NewInt(rv.Int()), true
	case reflect.Uint, reflect.Uint8, reflect.Uint16, reflect.Uint32, reflect.Uint64:
		return new(big.Int).SetUint64(rv.Uint()), true
	}
	return nil, false
}

// flatten turns nested slices of numbers into one list (row-major).
func flatten(v interface{}, out *[]*big.Int) bool {
	if b, ok := toBig(v); ok {
		*out = append(*out, b)
		return true
	}
	rv := reflect.ValueOf(v)
	if rv.Kind() != reflect.Slice {
		return false
	}
	for i := 0; i < rv.Len(); i++ {
		if !flatten(rv.Index(i).Interface(), out) {
			return false
		}
	}
	return true
}

func runProgram(ctx *runner.Ctx, k cs) {
	fail := func(kind, what string) {
		ctx.Violate("program."+kind, what+" :: "+strings.ReplaceAll(k.Src, "\n", " ; ")+fmt.Sprintf(" inputs=%v", k.Inputs), k)
	}
	sizes, err := circuit.InputSizes(k.Inputs)
	if err != nil {
		ctx.Outcome("program-input-not-sizable")
		return
	}
	c, _, err, panicked := mpcl.Compile(k.Src, mpcl.Opts{}, [][]int{sizes, {8}})
	if panicked {
		fail(k.Fam+".compiler-panic", err.Error())
		return
	}
	if err != nil {
		ctx.Outcome("program-rejected/" + k.Fam)
		ctx.Note("rejected (" + k.Fam + "): " + strings.SplitN(err.Error(), "\n", 2)[0])
		return
	}
	ctx.Nontrivial(k.Fam + "|" + k.Src + fmt.Sprint(k.Inputs))
	switch k.Fam {
	case "member-sizes":
		// the members of the instantiated argument have exactly the inferred sizes, in order
		var got []int
		var walk func(a circuit.IOArg)
		walk = func(a circuit.IOArg) {
			if len(a.Compound) == 0 {
				got = append(got, int(a.Type.Bits))
				return
			}
			for _, m := range a.Compound {
				walk(m)
			}
		}
		walk(c.Inputs[0])
		if fmt.Sprint(got) != fmt.Sprint(sizes) {
			fail("member-sizes", fmt.Sprintf("inferred sizes %v, the instantiated argument %v has members of %v bits", sizes, c.Inputs[0], got))
			return
		}
	}
	in, err := c.Inputs[0].Parse(k.Inputs)
	if err != nil {
		if k.Fam == "repeat-form" {
			fail("repeat-form.sized-but-not-encodable", fmt.Sprintf("InputSizes accepts %v (%v bits) but IOArg.Parse rejects it: %v", k.Inputs, sizes, err))
			return
		}
		ctx.Outcome("program-input-rejected/" + k.Fam)
		return
	}
	// Compute takes one value per flattened member
	var vals []*big.Int
	if len(c.Inputs[0].Compound) > 0 {
		off := uint(0)
		for _, m := range c.Inputs[0].Compound {
			w := uint(m.Type.Bits)
			v := new(big.Int).Rsh(in, off)
			v.And(v, new(big.Int).Sub(new(big.Int).Lsh(big.NewInt(1), w), big.NewInt(1)))
			vals = append(vals, v)
			off += w
		}
	} else {
		vals = append(vals, in)
	}
	outs, err := c.Compute(append(vals, big.NewInt(0)))
	if err != nil {
		fail(k.Fam+".compute-error", err.Error())
		return
	}
	if len(k.Want) == 0 {
		ctx.Outcome("program-ok/" + k.Fam)
		return
	}
	var got []*big.Int
	for i, o := range outs {
		v := mpc.Result(o, c.Outputs[i])
		if !flatten(v, &got) {
			fail(k.Fam+".undecodable", fmt.Sprintf("output %d decodes to %T %v", i, v, v))
			return
		}
	}
	var want []string
	for _, g := range got {
		want = append(want, g.String())
	}
	if strings.Join(want, ",") != strings.Join(k.Want, ",") {
		kind := k.Fam + ".value"
		if k.Sub != "" {
			kind = k.Fam + "." + k.Sub
		}
		fail(kind, fmt.Sprintf("the program returns its argument; written %v, inferred sizes %v, argument type %v, decoded result %v", k.Inputs, sizes, c.Inputs[0].Type, want))
		return
	}
	ctx.Outcome("program-ok/" + k.Fam)
}

// runSplit: IO.Split of a packed result gives every declared output its own bits (little-endian, declaration order).
func runSplit(ctx *runner.Ctx, k cs) {
	var io circuit.IO
	packed := new(big.Int)
	var want []*big.Int
	off := 0
	for i, m := range k.Members {
		io = append(io, circuit.IOArg{Name: fmt.Sprintf("o%d", i), Type: m.T.info()})
		v := new(big.Int)
		v.SetString(m.Vals[0], 10)
		want = append(want, v)
		packed.Or(packed, new(big.Int).Lsh(v, uint(off)))
		off += m.T.total()
	}
	before := new(big.Int).Set(packed)
	got := io.Split(packed)
	ctx.Nontrivial("split/" + shape(k.Members) + fmt.Sprint(want))
	if packed.Cmp(before) != 0 {
		ctx.Violate("split.modifies-argument", "IO.Split changed the value it was given: "+shape(k.Members), k)
		return
	}
	if len(got) != len(want) {
		ctx.Violate("split.arity", fmt.Sprintf("IO.Split returned %d values for %d outputs", len(got), len(want)), k)
		return
	}
	for i := range want {
		if got[i].Cmp(want[i]) != 0 {
			ctx.Violate("split.value", fmt.Sprintf("output %d of (%s): IO.Split gives %s, the packed value holds %s (all outputs %v)", i, shape(k.Members), got[i], want[i], want), k)
			return
		}
	}
	ctx.Outcome("split-ok")
}

// splitCases: every tuple of 2..4 output widths over a small set, each member in turn all ones (the others zero),
// and alternating patterns.
func splitCases(quick bool) []cs {
	ws := []int{1, 2, 7, 8, 32, 33, 65}
	if quick {
		ws = []int{1, 3, 8, 32, 65}
	}
	var cases []cs
	ones := func(w int) string {
		return new(big.Int).Sub(new(big.Int).Lsh(big.NewInt(1), uint(w)), big.NewInt(1)).String()
	}
	var rec func(cur []int, n int)
	rec = func(cur []int, n int) {
		if len(cur) == n {
			for hot := -1; hot < n; hot++ {
				var ms []Member
				for i, w := range cur {
					v := "0"
					if i == hot || (hot == -1 && i%2 == 0) {
						v = ones(w)
					}
					ms = append(ms, Member{T: TDesc{Kind: "uint", Bits: w}, Vals: []string{v}})
				}
				cases = append(cases, cs{Mode: "split", Members: ms})
			}
			return
		}
		for _, w := range ws {
			rec(append(cur, w), n)
		}
	}
	rec(nil, 2)
	rec(nil, 3)
	if !quick {
		rec(nil, 4)
	}
	return cases
}

func programCases(quick bool) []cs {
	var cases []cs
	cases = append(cases, splitCases(quick)...)
	// an unsized scalar parameter: the value written comes back
	for _, kind := range []string{"uint", "int"} {
		src := fmt.Sprintf("package main\nfunc main(a %s, b uint8) %s {\n\treturn a\n}\n", kind, kind)
		vals := []string{"1", "2", "3", "5", "7", "8", "100", "127", "128", "200", "255", "256", "65535", "2147483647", "2147483648", "4294967295", "4294967296", "9223372036854775807", "18446744073709551615", "36893488147419103231"}
		if kind == "int" {
			vals = append(vals, "-1", "-2", "-3", "-4", "-5", "-8", "-127", "-128", "-129", "-2147483648", "-9223372036854775808")
		}
		for _, v := range vals {
			sub := "positive"
			if strings.HasPrefix(v, "-") {
				sub = "negative"
			}
			cases = append(cases, cs{Mode: "program", Fam: "unsized-" + kind, Sub: sub, Src: src, Inputs: []string{v}, Want: []string{v}})
		}
	}
	// nested struct arguments: every leaf gets its own inferred size
	nested := "package main\ntype Inner struct {\n\tb []byte\n\tc []byte\n}\ntype Outer struct {\n\ta  []byte\n\tin Inner\n\td  []byte\n}\nfunc main(g Outer, e uint8) (int, int) {\n\treturn len(g.a), len(g.d)\n}\n"
	for _, in := range [][]string{{"0x01", "0x0202", "0x030303", "0x04040404"}, {"0x0101", "0x02", "0x03", "0x040404"}, {"0x01", "0x02", "0x03", "0x04"}} {
		cases = append(cases, cs{Mode: "program", Fam: "member-sizes", Src: nested, Inputs: in})
	}
	flat := "package main\ntype S struct {\n\ta []byte\n\tb uint\n\tc []byte\n}\nfunc main(g S, e uint8) (int, int) {\n\treturn len(g.a), len(g.c)\n}\n"
	for _, in := range [][]string{{"0x01", "200", "0x030303"}, {"0x010203", "1", "0x04"}} {
		cases = append(cases, cs{Mode: "program", Fam: "member-sizes", Src: flat, Inputs: in})
	}
	// results of nested aggregate types decode (row-major) without crashing
	cases = append(cases, cs{Mode: "program", Fam: "nested-result", Src: "package main\nfunc main(a uint8, b uint8) [2][2]byte {\n\tvar r [2][2]byte\n\tr[0][0] = a\n\tr[0][1] = a + 1\n\tr[1][0] = a + 2\n\tr[1][1] = a + 3\n\treturn r\n}\n", Inputs: []string{"250"}, Want: []string{"250", "251", "252", "253"}})
	cases = append(cases, cs{Mode: "program", Fam: "nested-result", Src: "package main\nfunc main(a int16, b uint8) [2][3]int16 {\n\tvar r [2][3]int16\n\tr[0][0] = a\n\tr[0][2] = 0 - a\n\tr[1][1] = a + a\n\treturn r\n}\n", Inputs: []string{"-3"}, Want: []string{"-3", "0", "3", "0", "-6", "0"}})
	cases = append(cases, cs{Mode: "program", Fam: "nested-result", Src: "package main\nfunc main(a uint8, b uint8) [2][2][2]bool {\n\tvar r [2][2][2]bool\n\tr[1][0][1] = a > 3\n\tr[0][1][0] = a > 200\n\treturn r\n}\n", Inputs: []string{"7"}, Want: []string{"0", "0", "0", "0", "0", "1", "0", "0"}})
	// arrays of arrays as INPUT: the text lists the elements in declaration order at every level, as it does for a
	// flat array (0x01020304 for [4]byte is {1,2,3,4}; for [2][2]byte it is {{1,2},{3,4}})
	cases = append(cases, cs{Mode: "program", Fam: "nested-array-input", Src: "package main\nfunc main(a [2][2]byte, b uint8) (byte, byte, byte, byte) {\n\treturn a[0][0], a[0][1], a[1][0], a[1][1]\n}\n", Inputs: []string{"0x01020304"}, Want: []string{"1", "2", "3", "4"}})
	cases = append(cases, cs{Mode: "program", Fam: "nested-array-input", Src: "package main\nfunc main(a [2][2]byte, b uint8) [2][2]byte {\n\treturn a\n}\n", Inputs: []string{"0xa1b2c3d4"}, Want: []string{"161", "178", "195", "212"}})
	cases = append(cases, cs{Mode: "program", Fam: "nested-array-input", Src: "package main\nfunc main(a [2][3]uint4, b uint8) (uint4, uint4, uint4, uint4, uint4, uint4) {\n\treturn a[0][0], a[0][1], a[0][2], a[1][0], a[1][1], a[1][2]\n}\n", Inputs: []string{"0x123456"}, Want: []string{"1", "2", "3", "4", "5", "6"}})
	cases = append(cases, cs{Mode: "program", Fam: "nested-array-input", Src: "package main\nfunc main(a [2][2][2]byte, b uint8) (byte, byte, byte, byte) {\n\treturn a[0][0][0], a[0][0][1], a[0][1][0], a[1][1][1]\n}\n", Inputs: []string{"0x0102030405060708"}, Want: []string{"1", "2", "3", "8"}})
	cases = append(cases, cs{Mode: "program", Fam: "nested-array-input", Src: "package main\nfunc main(a [3][2]byte, b uint8) (byte, byte, byte, byte, byte, byte) {\n\treturn a[0][0], a[0][1], a[1][0], a[1][1], a[2][0], a[2][1]\n}\n", Inputs: []string{"0x0102"}, Want: []string{"1", "2", "0", "0", "0", "0"}})
	// the repeat form <count>x<hex> that InputSizes accepts
	rep := "package main\nfunc main(a []byte, b uint8) (byte, byte, int) {\n\treturn a[0], a[len(a)-1], len(a)\n}\n"
	for _, in := range []string{"3xab", "1xff", "42x00", "2x0102"} {
		cases = append(cases, cs{Mode: "program", Fam: "repeat-form", Src: rep, Inputs: []string{in}})
	}
	return cases
}
