// C13 — input and output value encoding is lossless and consistent.
package main

import (
	"encoding/json"
	"fmt"
	"math/big"
	"reflect"
	"strings"
	"time"
	"unicode"

	mpc "github.com/markkurossi/mpc"
	"github.com/markkurossi/mpc/circuit"
	"github.com/markkurossi/mpc/types"

	"verif/runner"
	"verif/valpha"
)

// TDesc describes a member type.
type TDesc struct {
	Kind   string `json:"kind"` // bool int uint array slice
	Bits   int    `json:"bits"` // scalar width, or element width
	N      int    `json:"n"`    // array length
	ElKind string `json:"el,omitempty"`
}

func (t TDesc) String() string {
	switch t.Kind {
	case "bool":
		return "bool"
	case "int", "uint":
		return fmt.Sprintf("%s%d", t.Kind, t.Bits)
	case "array":
		return fmt.Sprintf("[%d]%s%d", t.N, t.ElKind, t.Bits)
	case "string":
		return fmt.Sprintf("string(%d)", t.N)
	case "strings":
		return fmt.Sprintf("[%d]string(%d)", t.N, t.Bits/8)
	default:
		return fmt.Sprintf("[]%s%d(n=%d)", t.ElKind, t.Bits, t.N)
	}
}

func (t TDesc) total() int {
	switch t.Kind {
	case "bool":
		return 1
	case "int", "uint":
		return t.Bits
	case "string":
		return 8 * t.N
	}
	return t.N * t.Bits
}

func scalarInfo(kind string, bits int) types.Info {
	tt := types.TUint
	switch kind {
	case "int":
		tt = types.TInt
	case "bool":
		tt = types.TBool
		bits = 1
	}
	return types.Info{Type: tt, IsConcrete: true, Bits: types.Size(bits), MinBits: types.Size(bits)}
}

func (t TDesc) info() types.Info {
	switch t.Kind {
	case "bool", "int", "uint":
		return scalarInfo(t.Kind, t.Bits)
	}
	if t.Kind == "string" {
		// N bytes; Bits is 8
		return types.Info{Type: types.TString, IsConcrete: true, Bits: types.Size(8 * t.N), MinBits: types.Size(8 * t.N)}
	}
	if t.Kind == "strings" {
		// N strings of Bits/8 bytes each
		el := types.Info{Type: types.TString, IsConcrete: true, Bits: types.Size(t.Bits), MinBits: types.Size(t.Bits)}
		return types.Info{Type: types.TArray, IsConcrete: true, Bits: types.Size(t.N * t.Bits), MinBits: types.Size(t.N * t.Bits),
			ElementType: &el, ArraySize: types.Size(t.N)}
	}
	el := scalarInfo(t.ElKind, t.Bits)
	tt := types.TArray
	if t.Kind == "slice" {
		tt = types.TSlice
	}
	return types.Info{Type: tt, IsConcrete: true, Bits: types.Size(t.N * t.Bits), MinBits: types.Size(t.N * t.Bits),
		ElementType: &el, ArraySize: types.Size(t.N)}
}

// Member is a typed abstract value. Vals: scalar -> one signed decimal;
// array -> the GIVEN elements (unsigned patterns), possibly fewer than N.
type Member struct {
	T    TDesc    `json:"t"`
	Vals []string `json:"vals"`
}

type cs struct {
	Mode    string   `json:"mode"` // encode | sizes | result
	Members []Member `json:"members"`
	Spell   string   `json:"spell"`  // dec hex bin
	GoType  string   `json:"gotype"` // for scalars: smallest | int64/uint64 ...
	// program mode: an MPCL program whose first argument is given textually; Want = the decoded outputs flattened
	Fam    string   `json:"fam,omitempty"`
	Sub    string   `json:"sub,omitempty"`
	Src    string   `json:"src,omitempty"`
	Inputs []string `json:"inputs,omitempty"`
	Want   []string `json:"want,omitempty"`
}

func bi(s string) *big.Int {
	v, ok := new(big.Int).SetString(s, 10)
	if !ok {
		panic("bad int " + s)
	}
	return v
}

// refpack: little-endian two's complement per scalar, elements in order, zero fill.
func refpack(m Member) []bool {
	bits := make([]bool, m.T.total())
	switch m.T.Kind {
	case "bool", "int", "uint":
		w := m.T.total()
		v := valpha.Wrap(bi(m.Vals[0]), w)
		for i := 0; i < w; i++ {
			bits[i] = v.Bit(i) == 1
		}
	case "string", "strings":
		for e, s := range m.Vals {
			v := bi(s)
			for i := 0; i < 8; i++ {
				bits[e*8+i] = v.Bit(i) == 1
			}
		}
	default:
		for e, s := range m.Vals {
			v := valpha.Wrap(bi(s), m.T.Bits)
			for i := 0; i < m.T.Bits; i++ {
				bits[e*m.T.Bits+i] = v.Bit(i) == 1
			}
		}
	}
	return bits
}

func spell(m Member, how string) (string, bool) {
	if how == "HEX" {
		// the hexadecimal spelling with the upper-case prefix 0X (math/big accepts both; the same digits must give
		// the same bits and the same inferred size)
		s, ok := spell(m, "hex")
		return strings.Replace(s, "0x", "0X", 1), ok
	}
	switch m.T.Kind {
	case "bool":
		v := bi(m.Vals[0]).Sign() != 0
		switch how {
		case "dec":
			if v {
				return "1", true
			}
			return "0", true
		case "hex":
			if v {
				return "t", true
			}
			return "f", true
		default:
			if v {
				return "true", true
			}
			return "false", true
		}
	case "int", "uint":
		v := bi(m.Vals[0])
		switch how {
		case "dec":
			return v.String(), true
		case "hex":
			if v.Sign() < 0 {
				return "-0x" + new(big.Int).Neg(v).Text(16), true
			}
			return "0x" + v.Text(16), true
		default:
			if v.Sign() < 0 {
				return "-0b" + new(big.Int).Neg(v).Text(2), true
			}
			return "0b" + v.Text(2), true
		}
	default:
		if m.T.Bits%4 != 0 || len(m.Vals) == 0 {
			return "", false
		}
		s := "0x"
		for _, e := range m.Vals {
			s += fmt.Sprintf("%0*s", m.T.Bits/4, valpha.Wrap(bi(e), m.T.Bits).Text(16))
		}
		return s, true
	}
}

func goValue(m Member, gotype string) (interface{}, bool) {
	switch m.T.Kind {
	case "bool":
		return bi(m.Vals[0]).Sign() != 0, true
	case "int":
		v := bi(m.Vals[0])
		if !v.IsInt64() {
			return nil, false
		}
		x := v.Int64()
		sizes := []int{8, 16, 32, 64}
		for _, s := range sizes {
			if s < m.T.Bits {
				continue
			}
			if gotype != "smallest" && gotype != fmt.Sprintf("int%d", s) {
				continue
			}
			switch s {
			case 8:
				return int8(x), true
			case 16:
				return int16(x), true
			case 32:
				return int32(x), true
			default:
				return int64(x), true
			}
		}
		if m.T.Bits > 64 && (gotype == "smallest" || gotype == "int64") {
			// a type wider than every Go integer: a value that fits in int64 is handed over as int64
			return int64(x), true
		}
		return nil, false
	case "uint":
		v := bi(m.Vals[0])
		if !v.IsUint64() {
			return nil, false
		}
		x := v.Uint64()
		for _, s := range []int{8, 16, 32, 64} {
			if s < m.T.Bits {
				continue
			}
			if gotype != "smallest" && gotype != fmt.Sprintf("uint%d", s) {
				continue
			}
			switch s {
			case 8:
				return uint8(x), true
			case 16:
				return uint16(x), true
			case 32:
				return uint32(x), true
			default:
				return uint64(x), true
			}
		}
		if m.T.Bits > 64 && (gotype == "smallest" || gotype == "uint64") {
			return uint64(x), true
		}
		return nil, false
	default:
		if m.T.Bits < 8 {
			return nil, false
		}
		if len(m.Vals) == 0 {
			return nil, true
		}
		var b []byte
		for _, e := range m.Vals {
			v := bi(e)
			if v.Sign() < 0 || v.Cmp(big.NewInt(255)) > 0 {
				return nil, false
			}
			b = append(b, byte(v.Uint64()))
		}
		return b, true
	}
}

func ioarg(ms []Member) circuit.IOArg {
	if len(ms) == 1 {
		return circuit.IOArg{Name: "a", Type: ms[0].T.info()}
	}
	arg := circuit.IOArg{Name: "s", Type: types.Info{Type: types.TStruct, IsConcrete: true}}
	total := 0
	for i, m := range ms {
		arg.Compound = append(arg.Compound, circuit.IOArg{Name: fmt.Sprintf("f%d", i), Type: m.T.info()})
		total += m.T.total()
	}
	arg.Type.Bits = types.Size(total)
	arg.Type.MinBits = arg.Type.Bits
	return arg
}

func shape(ms []Member) string {
	var s []string
	for _, m := range ms {
		s = append(s, m.T.String())
	}
	return strings.Join(s, ",")
}

func kindOf(ms []Member) string {
	var s []string
	for _, m := range ms {
		k := m.T.Kind
		if k == "int" || k == "uint" {
			if m.T.Bits > 64 {
				k += ">64"
			}
			if bi(m.Vals[0]).Sign() < 0 {
				k += "-neg"
			}
		}
		if (k == "array" || k == "slice") && len(m.Vals) < m.T.N {
			k += "-short"
		}
		s = append(s, k)
	}
	return strings.Join(s, ",")
}

func runCase(ctx *runner.Ctx, k cs) {
	ctx.Eval(1)
	defer func() {
		if r := recover(); r != nil {
			site := k.Mode
			if k.Fam != "" {
				site += "." + k.Fam
			}
			ctx.Violate(site+".panic", fmt.Sprintf("panic: %v (%s %s)", r, shape(k.Members), strings.ReplaceAll(k.Src, "\n", " ; ")), k)
		}
	}()
	switch k.Mode {
	case "encode":
		runEncode(ctx, k)
	case "sizes":
		runSizes(ctx, k)
	case "result":
		runResult(ctx, k)
	case "program":
		runProgram(ctx, k)
	case "split":
		runSplit(ctx, k)
	}
}

func runEncode(ctx *runner.Ctx, k cs) {
	arg := ioarg(k.Members)
	var want []bool
	for _, m := range k.Members {
		want = append(want, refpack(m)...)
	}
	compare := func(form string, got *big.Int) {
		off := 0
		for mi, m := range k.Members {
			for i := 0; i < m.T.total(); i++ {
				if (got.Bit(off+i) == 1) != want[off+i] {
					site := form + "." + m.T.Kind
					if len(k.Members) > 1 {
						site = form + ".compound[" + kindOf(k.Members) + "]"
					}
					ctx.Violate("encode."+site, fmt.Sprintf("%s form of %s: member %d (%s=%v) bit %d is %d, reference says %v; members=%v",
						form, shape(k.Members), mi, m.T, m.Vals, i, got.Bit(off+i), want[off+i], k.Members), k)
					return
				}
			}
			off += m.T.total()
		}
		ctx.Outcome("encode-ok/" + form)
	}
	// textual form
	var strs []string
	okText := true
	for _, m := range k.Members {
		s, ok := spell(m, k.Spell)
		if !ok {
			okText = false
			break
		}
		strs = append(strs, s)
	}
	if okText {
		got, err := arg.Parse(strs)
		if err != nil {
			ctx.Violate("encode.parse-error."+kindOf(k.Members), fmt.Sprintf("Parse(%q) for %s: %v", strs, shape(k.Members), err), k)
		} else {
			compare("text", got)
		}
	}
	// Go value form
	var vals []interface{}
	okGo := true
	for _, m := range k.Members {
		v, ok := goValue(m, k.GoType)
		if !ok {
			okGo = false
			break
		}
		vals = append(vals, v)
	}
	if okGo {
		got, err := arg.Set(nil, vals)
		if err != nil {
			ctx.Violate("encode.set-error."+kindOf(k.Members), fmt.Sprintf("Set(%v) for %s: %v", vals, shape(k.Members), err), k)
		} else {
			compare("govalue", got)
		}
	}
	if okText || okGo {
		ctx.Nontrivial("enc/" + shape(k.Members) + "/" + fmt.Sprint(k.Members) + k.Spell + k.GoType)
	}
}

func runSizes(ctx *runner.Ctx, k cs) {
	m := k.Members[0]
	s, ok1 := spell(m, k.Spell)
	v, ok2 := goValue(m, k.GoType)
	if !ok1 || !ok2 {
		return
	}
	a, err1 := circuit.InputSizes([]string{s})
	b, err2 := circuit.Sizes([]interface{}{v})
	if err1 != nil || err2 != nil {
		ctx.Violate("sizes.error", fmt.Sprintf("InputSizes(%q)=%v Sizes(%v)=%v", s, err1, v, err2), k)
		return
	}
	ctx.Nontrivial("sizes/" + m.T.String() + "/" + s + "/" + k.GoType)
	var written int
	switch m.T.Kind {
	case "bool":
		written = 1
	case "int", "uint":
		val := bi(m.Vals[0])
		if val.Sign() < 0 {
			// not pinned: record only
			ctx.Outcome(fmt.Sprintf("sizes-negative-recorded/text=%d,go=%d", a[0], b[0]))
			return
		}
		if k.Spell == "hex" || k.Spell == "HEX" {
			written = (len(s) - 2) * 4
			// the Go-value form has no notion of leading zero digits: compare the
			// minimal width only
			if b[0] > written || b[0] < max1(val.BitLen()) {
				ctx.Violate("sizes.govalue", fmt.Sprintf("Sizes(%T %v)=%d but the value needs %d bits (text %q -> %d)", v, v, b[0], max1(val.BitLen()), s, a[0]), k)
			} else {
				ctx.Outcome("sizes-ok/hex")
			}
			if a[0] != written {
				ctx.Violate("sizes.text", fmt.Sprintf("InputSizes(%q)=%d want %d", s, a[0], written), k)
			}
			return
		}
		written = max1(val.BitLen())
	default:
		// Set writes one element per byte of a []byte value, whatever the element width
		written = len(m.Vals) * m.T.Bits
		if m.T.Bits != 8 {
			if a[0] != written {
				ctx.Violate("sizes.text", fmt.Sprintf("InputSizes(%q)=%d, value needs %d", s, a[0], written), k)
			} else if b[0] != written {
				ctx.Violate("sizes.govalue.bytes-for-wide-elements", fmt.Sprintf("Sizes(%T %v)=%d, but IOArg.Set writes one %d-bit element per byte: %d bits (the text form %q is sized %d)", v, v, b[0], m.T.Bits, written, s, a[0]), k)
			} else {
				ctx.Outcome("sizes-ok/wide-" + m.T.Kind)
			}
			return
		}
	}
	if a[0] != written {
		ctx.Violate("sizes.text", fmt.Sprintf("InputSizes(%q)=%d, value needs %d", s, a[0], written), k)
		return
	}
	if b[0] != written {
		ctx.Violate("sizes.govalue", fmt.Sprintf("Sizes(%T %v)=%d but InputSizes(%q)=%d and the value needs %d bits", v, v, b[0], s, a[0], written), k)
		return
	}
	ctx.Outcome("sizes-ok/" + m.T.Kind)
}

func max1(n int) int {
	if n < 1 {
		return 1
	}
	return n
}

func expectResult(m Member) interface{} {
	scalar := func(kind string, bits int, pat *big.Int) interface{} {
		switch kind {
		case "bool":
			return pat.Sign() != 0
		case "uint":
			switch {
			case bits <= 8:
				return uint8(pat.Uint64())
			case bits <= 16:
				return uint16(pat.Uint64())
			case bits <= 32:
				return uint32(pat.Uint64())
			case bits <= 64:
				return pat.Uint64()
			}
			return new(big.Int).Set(pat)
		default:
			s := valpha.ToSigned(pat, bits)
			switch {
			case bits <= 8:
				return int8(s.Int64())
			case bits <= 16:
				return int16(s.Int64())
			case bits <= 32:
				return int32(s.Int64())
			case bits <= 64:
				return s.Int64()
			}
			return s
		}
	}
	// a string result: its bytes in order, printable runes as they are, the others as \uXXXX
	render := func(bs []string) string {
		var str string
		for _, b := range bs {
			r := rune(bi(b).Uint64())
			if unicode.IsPrint(r) {
				str += string(r)
			} else {
				str += fmt.Sprintf("\\u%04x", r)
			}
		}
		return str
	}
	switch m.T.Kind {
	case "bool", "int", "uint":
		return scalar(m.T.Kind, m.T.total(), valpha.Wrap(bi(m.Vals[0]), m.T.total()))
	case "string":
		return render(m.Vals)
	case "strings":
		var el []interface{}
		per := m.T.Bits / 8
		for i := 0; i < m.T.N; i++ {
			el = append(el, render(m.Vals[i*per:(i+1)*per]))
		}
		return el
	}
	var el []interface{}
	for i := 0; i < m.T.N; i++ {
		pat := new(big.Int)
		if i < len(m.Vals) {
			pat = valpha.Wrap(bi(m.Vals[i]), m.T.Bits)
		}
		el = append(el, scalar(m.T.ElKind, m.T.Bits, pat))
	}
	return el
}

func sameValue(got, want interface{}) bool {
	if wl, ok := want.([]interface{}); ok {
		gv := reflect.ValueOf(got)
		if gv.Kind() != reflect.Slice || gv.Len() != len(wl) {
			return false
		}
		for i := range wl {
			if !sameValue(gv.Index(i).Interface(), wl[i]) {
				return false
			}
		}
		return true
	}
	if wb, ok := want.(*big.Int); ok {
		gb, ok := got.(*big.Int)
		return ok && gb.Cmp(wb) == 0
	}
	return reflect.DeepEqual(got, want)
}

func runResult(ctx *runner.Ctx, k cs) {
	m := k.Members[0]
	bits := refpack(m)
	v := new(big.Int)
	for i, b := range bits {
		if b {
			v.SetBit(v, i, 1)
		}
	}
	orig := new(big.Int).Set(v)
	out := circuit.IOArg{Name: "r", Type: m.T.info()}
	want := expectResult(m)
	r1 := mpc.Result(v, out)
	changed1 := v.Cmp(orig) != 0
	r2 := mpc.Result(v, out)
	ctx.Nontrivial("res/" + m.T.String() + fmt.Sprint(m.Vals))
	site := m.T.Kind
	if m.T.Kind == "int" || m.T.Kind == "uint" {
		if m.T.Bits > 64 {
			site += ">64"
		}
		if bits[len(bits)-1] && m.T.Kind == "int" {
			site += "-neg"
		}
	} else if m.T.Kind == "string" || m.T.Kind == "strings" {
		if len(m.Vals) > 0 && m.Vals[len(m.Vals)-1] == "0" {
			site += "-trailing-nul"
		}
	} else if m.T.Kind != "bool" {
		site += "-of-" + m.T.ElKind
	}
	if !sameValue(r1, want) {
		ctx.Violate("result.value."+site, fmt.Sprintf("Result(%s, %s) = %v (%T), want %v (%T)", orig.Text(16), m.T, r1, r1, want, want), k)
		return
	}
	if changed1 {
		ctx.Violate("result.mutates-argument."+site, fmt.Sprintf("Result(%s, %s) changed its argument to %s", orig.Text(16), m.T, v.String()), k)
		return
	}
	if !sameValue(r2, want) {
		ctx.Violate("result.not-repeatable."+site, fmt.Sprintf("second Result(%s, %s) = %v, first = %v", orig.Text(16), m.T, r2, r1), k)
		return
	}
	ctx.Outcome("result-ok/" + site)
}

func scalarVals(kind string, w int) []string {
	var res []string
	if kind == "bool" {
		return []string{"0", "1"}
	}
	for _, v := range valpha.Unsigned(w) {
		if kind == "int" {
			res = append(res, valpha.ToSigned(v, w).String())
		} else {
			res = append(res, v.String())
		}
	}
	return res
}

func work(ctx *runner.Ctx) {
	var cases []cs
	widths := []int{1, 2, 3, 4, 7, 8, 9, 15, 16, 17, 31, 32, 33, 63, 64, 65, 127, 128, 130}
	if !ctx.Quick() {
		widths = nil
		for w := 1; w <= 130; w++ {
			widths = append(widths, w)
		}
	}
	gotypes := []string{"smallest", "int16", "int32", "int64", "uint16", "uint32", "uint64"}
	// scalars: encode, sizes, result
	for _, kind := range []string{"bool", "uint", "int"} {
		ws := widths
		if kind == "bool" {
			ws = []int{1}
		}
		for _, w := range ws {
			for _, val := range scalarVals(kind, w) {
				m := Member{T: TDesc{Kind: kind, Bits: w}, Vals: []string{val}}
				for _, sp := range []string{"dec", "hex", "bin", "HEX"} {
					for _, gt := range gotypes {
						if gt != "smallest" && (sp != "dec" || !strings.HasPrefix(gt, kind)) {
							continue
						}
						cases = append(cases, cs{Mode: "encode", Members: []Member{m}, Spell: sp, GoType: gt})
						if sp != "bin" {
							cases = append(cases, cs{Mode: "sizes", Members: []Member{m}, Spell: sp, GoType: gt})
						}
					}
				}
				cases = append(cases, cs{Mode: "result", Members: []Member{m}})
			}
		}
	}
	// small values for the size inference, every value 0..70 and 2^k-1, 2^k
	for v := 0; v <= 70; v++ {
		for _, gt := range []string{"uint8", "uint16", "uint32", "uint64"} {
			m := Member{T: TDesc{Kind: "uint", Bits: 8}, Vals: []string{fmt.Sprint(v)}}
			cases = append(cases, cs{Mode: "sizes", Members: []Member{m}, Spell: "dec", GoType: gt})
		}
	}
	// arrays and slices
	elws := []int{8, 12, 16, 64, 1, 4, 65}
	maxN := 4
	if !ctx.Quick() {
		elws = nil
		for e := 1; e <= 20; e++ {
			elws = append(elws, e)
		}
		elws = append(elws, 31, 32, 33, 63, 64, 65, 100, 128, 130)
		maxN = 6
	}
	for _, kind := range []string{"array", "slice"} {
		for _, elk := range []string{"uint", "int"} {
			for _, e := range elws {
				for n := 0; n <= maxN; n++ {
					for given := 0; given <= n; given++ {
						if kind == "slice" && given != n {
							continue // a slice is instantiated from what is given
						}
						pats := [][]string{}
						base := []string{"0", "1", "255", "128", "170"}
						if e < 8 {
							base = []string{"0", "1", fmt.Sprint((1 << e) - 1)}
						} else if e > 8 && !ctx.Quick() {
							// thorough: the all-ones element and the top bit alone
							base = append(base, new(big.Int).Sub(new(big.Int).Lsh(big.NewInt(1), uint(e)), big.NewInt(1)).String(),
								new(big.Int).Lsh(big.NewInt(1), uint(e-1)).String())
						}
						// all-same and rotating patterns
						for r := 0; r < len(base); r++ {
							var p []string
							for i := 0; i < given; i++ {
								p = append(p, base[(r+i)%len(base)])
							}
							pats = append(pats, p)
						}
						for _, p := range pats {
							m := Member{T: TDesc{Kind: kind, Bits: e, N: n, ElKind: elk}, Vals: p}
							cases = append(cases, cs{Mode: "encode", Members: []Member{m}, Spell: "hex", GoType: "smallest"})
							cases = append(cases, cs{Mode: "encode", Members: []Member{m}, Spell: "HEX", GoType: "smallest"})
							if given == n {
								cases = append(cases, cs{Mode: "result", Members: []Member{m}})
								if (e == 8 || (kind == "slice" && elk == "uint" && (e == 16 || e == 64))) && n > 0 {
									cases = append(cases, cs{Mode: "sizes", Members: []Member{m}, Spell: "hex", GoType: "smallest"})
									if e == 8 {
										cases = append(cases, cs{Mode: "sizes", Members: []Member{m}, Spell: "HEX", GoType: "smallest"})
									}
								}
							}
						}
					}
				}
			}
		}
	}
	// string results: every string of <= 3 bytes over a byte alphabet with NUL, printable, control and high bytes
	// (quick: <= 2 bytes + a stride), strings of 4 and 9 bytes with a NUL at every position, arrays of strings
	balpha := []string{"0", "97", "32", "10", "127", "128", "255", "90"}
	var strs [][]string
	var recS func(cur []string, n int)
	recS = func(cur []string, n int) {
		if len(cur) == n {
			strs = append(strs, append([]string(nil), cur...))
			return
		}
		for _, b := range balpha {
			recS(append(cur, b), n)
		}
	}
	for n := 0; n <= 3; n++ {
		recS(nil, n)
	}
	for _, n := range []int{4, 9} {
		for z := -1; z < n; z++ {
			for z2 := z; z2 < n; z2++ {
				var v []string
				for i := 0; i < n; i++ {
					if i == z || i == z2 {
						v = append(v, "0")
					} else {
						v = append(v, fmt.Sprint(97+i))
					}
				}
				strs = append(strs, v)
			}
		}
		strs = append(strs, strings.Split(strings.Repeat("0 ", n-1)+"0", " "))
	}
	for i, v := range strs {
		if ctx.Quick() && len(v) == 3 && i%3 != 0 {
			continue
		}
		cases = append(cases, cs{Mode: "result", Members: []Member{{T: TDesc{Kind: "string", Bits: 8, N: len(v)}, Vals: v}}})
	}
	for _, v := range strs {
		if len(v) == 4 {
			cases = append(cases, cs{Mode: "result", Members: []Member{{T: TDesc{Kind: "strings", Bits: 16, N: 2}, Vals: v}}})
		}
		if len(v) == 9 {
			cases = append(cases, cs{Mode: "result", Members: []Member{{T: TDesc{Kind: "strings", Bits: 24, N: 3}, Vals: v}}})
		}
	}
	// compounds of 2 and 3 members: every member value from a small alphabet so that
	// every (member i negative/all-ones, member j zero) pair occurs
	pool := []TDesc{
		{Kind: "bool"}, {Kind: "int", Bits: 8}, {Kind: "uint", Bits: 8}, {Kind: "int", Bits: 7}, {Kind: "uint", Bits: 3},
		{Kind: "int", Bits: 16}, {Kind: "uint", Bits: 32}, {Kind: "int", Bits: 64}, {Kind: "uint", Bits: 64},
		{Kind: "uint", Bits: 100}, {Kind: "int", Bits: 65},
		{Kind: "array", Bits: 8, N: 2, ElKind: "uint"}, {Kind: "array", Bits: 8, N: 3, ElKind: "uint"}, {Kind: "array", Bits: 8, N: 0, ElKind: "uint"},
		{Kind: "array", Bits: 16, N: 2, ElKind: "uint"},
		// slices whose size was fixed earlier (instantiated from other input), possibly given fewer elements now
		{Kind: "slice", Bits: 8, N: 2, ElKind: "uint"}, {Kind: "slice", Bits: 8, N: 3, ElKind: "uint"},
	}
	if ctx.Quick() {
		pool = []TDesc{pool[0], pool[1], pool[2], pool[4], pool[7], pool[8], pool[9], pool[10], pool[11], pool[12], pool[13], pool[15]}
	}
	memberVals := func(t TDesc) [][]string {
		switch t.Kind {
		case "bool":
			return [][]string{{"0"}, {"1"}}
		case "int":
			min := new(big.Int).Neg(new(big.Int).Lsh(big.NewInt(1), uint(t.Bits-1)))
			return [][]string{{"0"}, {"-1"}, {min.String()}, {"1"}}
		case "uint":
			max := new(big.Int).Sub(new(big.Int).Lsh(big.NewInt(1), uint(t.Bits)), big.NewInt(1))
			return [][]string{{"0"}, {max.String()}, {"1"}}
		}
		var res [][]string
		for given := 0; given <= t.N; given++ {
			var z, f []string
			for i := 0; i < given; i++ {
				z = append(z, "0")
				f = append(f, "255")
			}
			res = append(res, z)
			if given > 0 {
				res = append(res, f)
			}
		}
		return res
	}
	var rec func(ms []Member, depth, max int)
	rec = func(ms []Member, depth, max int) {
		if depth == max {
			for _, sp := range []string{"dec", "hex"} {
				cases = append(cases, cs{Mode: "encode", Members: append([]Member(nil), ms...), Spell: sp, GoType: "smallest"})
			}
			return
		}
		for _, t := range pool {
			for _, v := range memberVals(t) {
				rec(append(ms, Member{T: t, Vals: v}), depth+1, max)
			}
		}
	}
	rec(nil, 0, 2)
	if !ctx.Quick() {
		rec(nil, 0, 3)
		// 4 members over a restricted pool
		save := pool
		pool = []TDesc{save[0], save[1], save[8], save[7], save[10], save[11]}
		rec(nil, 0, 4)
		pool = save
	} else {
		// 3 members: restrict the pool further
		save := pool
		pool = []TDesc{save[0], save[1], save[9], save[8], save[5], save[7]} // bool, int8, [3]uint8, [2]uint8, uint64, int65
		rec(nil, 0, 3)
		pool = save
	}
	cases = append(cases, programCases(ctx.Quick())...)
	ctx.Note(fmt.Sprintf("case list: %d cases", len(cases)))
	for i, k := range cases {
		if !ctx.Mine(i) {
			continue
		}
		if ctx.Expired() {
			return
		}
		runCase(ctx, k)
		if i%20011 == 0 {
			ctx.Sample(k)
		}
	}
}

func replay(ctx *runner.Ctx, raw json.RawMessage) {
	var k cs
	if err := json.Unmarshal(raw, &k); err != nil {
		panic(err)
	}
	runCase(ctx, k)
}

func main() {
	runner.Main(runner.Spec{
		ID:    "C13",
		Level: "exploration",
		Rule: "explicit list: scalar types bool/intN/uintN x boundary alphabet x {decimal, hex, binary} spellings x every Go integer type that can hold the type; arrays/slices [n]uintE/intE (n 0..4, E in 8,12,16,64,1,4,65) with 0..n given elements; compounds of 2..3 members from a pool x member values {0, 1, -1/min/max} (every pair of 'all-ones member, zero member' occurs); " +
			"modes: encode (Parse and Set vs reference bit packer, per member bit), sizes (InputSizes vs Sizes vs bits needed), result (inverse, repeatable, argument unchanged). distinct_nontrivial = distinct (mode, type shape, value, spelling, Go type) cases that reached the oracle",
		Assumptions: []string{
			"reference packer: little-endian two's complement per scalar, members in declaration order, zero fill for short array literals",
			"array text form only as 0x hex with elSize/4 digits per element (the convention pinned by TestValues); negative values' inferred sizes are recorded, not judged",
			"bits at or above the argument's declared size are not wires and are ignored",
		},
		Work:           work,
		Replay:         replay,
		QuickBudget:    60 * time.Second,
		ThoroughBudget: 15 * time.Minute,
	})
}
