// C16 — the garbler never reports a wrong result under message corruption.
package main

import (
	"encoding/json"
	"fmt"
	"math/big"
	"os"
	"strings"
	"time"

	"github.com/markkurossi/mpc/circuit"

	"verif/bitsim"
	"verif/circgen"
	"verif/mpcl"
	"verif/runner"
	"verif/sess"
)

type cs struct {
	Session int    `json:"session"`
	Dir     string `json:"dir"` // g2e | e2g | none
	Off     int    `json:"off"`
	Len     int    `json:"len"`  // burst length
	Mask    int    `json:"mask"` // XOR mask
}

type sessionDef struct {
	name   string
	circ   *circgen.Desc
	src    string
	stream bool
	g, e   string
	// es: the evaluator's input as a list (one per member of a struct argument); e is unused then
	es []string
	ot string
	// thorough: not part of the quick tier
	thorough bool
	// sizes: input sizes for unsized arguments (slices)
	sizes [][]int
	// allValues: in addition to the mask list, EVERY value of every printable byte among the first 256 bytes of
	// the garbler->evaluator stream (the program information: names and type strings) is tried (quick: every value
	// of the digit bytes, four masks on the other printable bytes)
	allValues bool
}

var sessions = []sessionDef{
	{name: "circ-mix/ideal", circ: &circgen.Desc{In: []int{2, 3}, Out: []int{1, 2}, Gates: []circgen.G{{2, 0, 2}, {3, 1, 3}, {4, 4, 0}, {0, 5, 6}, {1, 7, 4}, {2, 8, 1}}}, g: "2", e: "5", ot: "ideal"},
	{name: "circ-mix/co", circ: &circgen.Desc{In: []int{2, 3}, Out: []int{1, 2}, Gates: []circgen.G{{2, 0, 2}, {3, 1, 3}, {4, 4, 0}, {0, 5, 6}, {1, 7, 4}, {2, 8, 1}}}, g: "1", e: "6", ot: "co"},
	{name: "add8/ideal", src: "package main\nfunc main(a, b uint8) uint8 {\n\treturn a + b\n}\n", g: "200", e: "55", ot: "ideal"},
	{name: "xor12/ideal", src: "package main\nfunc main(a, b uint12) uint12 {\n\treturn a ^ b\n}\n", g: "3855", e: "240", ot: "ideal"},
	{name: "stream-add/ideal", stream: true, src: "package main\nfunc main(a, b uint8) uint8 {\n\treturn a + b\n}\n", g: "200", e: "55", ot: "ideal"},
	{name: "stream-if/ideal", stream: true, src: "package main\nfunc main(a, b uint4) (uint4, bool) {\n\tif a > b {\n\t\treturn a - b, true\n\t}\n\treturn b & a, false\n}\n", g: "9", e: "6", ot: "ideal"},
	// more than 64 output bits, all of them 1: a garbler that keeps per-output state in a machine word
	// one input bit reaches two outputs through XOR gates only: a corrupted input label shifts an even number of
	// returned labels by the same difference (free-XOR is linear)
	{name: "fanout-xor/ideal", src: "package main\nfunc main(a, b uint4) (uint4, uint4) {\n\treturn a ^ b, a\n}\n", g: "10", e: "3", ot: "ideal"},
	// streaming: the evaluator learns the layout of its own argument from the garbler's program information; a
	// compound (struct) or array argument has member sizes / an element type besides its total size
	{name: "stream-structarg/ideal", stream: true, src: "package main\ntype Args struct {\n\tb uint8\n\tc uint8\n}\nfunc main(a uint8, e Args) uint8 {\n\treturn a + e.b + (e.c << 1)\n}\n", g: "90", es: []string{"0x33", "0x11"}, ot: "ideal"},
	{name: "stream-arrayarg/ideal", stream: true, src: "package main\nfunc main(a uint8, e [2]uint8) uint8 {\n\treturn a + e[0] + (e[1] << 1)\n}\n", g: "90", e: "0x3311", ot: "ideal"},
	{name: "stream-slicearg/ideal", stream: true, allValues: true, sizes: [][]int{{8}, {32}}, src: "package main\nfunc main(a uint8, e []uint8) uint8 {\n\treturn a ^ e[0]\n}\n", g: "0", e: "0x01020304", ot: "ideal"},
	{name: "xor72/ideal", src: "package main\nfunc main(a, b uint72) uint72 {\n\treturn a ^ b\n}\n", g: "0", e: "0xffffffffffffffffff", ot: "ideal"},
	{name: "stream-or130/ideal", stream: true, thorough: true, src: "package main\nfunc main(a, b uint130) uint130 {\n\treturn a | b\n}\n", g: "1", e: "0x3fffffffffffffffffffffffffffffffe", ot: "ideal"},
	{name: "cmp9-2out/co", thorough: true, src: "package main\nfunc main(a int9, b int9) (int9, bool) {\n\tif a > b {\n\t\treturn a - b, true\n\t}\n\treturn b - a, false\n}\n", g: "300", e: "17", ot: "co"},
	{name: "stream-arr/co", stream: true, thorough: true, src: "package main\nfunc main(a [2]uint4, b uint4) uint4 {\n\treturn a[0] + a[1] + b\n}\n", g: "0x3c", e: "5", ot: "co"},
}

var circCache = map[int]*circuit.Circuit{}

func compiled(si int) *circuit.Circuit {
	if c, ok := circCache[si]; ok {
		return c
	}
	s := sessions[si]
	var c *circuit.Circuit
	if s.circ != nil {
		c = s.circ.Build()
	} else {
		var err error
		c, _, err, _ = mpcl.Compile(s.src, mpcl.Opts{}, s.sizes)
		if err != nil {
			panic("session program does not compile: " + err.Error())
		}
	}
	circCache[si] = c
	return c
}

func parseIn(s string) *big.Int {
	v, ok := new(big.Int).SetString(s, 0)
	if !ok {
		panic("bad input " + s)
	}
	return v
}

func runSession(si int, o sess.Opts) *sess.Result {
	s := sessions[si]
	o.OT = s.ot
	if s.stream {
		ein := []string{s.e}
		if s.es != nil {
			ein = s.es
		}
		return sess.RunStream(s.src, []string{s.g}, ein, s.sizes, o)
	}
	return sess.RunCircuit(compiled(si), parseIn(s.g), parseIn(s.e), o)
}

// expected outputs: plain evaluation of the compiled circuit
func expected(si int) []*big.Int {
	s := sessions[si]
	c := compiled(si)
	var gin, ein *big.Int
	if s.es != nil || (s.stream && strings.HasPrefix(s.e, "0x") && c.Inputs[1].Type.Type.Array()) {
		es := s.es
		if es == nil {
			es = []string{s.e}
		}
		v, err := c.Inputs[1].Parse(es)
		if err != nil {
			panic(err)
		}
		ein = v
	} else {
		ein = parseIn(s.e)
	}
	gin = parseIn(s.g)
	if s.stream && strings.HasPrefix(s.g, "0x") {
		// array literal: let the library's own parser lay it out, as the streamer does
		v, err := c.Inputs[0].Parse([]string{s.g})
		if err != nil {
			panic(err)
		}
		gin = v
	}
	n0, n1 := int(c.Inputs[0].Type.Bits), int(c.Inputs[1].Type.Bits)
	in := make([]bool, n0+n1)
	for i := 0; i < n0; i++ {
		in[i] = gin.Bit(i) == 1
	}
	for i := 0; i < n1; i++ {
		in[n0+i] = ein.Bit(i) == 1
	}
	w, err := bitsim.Eval(c, in)
	if err != nil {
		panic(err)
	}
	return bitsim.Outputs(c, w)
}

func runCase(ctx *runner.Ctx, k cs) {
	ctx.Eval(1)
	s := sessions[k.Session]
	o := sess.Opts{Seed: 7}
	// digitToDigit: a single-byte corruption that turns one ASCII digit into another (a width inside a type string)
	digitToDigit := false
	isDigit := func(c byte) bool { return c >= '0' && c <= '9' }
	if k.Dir != "none" {
		o.Corrupt = func(dir string, off int64, p []byte) {
			if dir != k.Dir {
				return
			}
			for i := 0; i < k.Len; i++ {
				pos := int64(k.Off+i) - off
				if pos >= 0 && pos < int64(len(p)) {
					if k.Len == 1 && isDigit(p[pos]) && isDigit(p[pos]^byte(k.Mask)) {
						digitToDigit = true
					}
					p[pos] ^= byte(k.Mask)
				}
			}
		}
	}
	r := runSession(k.Session, o)
	if r.Outcome == "stuck" {
		panic("harness: " + r.Detail)
	}
	want := expected(k.Session)
	mode := "whole-circuit"
	if s.stream {
		mode = "streaming"
	}
	garblerOK := r.GErr == nil && r.Outcome == "ok"
	// the garbler's verdict: did it return normally?
	if r.GErr == nil && len(r.GOut) > 0 {
		// returned a result as if the run had succeeded
		same := len(r.GOut) == len(want)
		for i := 0; same && i < len(want); i++ {
			same = r.GOut[i].Cmp(want[i]) == 0
		}
		if !same {
			key := fmt.Sprintf("wrong-result.%s.%s", mode, k.Dir)
			if digitToDigit && s.stream && k.Dir == "g2e" && k.Off < 256 {
				key += ".type-width-digit"
			}
			ctx.Violate(key,
				fmt.Sprintf("garbler returned %v without error; correct is %v (session %s, %s byte %d len %d xor %#x; evaluator err=%v, scheduler outcome %s)", r.GOut, want, s.name, k.Dir, k.Off, k.Len, k.Mask, r.EErr, r.Outcome), k)
			return
		}
	}
	if k.Dir == "none" {
		if !garblerOK || r.EErr != nil {
			ctx.Violate("uncorrupted-session-fails."+mode, fmt.Sprintf("session %s fails without any corruption: outcome=%s garbler=%v evaluator=%v", s.name, r.Outcome, r.GErr, r.EErr), k)
			return
		}
		ctx.Outcome("uncorrupted-ok")
		return
	}
	ctx.NontrivialN(1)
	switch {
	case r.GErr != nil && strings.HasPrefix(r.GErr.Error(), "PANIC"):
		ctx.Outcome("garbler-panic(recorded)")
	case r.GErr != nil:
		ctx.Outcome("garbler-error")
	case r.Outcome == "deadlock":
		ctx.Outcome("stall")
	case r.Outcome != "ok":
		ctx.Outcome("aborted/" + r.Outcome)
	default:
		ev := "evaluator-ok"
		if r.EErr != nil {
			ev = "evaluator-error"
		} else if len(r.EOut) == len(want) {
			for i := range want {
				if r.EOut[i].Cmp(want[i]) != 0 {
					ev = "evaluator-wrong(recorded)"
				}
			}
		}
		ctx.Outcome("correct-result/" + ev)
	}
}

func work(ctx *runner.Ctx) {
	mpcl.Quiet()
	quick := ctx.Quick()
	nsess := len(sessions)
	var cases []any
	for si := 0; si < nsess; si++ {
		if quick && sessions[si].thorough {
			continue
		}
		if only := os.Getenv("VERIF_C16_ONLY"); only != "" && !strings.HasPrefix(sessions[si].name, only) {
			continue // development aid: one session's cases only (the evidence then says so through its case count)
		}
		r := runSession(si, sess.Opts{Seed: 7, Record: true})
		if r.Outcome != "ok" || r.GErr != nil || r.EErr != nil {
			if ctx.Shard == 0 {
				ctx.Violate("uncorrupted-session-fails", fmt.Sprintf("session %s: outcome=%s garbler=%v evaluator=%v", sessions[si].name, r.Outcome, r.GErr, r.EErr), cs{Session: si, Dir: "none"})
			}
			continue
		}
		if ctx.Shard == 0 {
			ctx.Note(fmt.Sprintf("session %s: %d bytes garbler->evaluator, %d bytes evaluator->garbler, every byte corrupted", sessions[si].name, len(r.G2E), len(r.E2G)))
		}
		cases = append(cases, cs{Session: si, Dir: "none"})
		type mut struct{ l, m int }
		muts := []mut{{1, 0x01}, {1, 0x80}, {1, 0xff}, {2, 0xff}, {16, 0xff}, {32, 0xff}}
		if !quick {
			muts = []mut{{1, 0x01}, {1, 0x02}, {1, 0x04}, {1, 0x08}, {1, 0x10}, {1, 0x20}, {1, 0x40}, {1, 0x80}, {1, 0xff}, {2, 0xff}, {4, 0xff}, {16, 0xff}, {17, 0x55}, {32, 0xff}, {32, 0x80}, {48, 0xff}}
		}
		if sessions[si].allValues {
			for off := 0; off < len(r.G2E) && off < 256; off++ {
				if c := r.G2E[off]; c < 0x20 || c > 0x7e {
					continue
				}
				digit := r.G2E[off] >= '0' && r.G2E[off] <= '9'
				for m := 1; m < 256; m++ {
					if m == 0x01 || m == 0x80 || m == 0xff {
						continue // in the mask list
					}
					// quick: every value of the digits (widths and counts inside type strings), four masks elsewhere
					if quick && !digit && m != 0x20 && m != 0x0c && m != 0x0a && m != 0x09 {
						continue
					}
					cases = append(cases, cs{Session: si, Dir: "g2e", Off: off, Len: 1, Mask: m})
				}
			}
		}
		for dir, n := range map[string]int{"g2e": len(r.G2E), "e2g": len(r.E2G)} {
			for off := 0; off < n; off++ {
				for _, m := range muts {
					cases = append(cases, cs{Session: si, Dir: dir, Off: off, Len: m.l, Mask: m.m})
				}
			}
		}
	}
	if ctx.Shard == 0 {
		ctx.Note(fmt.Sprintf("case list: %d corrupted sessions", len(cases)))
	}
	// my share, in batches run in memory-capped child processes (a corrupted length field may ask for gigabytes)
	var mine []any
	for i, c := range cases {
		if ctx.Mine(i) {
			mine = append(mine, c)
		}
	}
	const batch = 400
	for i := 0; i < len(mine); i += batch {
		if ctx.Expired() {
			return
		}
		end := i + batch
		if end > len(mine) {
			end = len(mine)
		}
		ctx.RunBatchIsolated(mine[i:end], 120*time.Second, func(c any, tail string) {
			// the process running both parties died (e.g. allocation of a corrupted length): the session is aborted
			ctx.Eval(1)
			ctx.NontrivialN(1)
			ctx.Outcome("aborted/process-death")
			ctx.Note("process death on " + fmt.Sprint(c) + ": " + firstLine(tail))
		})
		if i == 0 && len(mine) > 0 {
			ctx.Sample(mine[len(mine)/2])
		}
	}
}

func firstLine(s string) string {
	if i := strings.Index(s, "\n"); i > 0 {
		return s[:i]
	}
	return s
}

func replay(ctx *runner.Ctx, raw json.RawMessage) {
	var k cs
	if err := json.Unmarshal(raw, &k); err != nil {
		panic(err)
	}
	mpcl.Quiet()
	runCase(ctx, k)
}

func main() {
	runner.Main(runner.Spec{
		ID:    "C16",
		Level: "fault_enumeration",
		Rule: "6 (thorough 8) recorded sessions of the real code - whole-circuit (circuit.Garbler/Evaluator) and streaming (Compiler.Stream/StreamEvaluator), OT = ideal and Chou-Orlandi - are re-run once for EVERY byte position of BOTH directions' transcripts with that byte XORed by 0x01, 0x80 and 0xFF and with 2- and 16-byte bursts (thorough: every single bit, 0xFF and bursts of 2, 4, 16, 17 bytes), under the deterministic schedule of the cooperative scheduler so that 'stalls' is an exact deadlock verdict; runs happen in memory-capped child processes. Oracle: the garbler returns an error, or the session stalls/aborts, or the garbler's result equals the plain evaluation; a result without error that differs is the violation. " +
			"distinct_nontrivial = distinct (session, direction, offset, burst, mask) corruptions executed",
		Assumptions: []string{
			"the evaluator's own result after corruption is recorded, not judged (the property protects the garbler's verdict)",
			"a process death caused by a corrupted length field counts as 'aborted'",
		},
		Work:           work,
		Replay:         replay,
		QuickBudget:    80 * time.Second,
		ThoroughBudget: 20 * time.Minute,
	})
}
