//go:build !verifgeneric

package main

import "github.com/markkurossi/mpc/ot"

var haveGeneric = false

func setGeneric(on bool) {}

func mul128Impl(generic bool, a, b ot.Label) (ot.Label, ot.Label) { return ot.Label{}, ot.Label{} }
