// C15 — malicious-mode OT extension detects a deviating receiver.
package main

import (
	"crypto/aes"
	"crypto/cipher"
	"crypto/sha256"
	"encoding/json"
	"fmt"
	"strings"
	"sync"
	"time"

	"github.com/markkurossi/mpc/ot"

	"verif/drbg"
	"verif/idealot"
	"verif/memio"
	"verif/runner"
)

// Fault addresses bits of the receiver's messages.
type Fault struct {
	Kind  string `json:"kind"`  // single pair-row pair-col col row len resp honest
	Batch string `json:"batch"` // payload | check | resp
	Chunk int    `json:"chunk"` // chunk index within the batch
	Col   int    `json:"col"`
	Row   int    `json:"row"` // row within the chunk
	Col2  int    `json:"col2"`
	Row2  int    `json:"row2"`
	Arg   int    `json:"arg"` // resp: label index (0 seed2,1 x,2 t0,3 t1); len: +1/-1 byte rows
	// pair-x: a second flip in the same column at (Batch2, Chunk2, Row2): two rows of different chunks or batches
	Batch2 string `json:"batch2,omitempty"`
	Chunk2 int    `json:"chunk2,omitempty"`
}

type cs struct {
	N       int    `json:"n"`
	Choices string `json:"choices"` // zero one alt
	Seed    uint64 `json:"seed"`
	DeltaC  bool   `json:"delta_complement"`
	F       Fault  `json:"fault"`
	// Generic: run with the portable carry-less multiplier instead of the build's own (needs prep/c15.sh's overlay)
	Generic bool `json:"generic,omitempty"`
	// Mul: operands (a.D0, a.D1, b.D0, b.D1) of a direct multiplier comparison (fault kind "mul128")
	Mul *[4]uint64 `json:"mul,omitempty"`
}

// clmulRef is the harness's own 128x128 -> 256 bit carry-less product (shift and xor on four words; bit i of a label is Label.Bit(i), i.e. D0 is the LOW word).
func clmulRef(a, b ot.Label) (lo, hi ot.Label) {
	var r [4]uint64 // little-endian words
	bw := [2]uint64{b.D0, b.D1}
	aw := [2]uint64{a.D0, a.D1}
	for i := 0; i < 128; i++ {
		if aw[i/64]>>(uint(i)%64)&1 == 0 {
			continue
		}
		w, s := i/64, uint(i)%64
		for j := 0; j < 2; j++ {
			r[w+j] ^= bw[j] << s
			if s != 0 {
				r[w+j+1] ^= bw[j] >> (64 - s)
			}
		}
	}
	return ot.Label{D0: r[0], D1: r[1]}, ot.Label{D0: r[2], D1: r[3]}
}

// checkSeed is the harness's own derivation of the seed of the challenge coefficients from a message list: the
// receiver's seed label, bound to the matrices if the implementation binds it (SHA-256 over all matrix chunks in order,
// then the seed; first 16 bytes) - which of the two the implementation does is learnt once from an honest run.
func checkSeed(msgs []memio.Msg, s *session) ot.Label {
	var seed2 ot.Label
	seed2.SetBytes(msgs[s.resp].Data)
	if bindMode == "none" {
		return seed2
	}
	h := sha256.New()
	if bindMode == "all" || bindMode == "payload" {
		for _, i := range s.payload {
			h.Write(msgs[i].Data)
		}
	}
	if bindMode == "all" || bindMode == "check" {
		for _, i := range s.check {
			h.Write(msgs[i].Data)
		}
	}
	h.Write(msgs[s.resp].Data)
	var bound ot.Label
	bound.SetBytes(h.Sum(nil)[:16])
	return bound
}

var (
	bindMode     = "all"
	bindingKnown bool
)

// learnBinding: which part of the transcript the implementation binds the coefficients to - all matrices ("all"),
// nothing ("none"), only the check batch ("check") or only the payload batch ("payload"). The derivation is public
// (an attacker knows the code); the harness learns it from behaviour: the adaptive alteration is accepted exactly
// under the right derivation.
func learnBinding() {
	if bindingKnown {
		return
	}
	bindingKnown = true
	for _, mode := range []string{"all", "none", "check", "payload"} {
		bindMode = mode
		for _, dc := range []bool{false, true} {
			k := cs{N: 9, Choices: "alt", Seed: 424242, DeltaC: dc, F: Fault{Kind: "adaptive", Batch: "payload", Col: 5, Row: 3}}
			if probeAccepted(k) {
				return
			}
		}
	}
	bindMode = "none"
}

// chiLabel is the harness's own derivation of the i-th challenge coefficient: block i of the AES-CTR key stream
// (zero IV) keyed by the receiver's check seed.
func chiLabel(seed ot.Label, i int) ot.Label {
	var ld ot.LabelData
	block, err := aes.NewCipher(seed.Bytes(&ld))
	if err != nil {
		panic(err)
	}
	var iv [16]byte
	st := cipher.NewCTR(block, iv[:])
	buf := make([]byte, 16*(i+1))
	st.XORKeyStream(buf, buf)
	var l ot.Label
	l.SetBytes(buf[16*i:])
	return l
}

// solveXor finds a subset of vs whose xor is target (Gaussian elimination over GF(2) on 128-bit vectors).
func solveXor(vs []ot.Label, target ot.Label) ([]int, bool) {
	type row struct {
		v    ot.Label
		comb [4]uint64 // which of the (up to 256) vectors are combined
	}
	var piv [128]*row
	bit := func(l ot.Label, i int) bool { return l.Bit(i) == 1 }
	reduce := func(r *row) int {
		for i := 127; i >= 0; i-- {
			if !bit(r.v, i) {
				continue
			}
			if piv[i] == nil {
				return i
			}
			r.v.Xor(piv[i].v)
			for w := range r.comb {
				r.comb[w] ^= piv[i].comb[w]
			}
		}
		return -1
	}
	for j, v := range vs {
		r := &row{v: v}
		r.comb[j/64] |= 1 << uint(j%64)
		if p := reduce(r); p >= 0 {
			piv[p] = r
		}
	}
	t := &row{v: target}
	if reduce(t) >= 0 {
		return nil, false
	}
	var set []int
	for j := range vs {
		if t.comb[j/64]>>uint(j%64)&1 == 1 {
			set = append(set, j)
		}
	}
	return set, true
}

func runMul(ctx *runner.Ctx, k cs) {
	ctx.Eval(1)
	a := ot.Label{D0: k.Mul[0], D1: k.Mul[1]}
	b := ot.Label{D0: k.Mul[2], D1: k.Mul[3]}
	wl, wh := clmulRef(a, b)
	for _, g := range []bool{false, true} {
		lo, hi := mul128Impl(g, a, b)
		name := "asm"
		if g {
			name = "generic"
		}
		if !lo.Equal(wl) || !hi.Equal(wh) {
			ctx.Violate("mul128."+name, fmt.Sprintf("mul128 (%s) of %v x %v = %v:%v, carry-less product is %v:%v", name, a, b, hi, lo, wh, wl), k)
			return
		}
	}
	ctx.Outcome("mul128-equal")
}

type session struct {
	msgs    []memio.Msg
	recv    []ot.Label
	flags   []bool
	payload []int // message indices of payload chunks
	check   []int
	resp    int // index of seed2; x,t0,t1 follow
	// chiSeed: the key of the last PRG the honest receiver created in this session = the seed of the challenge
	// coefficients of the HONEST run as the code under test derives it (observed through the overlay's newPrg wrapper;
	// nil without the overlay). Whoever alters the matrices in transit knows the code and can compute it.
	chiSeed *ot.Label
}

// knownSeed: the coefficients' seed as it can be known BEFORE an alteration is chosen: observed from the honest run
// when the overlay provides the hook, else the harness's own derivation from the unaltered transcript.
func knownSeed(s *session) ot.Label {
	if s.chiSeed != nil {
		return *s.chiSeed
	}
	return checkSeed(s.msgs, s)
}

var (
	sessMu sync.Mutex
	sess   = map[string]*session{}
)

func flagsFor(p string, n int) []bool {
	f := make([]bool, n)
	for i := range f {
		switch p {
		case "one":
			f[i] = true
		case "alt":
			f[i] = i%2 == 0
		}
	}
	return f
}

// getSession runs the honest receiver once and records its messages.
func getSession(n int, choices string, seed uint64, generic bool) *session {
	key := fmt.Sprintf("%d/%s/%d/%v", n, choices, seed, generic)
	sessMu.Lock()
	defer sessMu.Unlock()
	if s, ok := sess[key]; ok {
		return s
	}
	a, b := memio.NewPair()
	_ = a
	s := &session{flags: flagsFor(choices, n), recv: make([]ot.Label, n)}
	rd := drbg.New(seed*2 + 2)
	base := idealot.New()
	if err := base.InitReceiver(b); err != nil {
		panic(err)
	}
	r, err := ot.NewIKNPReceiver(base, b, rd)
	if err != nil {
		panic(err)
	}
	var last *ot.Label
	setPrgHook(func(k ot.Label) { kk := k; last = &kk })
	err = r.Receive(s.flags, s.recv, true)
	setPrgHook(nil)
	if err != nil {
		panic(err)
	}
	s.chiSeed = last
	s.msgs = b.Sent
	// classify messages: 256 base labels, then data chunks, then 4 labels
	rows := 0
	for i, m := range s.msgs {
		if m.Kind != 'd' {
			continue
		}
		if rows < n {
			s.payload = append(s.payload, i)
			rows += len(m.Data) / 128 * 8
		} else {
			s.check = append(s.check, i)
		}
	}
	s.resp = len(s.msgs) - 4
	sess[key] = s
	return s
}

func delta(seed uint64, complement bool) ot.Label {
	d, _ := ot.NewLabel(drbg.New(seed*2 + 1))
	if complement {
		d.D0, d.D1 = ^d.D0, ^d.D1
	}
	return d
}

func flipBit(data []byte, byteRows, col, row int) bool {
	idx := col*byteRows + row/8
	if idx >= len(data) || row/8 >= byteRows {
		return false
	}
	data[idx] ^= 1 << (row % 8)
	return true
}

// probeAccepted applies the adaptive alteration of k and reports whether the sender finished without error.
func probeAccepted(k cs) bool {
	s := getSession(k.N, k.Choices, k.Seed, false)
	msgs := make([]memio.Msg, len(s.msgs))
	copy(msgs, s.msgs)
	d := append([]byte(nil), msgs[s.payload[0]].Data...)
	msgs[s.payload[0]].Data = d
	flipBit(d, len(d)/128, k.F.Col, k.F.Row)
	chi := chiLabel(checkSeed(msgs, s), k.F.Row)
	var xc ot.Label
	xc.SetBit(k.F.Col, 1)
	lo, hi := clmulRef(chi, xc)
	for i, l := range []ot.Label{lo, hi} {
		var t ot.Label
		t.SetBytes(msgs[s.resp+2+i].Data)
		t.Xor(l)
		var ld ot.LabelData
		msgs[s.resp+2+i].Data = append([]byte(nil), t.Bytes(&ld)...)
	}
	a, b := memio.NewPair()
	b.Close()
	a.Inject(msgs)
	base := idealot.New()
	base.InitSender(a)
	dl := delta(k.Seed, k.DeltaC)
	err := func() (err error) {
		defer func() {
			if r := recover(); r != nil {
				err = fmt.Errorf("panic: %v", r)
			}
		}()
		snd, err := ot.NewIKNPSender(base, a, drbg.New(k.Seed*2+1), &dl)
		if err == nil {
			_, err = snd.Send(k.N, true)
		}
		return err
	}()
	return err == nil
}

func runCase(ctx *runner.Ctx, k cs) {
	learnBinding()
	if k.Mul != nil {
		if haveGeneric {
			runMul(ctx, k)
		}
		return
	}
	if k.Generic {
		if !haveGeneric {
			return
		}
		setGeneric(true)
		defer setGeneric(false)
	}
	ctx.Eval(1)
	s := getSession(k.N, k.Choices, k.Seed, k.Generic && haveGeneric)
	msgs := make([]memio.Msg, len(s.msgs))
	copy(msgs, s.msgs)
	mut := func(i int) []byte {
		d := append([]byte(nil), msgs[i].Data...)
		msgs[i].Data = d
		return d
	}
	f := k.F
	var list []int
	if f.Batch == "payload" {
		list = s.payload
	} else if f.Batch == "check" {
		list = s.check
	}
	applied := true
	switch f.Kind {
	case "honest":
	case "resp":
		d := mut(s.resp + f.Arg)
		d[f.Col/8] ^= 1 << (f.Col % 8)
	case "single", "pair-row", "pair-col":
		if f.Chunk >= len(list) {
			return
		}
		d := mut(list[f.Chunk])
		br := len(d) / 128
		applied = flipBit(d, br, f.Col, f.Row)
		if f.Kind == "pair-row" {
			applied = flipBit(d, br, f.Col2, f.Row) && applied
		}
		if f.Kind == "pair-col" {
			applied = flipBit(d, br, f.Col, f.Row2) && applied
		}
	case "adaptive":
		// a flip of payload bit (col,row) together with the matching change of the response: the coefficient of
		// the row is derived from the check seed, which travels in clear before the response; t ^= chi[row]*X^col
		if f.Chunk >= len(list) || k.N > 1024 {
			return
		}
		d := mut(list[f.Chunk])
		applied = flipBit(d, len(d)/128, f.Col, f.Row)
		// the coefficients the sender will use: derived from the check seed and the matrices AS ALTERED (all public)
		seed2 := checkSeed(msgs, s)
		chi := chiLabel(seed2, f.Chunk*512+f.Row)
		var xc ot.Label
		xc.SetBit(f.Col, 1)
		lo, hi := clmulRef(chi, xc)
		for i, l := range []ot.Label{lo, hi} {
			var t ot.Label
			t.SetBytes(mut(s.resp + 2 + i))
			t.Xor(l)
			var ld ot.LabelData
			copy(msgs[s.resp+2+i].Data, t.Bytes(&ld))
		}
	case "kernel":
		// matrix-only alteration chosen with knowledge of the challenge coefficients (the check seed is the
		// receiver's and travels before the response, so whoever alters the matrix can know them): payload bit
		// (col,row) and the same column in a set S of check-batch rows with xor_{s in S} chi[n+s] = chi[row]; the
		// altered rows cancel in the sender's check whatever Delta is
		if len(s.payload) != 1 || len(s.check) != 1 || k.N > 1024 {
			return
		}
		// the coefficients as they can be known BEFORE the alteration is chosen (from the unaltered transcript)
		seed2 := knownSeed(s)
		target := chiLabel(seed2, f.Row)
		var basis []ot.Label
		for j := 0; j < 256; j++ {
			basis = append(basis, chiLabel(seed2, k.N+j))
		}
		set, ok := solveXor(basis, target)
		if !ok {
			return
		}
		d := mut(s.payload[0])
		applied = flipBit(d, len(d)/128, f.Col, f.Row)
		dc := mut(s.check[0])
		for _, j := range set {
			applied = flipBit(dc, len(dc)/128, f.Col, j) && applied
		}
	case "kernel-payload":
		// matrix-only alteration INSIDE the payload batch: bit (col,row) and the same column in a set S of other
		// payload rows with xor_{s in S} chi[s] = chi[row] (needs > 128 payload rows). If the coefficients do not
		// depend on the payload matrix the altered rows cancel in the sender's check whatever Delta is.
		if len(s.payload) != 1 || k.N > 256 || k.N < 130 {
			return
		}
		seed2 := knownSeed(s)
		target := chiLabel(seed2, f.Row)
		var basis []ot.Label
		var rows []int
		for j := 0; j < k.N; j++ {
			if j != f.Row {
				basis = append(basis, chiLabel(seed2, j))
				rows = append(rows, j)
			}
		}
		set, ok := solveXor(basis, target)
		if !ok {
			return
		}
		d := mut(s.payload[0])
		applied = flipBit(d, len(d)/128, f.Col, f.Row)
		for _, j := range set {
			applied = flipBit(d, len(d)/128, f.Col, rows[j]) && applied
		}
	case "pair-x":
		list2 := s.payload
		if f.Batch2 == "check" {
			list2 = s.check
		}
		if f.Chunk >= len(list) || f.Chunk2 >= len(list2) {
			return
		}
		d := mut(list[f.Chunk])
		applied = flipBit(d, len(d)/128, f.Col, f.Row)
		d2 := d
		if list2[f.Chunk2] != list[f.Chunk] {
			d2 = mut(list2[f.Chunk2])
		}
		applied = flipBit(d2, len(d2)/128, f.Col, f.Row2) && applied
	case "col":
		if f.Chunk >= len(list) {
			return
		}
		d := mut(list[f.Chunk])
		br := len(d) / 128
		for r := 0; r < br*8; r++ {
			flipBit(d, br, f.Col, r)
		}
	case "row":
		if f.Chunk >= len(list) {
			return
		}
		d := mut(list[f.Chunk])
		br := len(d) / 128
		for c := 0; c < 128; c++ {
			applied = flipBit(d, br, c, f.Row) && applied
		}
	case "len":
		if f.Chunk >= len(list) {
			return
		}
		i := list[f.Chunk]
		d := mut(i)
		if f.Arg > 0 {
			msgs[i].Data = append(d, make([]byte, 128)...)
		} else if len(d) > 128 {
			msgs[i].Data = d[:len(d)-128]
		} else {
			return
		}
	}
	if !applied {
		return
	}

	a, b := memio.NewPair()
	b.Close()
	a.Inject(msgs)
	base := idealot.New()
	base.InitSender(a)
	d := delta(k.Seed, k.DeltaC)
	var sent []ot.Label
	var err error
	func() {
		defer func() {
			if r := recover(); r != nil {
				err = fmt.Errorf("panic: %v", r)
			}
		}()
		var snd *ot.IKNPSender
		snd, err = ot.NewIKNPSender(base, a, drbg.New(k.Seed*2+1), &d)
		if err == nil {
			sent, err = snd.Send(k.N, true)
		}
	}()
	selected := f.Col >= 0 && f.Col < 128 && d.Bit(f.Col) == 1
	cls := fmt.Sprintf("%s/%s/sel=%v/chunk=%d/rowblock=%v", f.Kind, f.Batch, selected, f.Chunk, (f.Chunk*512+f.Row)%1024 >= 512)
	if f.Kind == "pair-x" {
		cls += fmt.Sprintf("/%s/chunk2=%d/same-row-mod-256=%v", f.Batch2, f.Chunk2, f.Row%256 == f.Row2%256)
	}
	if k.Generic {
		cls = "generic-mul128/" + cls
	}
	if f.Kind == "honest" {
		ctx.Nontrivial(fmt.Sprintf("honest/%d/%s/%v/generic=%v", k.N, k.Choices, k.DeltaC, k.Generic))
		if err != nil {
			ctx.Violate("honest-abort", fmt.Sprintf("honest execution aborted: %v (n=%d choices=%s)", err, k.N, k.Choices), k)
			return
		}
	}
	if err != nil && strings.HasPrefix(err.Error(), "panic: ") {
		// the statement lets the sender abort WITH AN ERROR; a crash of the sending process is not that
		ctx.Violate("sender-panic."+f.Kind+"."+f.Batch, fmt.Sprintf("the sender crashed instead of returning an error: %v (n=%d, fault %+v)", err, k.N, f), k)
		return
	}
	if err != nil {
		ctx.Outcome("abort/" + f.Kind + "/" + f.Batch)
		ctx.Nontrivial(cls + fmt.Sprintf("/n=%d", k.N))
		return
	}
	if len(sent) != k.N {
		ctx.Violate("count", fmt.Sprintf("sender returned %d labels for n=%d", len(sent), k.N), k)
		return
	}
	for j := 0; j < k.N; j++ {
		want := sent[j]
		if s.flags[j] {
			want.Xor(d)
		}
		if !s.recv[j].Equal(want) {
			kind := f.Kind
			if kind == "adaptive" || kind == "kernel" || kind == "kernel-payload" {
				kind = fmt.Sprintf("%s-selected=%v", kind, selected)
			}
			ctx.Violate("silent-accept."+kind+"."+f.Batch, fmt.Sprintf("sender accepted without error but position %d no longer satisfies recv=sent^b*Delta (n=%d, fault %+v, column selected by Delta: %v)", j, k.N, f, selected), k)
			return
		}
	}
	if f.Kind == "resp" && f.Arg >= 1 && (d.D0 != 0 || d.D1 != 0) {
		// x, t0 or t1 of the challenge response was altered and nothing else: the sender's equation q = t ^ x*Delta is
		// an equality of 256-bit values of which exactly one side changed (x*Delta changes with x because Delta != 0 and
		// carry-less multiplication has no zero divisors), so it cannot hold; accepting means that part of the response
		// is not compared (seed C15-10). An altered seed2 (Arg 0) is left to the correlation oracle.
		ctx.Violate("silent-accept.resp-not-compared", fmt.Sprintf("sender accepted an altered challenge response (label %d of seed2/x/t0/t1, bit %d): the check equation cannot hold, that part of the response is not compared (n=%d)", f.Arg, f.Col, k.N), k)
		return
	}
	if f.Kind == "honest" {
		ctx.Outcome("honest-ok")
	} else {
		ctx.Outcome("accepted-consistent/" + f.Kind + "/" + f.Batch + fmt.Sprintf("/sel=%v", selected))
		ctx.Nontrivial(cls + fmt.Sprintf("/n=%d", k.N))
	}
}

func work(ctx *runner.Ctx) {
	seed := uint64(ctx.Seed)
	idx := 0
	emit := func(k cs) bool {
		idx++
		if !ctx.Mine(idx) {
			return true
		}
		if ctx.Expired() {
			return false
		}
		runCase(ctx, k)
		if idx%100003 == 0 {
			ctx.Sample(k)
		}
		return true
	}
	// honest executions never abort
	maxHonest := 300
	if !ctx.Quick() {
		maxHonest = 700
	}
	hs := []int{}
	for n := 1; n <= maxHonest; n++ {
		hs = append(hs, n)
	}
	hs = append(hs, 511, 512, 513, 1023, 1024, 1025, 1535, 1536, 1537, 2047, 2048, 2049)
	for _, n := range hs {
		for _, ch := range []string{"zero", "one", "alt"} {
			if !emit(cs{N: n, Choices: ch, Seed: seed, F: Fault{Kind: "honest"}}) {
				return
			}
		}
	}
	small := []int{1, 2, 7, 8, 9, 63, 64, 65, 128, 130}
	if ctx.Quick() {
		small = []int{1, 9, 64}
	}
	choices := []string{"zero", "one", "alt"}
	for _, n := range small {
		for _, ch := range choices {
			for _, dc := range []bool{false, true} {
				if ctx.Quick() && ch == "one" {
					continue
				}
				rows := (n + 7) / 8 * 8
				// every (column,row) of the payload batch
				for c := 0; c < 128; c++ {
					for r := 0; r < rows; r++ {
						if !emit(cs{N: n, Choices: ch, Seed: seed, DeltaC: dc, F: Fault{Kind: "single", Batch: "payload", Col: c, Row: r}}) {
							return
						}
					}
				}
				// every (column,row) of the 256-row check batch
				if n == small[0] || !ctx.Quick() {
					for c := 0; c < 128; c++ {
						for r := 0; r < 256; r++ {
							if !emit(cs{N: n, Choices: ch, Seed: seed, DeltaC: dc, F: Fault{Kind: "single", Batch: "check", Col: c, Row: r}}) {
								return
							}
						}
					}
				}
				// pairs within a row / a column (first 16)
				for a := 0; a < 16; a++ {
					for b := a + 1; b < 16; b++ {
						for x := 0; x < 16 && x < rows; x++ {
							if !emit(cs{N: n, Choices: ch, Seed: seed, DeltaC: dc, F: Fault{Kind: "pair-row", Batch: "payload", Col: a, Col2: b, Row: x}}) {
								return
							}
						}
						if b < rows {
							for c := 0; c < 16; c++ {
								if !emit(cs{N: n, Choices: ch, Seed: seed, DeltaC: dc, F: Fault{Kind: "pair-col", Batch: "payload", Col: c, Row: a, Row2: b}}) {
									return
								}
							}
						}
					}
				}
				for _, batch := range []string{"payload", "check"} {
					for c := 0; c < 128; c++ {
						if !emit(cs{N: n, Choices: ch, Seed: seed, DeltaC: dc, F: Fault{Kind: "col", Batch: batch, Col: c}}) {
							return
						}
					}
					for r := 0; r < rows || (batch == "check" && r < 256); r++ {
						if !emit(cs{N: n, Choices: ch, Seed: seed, DeltaC: dc, F: Fault{Kind: "row", Batch: batch, Row: r, Col: -1}}) {
							return
						}
					}
					for _, arg := range []int{1, -1} {
						if !emit(cs{N: n, Choices: ch, Seed: seed, DeltaC: dc, F: Fault{Kind: "len", Batch: batch, Arg: arg, Col: -1}}) {
							return
						}
					}
				}
				for l := 0; l < 4; l++ {
					for bit := 0; bit < 128; bit++ {
						if !emit(cs{N: n, Choices: ch, Seed: seed, DeltaC: dc, F: Fault{Kind: "resp", Batch: "resp", Arg: l, Col: bit}}) {
							return
						}
					}
				}
			}
		}
	}
	// both carry-less multipliers: direct comparison with the harness's own product on every pair of a boundary
	// alphabet (every single bit, dense patterns, word-boundary patterns, DRBG values), then the fault families again
	// with the portable multiplier selected on both sides
	if haveGeneric {
		var alpha []ot.Label
		for i := 0; i < 128; i++ {
			var l ot.Label
			l.SetBit(i, 1)
			alpha = append(alpha, l)
		}
		ones := ^uint64(0)
		alpha = append(alpha, ot.Label{}, ot.Label{D0: ones, D1: ones}, ot.Label{D0: ones}, ot.Label{D1: ones},
			ot.Label{D0: 0x5555555555555555, D1: 0x5555555555555555}, ot.Label{D0: 0xAAAAAAAAAAAAAAAA, D1: 0xAAAAAAAAAAAAAAAA},
			ot.Label{D0: 1, D1: 1 << 63}, ot.Label{D0: 1 << 63, D1: 1}, ot.Label{D0: 0xFFFFFFFF, D1: 0xFFFFFFFF00000000},
			ot.Label{D0: 0x8000000000000000, D1: 0x8000000000000000}, ot.Label{D0: 0x0123456789abcdef, D1: 0xfedcba9876543210})
		rd := drbg.New(seed*2 + 77)
		for i := 0; i < 12; i++ {
			l, _ := ot.NewLabel(rd)
			alpha = append(alpha, l)
		}
		for _, a := range alpha {
			for _, b := range alpha {
				if !emit(cs{Seed: seed, F: Fault{Kind: "mul128"}, Mul: &[4]uint64{a.D0, a.D1, b.D0, b.D1}}) {
					return
				}
			}
		}
		gh := []int{}
		for n := 1; n <= 130; n++ {
			gh = append(gh, n)
		}
		gh = append(gh, 511, 512, 513, 1025)
		for _, n := range gh {
			for _, ch := range []string{"zero", "one", "alt"} {
				if !emit(cs{N: n, Choices: ch, Seed: seed, Generic: true, F: Fault{Kind: "honest"}}) {
					return
				}
			}
		}
		gn := []int{9, 64, 130}
		if ctx.Quick() {
			gn = []int{9}
		}
		for _, n := range gn {
			for _, dc := range []bool{false, true} {
				rows := (n + 7) / 8 * 8
				for c := 0; c < 128; c++ {
					for r := 0; r < rows; r++ {
						if !emit(cs{N: n, Choices: "alt", Seed: seed, DeltaC: dc, Generic: true, F: Fault{Kind: "single", Batch: "payload", Col: c, Row: r}}) {
							return
						}
					}
					for r := 0; r < 256; r++ {
						if ctx.Quick() && r%8 != c%8 {
							continue
						}
						if !emit(cs{N: n, Choices: "alt", Seed: seed, DeltaC: dc, Generic: true, F: Fault{Kind: "single", Batch: "check", Col: c, Row: r}}) {
							return
						}
					}
					for _, batch := range []string{"payload", "check"} {
						if !emit(cs{N: n, Choices: "alt", Seed: seed, DeltaC: dc, Generic: true, F: Fault{Kind: "col", Batch: batch, Col: c}}) {
							return
						}
					}
				}
				for l := 0; l < 4; l++ {
					for bit := 0; bit < 128; bit++ {
						if !emit(cs{N: n, Choices: "alt", Seed: seed, DeltaC: dc, Generic: true, F: Fault{Kind: "resp", Batch: "resp", Arg: l, Col: bit}}) {
							return
						}
					}
				}
			}
		}
		ctx.Note("both carry-less multipliers exercised: the amd64 CLMUL assembly and the portable mul128Generic (selected through the check-time overlay), each compared with the harness's own product and run through the honest and fault families")
	} else {
		ctx.Note("the overlay that exposes the portable multiplier could not be derived from the tree: only the build's own mul128 ran")
	}
	if havePrgHook {
		s0 := getSession(9, "alt", 424242, false)
		derived := "none of the derivations the harness knows"
		for _, m := range []string{"all", "none", "check", "payload"} {
			old := bindMode
			bindMode = m
			if s0.chiSeed != nil && checkSeed(s0.msgs, s0) == *s0.chiSeed {
				derived = "the harness's own derivation '" + m + "' (SHA-256 over: all = payload and check matrices, check / payload = that batch only, none = nothing; then the receiver's seed)"
			}
			bindMode = old
		}
		ctx.Note("challenge coefficients of the honest run are OBSERVED (every PRG key the extension creates is reported through the check-time overlay's newPrg wrapper; the last one of the receiver's run seeds the coefficients) and the kernel alterations are computed from them; they equal " + derived)
	} else {
		ctx.Note("the overlay that reports PRG keys could not be derived from the tree: the kernel alterations use the harness's own derivation of the coefficients (mode " + bindMode + ")")
	}
	// two flips in one column in different batches or chunks (the challenge coefficients of the two rows must
	// differ): every (payload row, check row) pair for a small batch; for multi-chunk batches every payload row
	// with the check rows and the payload rows of other chunks that have the same index modulo 256/512/1024
	xcols := []int{0, 1, 64, 127}
	if !ctx.Quick() {
		xcols = []int{0, 1, 2, 31, 63, 64, 65, 126, 127}
	}
	for _, n := range []int{9, 64} {
		if ctx.Quick() && n != 9 {
			continue
		}
		rows := (n + 7) / 8 * 8
		for _, dc := range []bool{false, true} {
			for _, c := range xcols {
				for r := 0; r < rows; r++ {
					for r2 := 0; r2 < 256; r2++ {
						if !emit(cs{N: n, Choices: "alt", Seed: seed, DeltaC: dc, F: Fault{Kind: "pair-x", Batch: "payload", Col: c, Row: r, Batch2: "check", Row2: r2}}) {
							return
						}
					}
				}
			}
		}
	}
	// the matrix-only alteration chosen from the kernel of the challenge coefficients, every (column, row) of a small
	// batch (thorough: also n = 130)
	for _, n := range []int{9, 130} {
		if ctx.Quick() && n > 9 {
			continue
		}
		rows := (n + 7) / 8 * 8
		for _, dc := range []bool{false, true} {
			for c := 0; c < 128; c++ {
				for r := 0; r < rows && r < n; r++ {
					if !emit(cs{N: n, Choices: "alt", Seed: seed, DeltaC: dc, F: Fault{Kind: "kernel", Batch: "payload", Col: c, Row: r}}) {
						return
					}
				}
			}
		}
	}
	// the same inside the payload batch alone (more than 128 payload rows): every column x a stride of rows
	for _, dc := range []bool{false, true} {
		for c := 0; c < 128; c++ {
			for r := 0; r < 200; r++ {
				if (r+c)%8 != 0 && ctx.Quick() {
					continue
				}
				if !emit(cs{N: 200, Choices: "alt", Seed: seed, DeltaC: dc, F: Fault{Kind: "kernel-payload", Batch: "payload", Col: c, Row: r}}) {
					return
				}
			}
		}
	}
	// the adaptive alteration (matrix bit + matching response), every (column, row) of a small batch
	for _, n := range []int{9, 130} {
		rows := (n + 7) / 8 * 8
		for _, dc := range []bool{false, true} {
			for c := 0; c < 128; c++ {
				for r := 0; r < rows; r++ {
					if ctx.Quick() && n > 9 && (r%16 != c%16) {
						continue
					}
					if !emit(cs{N: n, Choices: "alt", Seed: seed, DeltaC: dc, F: Fault{Kind: "adaptive", Batch: "payload", Col: c, Row: r}}) {
						return
					}
				}
			}
		}
	}
	xbig := []int{1030, 2049}
	if ctx.Quick() {
		xbig = []int{1100}
	}
	for _, n := range xbig {
		nchunks := (n + 511) / 512
		for _, dc := range []bool{false, true} {
			for _, c := range xcols {
				for p := 0; p < n; p++ {
					ck, r := p/512, p%512
					if ctx.Quick() && p%5 != 0 && p%256 > 2 {
						continue
					}
					if !emit(cs{N: n, Choices: "alt", Seed: seed, DeltaC: dc, F: Fault{Kind: "pair-x", Batch: "payload", Chunk: ck, Col: c, Row: r, Batch2: "check", Row2: p % 256}}) {
						return
					}
					for ck2 := ck + 1; ck2 < nchunks; ck2++ {
						for _, r2 := range []int{r, (r + 256) % 512} {
							if ck2*512+r2 >= (n+7)/8*8 {
								continue
							}
							if !emit(cs{N: n, Choices: "alt", Seed: seed, DeltaC: dc, F: Fault{Kind: "pair-x", Batch: "payload", Chunk: ck, Col: c, Row: r, Batch2: "payload", Chunk2: ck2, Row2: r2}}) {
								return
							}
						}
					}
				}
			}
		}
	}
	// multi-chunk batches: every row of every chunk for 8 columns, and every column for boundary rows
	big := []int{513, 600, 1024, 1030, 1537, 2049}
	if ctx.Quick() {
		big = []int{513, 1030}
	}
	for _, n := range big {
		for _, dc := range []bool{false, true} {
			nchunks := (n + 511) / 512
			for ck := 0; ck < nchunks; ck++ {
				// chunk length +-128 on every chunk (a FULL chunk made longer exceeds the sender's fixed buffers)
				for _, arg := range []int{1, -1} {
					if !emit(cs{N: n, Choices: "alt", Seed: seed, DeltaC: dc, F: Fault{Kind: "len", Batch: "payload", Chunk: ck, Arg: arg, Col: -1}}) {
						return
					}
				}
				rows := 512
				if ck == nchunks-1 {
					rows = (n - ck*512 + 7) / 8 * 8
				}
				cols := []int{0, 1, 2, 3, 63, 64, 126, 127}
				if !ctx.Quick() {
					cols = nil
					for c := 0; c < 128; c++ {
						cols = append(cols, c) // thorough: every (column, row) of every chunk
					}
				}
				for _, c := range cols {
					for r := 0; r < rows; r++ {
						if ctx.Quick() && r%3 != 0 && r > 16 && r < rows-16 {
							continue
						}
						if !emit(cs{N: n, Choices: "alt", Seed: seed, DeltaC: dc, F: Fault{Kind: "single", Batch: "payload", Chunk: ck, Col: c, Row: r}}) {
							return
						}
					}
				}
				for _, r := range []int{0, 1, 7, 8, 255, 256, rows - 9, rows - 8, rows - 1} {
					if r < 0 || r >= rows {
						continue
					}
					for c := 0; c < 128; c++ {
						if !emit(cs{N: n, Choices: "alt", Seed: seed, DeltaC: dc, F: Fault{Kind: "single", Batch: "payload", Chunk: ck, Col: c, Row: r}}) {
							return
						}
					}
					if !emit(cs{N: n, Choices: "alt", Seed: seed, DeltaC: dc, F: Fault{Kind: "row", Batch: "payload", Chunk: ck, Row: r, Col: -1}}) {
						return
					}
				}
				for c := 0; c < 128; c += 5 {
					if !emit(cs{N: n, Choices: "alt", Seed: seed, DeltaC: dc, F: Fault{Kind: "col", Batch: "payload", Chunk: ck, Col: c}}) {
						return
					}
				}
			}
		}
	}
	ctx.Note(fmt.Sprintf("enumerated %d fault cases in total (all shards)", idx))
}

func replay(ctx *runner.Ctx, raw json.RawMessage) {
	var k cs
	if err := json.Unmarshal(raw, &k); err != nil {
		panic(err)
	}
	runCase(ctx, k)
}

func main() {
	id := "C15"
	runner.Main(runner.Spec{
		ID:    id,
		Level: "fault_enumeration",
		Rule: "honest runs for every n in 1..300 (thorough 700) and chunk boundaries up to 2049 never abort; faults: EVERY (column 0..127, row) single-bit flip of the payload matrix and of the 256-row check matrix for small n, every pair of flips within a row and within a column (first 16), whole columns, whole rows, chunk length +-128, every bit of seed2/x/t0/t1; two flips in one column in different batches/chunks (every payload row x every check row for a small batch; rows with equal index modulo 256/512/1024 in multi-chunk batches); multi-chunk batches (513..2049 rows): every row of every chunk for 8 columns (thorough: all 128 columns) and every column for boundary rows; each under Delta and its complement so every column is selected once. " +
			"distinct_nontrivial = distinct (fault kind, batch, column selected?, chunk, row block, n) classes plus honest sizes",
		Assumptions: []string{
			"base OT = ideal functionality; the receiver's honest message list is recorded once per (n, choices, seed) and the real sender is re-run on each mutated list",
			"mul128: the CLMUL assembly the amd64 build selects for all families; the portable implementation additionally (direct comparison on 155^2 operand pairs, honest runs, single/column/response faults) when the check-time overlay applies (see notes)",
		},
		Work:           work,
		Replay:         replay,
		QuickBudget:    80 * time.Second,
		ThoroughBudget: 20 * time.Minute,
	})
}
