//go:build verifprg

package main

import "github.com/markkurossi/mpc/ot"

var havePrgHook = true

func setPrgHook(f func(ot.Label)) { ot.VerifPrgHook = f }
