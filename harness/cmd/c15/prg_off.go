//go:build !verifprg

package main

import "github.com/markkurossi/mpc/ot"

var havePrgHook = false

func setPrgHook(f func(ot.Label)) {}
