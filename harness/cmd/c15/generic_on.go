//go:build verifgeneric

package main

import "github.com/markkurossi/mpc/ot"

var haveGeneric = true

func setGeneric(on bool) { ot.VerifUseGeneric = on }

func mul128Impl(generic bool, a, b ot.Label) (ot.Label, ot.Label) {
	return ot.VerifMul128(generic, a, b)
}
