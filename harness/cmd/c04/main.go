// C04 — the evaluator never receives both labels of a wire (the global offset stays secret).
// Every 16-byte window at every byte offset of the complete garbler->evaluator
// transcript is checked against the offset R, which the harness learns from
// the wires the garbler hands to its OT (wrapper) or, for sha2pc, by replaying
// the garbler's randomness.
package main

import (
	"crypto/elliptic"
	"encoding/binary"
	"encoding/json"
	"fmt"
	"math/big"
	"strings"
	"time"

	"github.com/markkurossi/mpc/circuit"
	"github.com/markkurossi/mpc/ot"
	"github.com/markkurossi/mpc/sha2pc"

	"verif/circgen"
	"verif/drbg"
	"verif/mpcl"
	"verif/mpclgen"
	"verif/refsem"
	"verif/runner"
	"verif/sess"
)

type cs struct {
	Mode  string        `json:"mode"` // circuit | stream | sha2pc
	Circ  *circgen.Desc `json:"circuit,omitempty"`
	Src   string        `json:"src,omitempty"`
	G     string        `json:"g"`
	E     string        `json:"e"`
	OT    string        `json:"ot"`
	Seed  uint64        `json:"seed"`
	Curve string        `json:"curve,omitempty"`
	// RandChunk > 0: the randomness sources return at most that many bytes per Read (short reads)
	RandChunk int `json:"rand_chunk,omitempty"`
}

type hit struct {
	kind   string
	o1, o2 int
}

func key16(b []byte) [16]byte {
	var k [16]byte
	copy(k[:], b)
	return k
}

func labelBytes(l ot.Label) [16]byte {
	var k [16]byte
	binary.BigEndian.PutUint64(k[0:8], l.D0)
	binary.BigEndian.PutUint64(k[8:16], l.D1)
	return k
}

// scan checks every 16-byte window at every byte offset.
func scan(T []byte, R ot.Label, pairs []ot.Wire) []hit {
	var hits []hit
	if len(T) < 16 {
		return nil
	}
	idx := make(map[[16]byte]int32, len(T))
	for o := 0; o+16 <= len(T); o++ {
		k := key16(T[o : o+16])
		if _, ok := idx[k]; !ok {
			idx[k] = int32(o)
		}
	}
	r := labelBytes(R)
	if o, ok := idx[r]; ok {
		hits = append(hits, hit{"offset-transmitted", int(o), int(o)})
	}
	seen := map[[2]int32]bool{}
	for o := 0; o+16 <= len(T); o++ {
		var x [16]byte
		for i := 0; i < 16; i++ {
			x[i] = T[o+i] ^ r[i]
		}
		if o2, ok := idx[x]; ok && int(o2) != o {
			a, b := int32(o), o2
			if a > b {
				a, b = b, a
			}
			if !seen[[2]int32{a, b}] {
				seen[[2]int32{a, b}] = true
				hits = append(hits, hit{"two-values-differ-by-offset", int(a), int(b)})
			}
		}
	}
	for _, w := range pairs {
		o0, ok0 := idx[labelBytes(w.L0)]
		o1, ok1 := idx[labelBytes(w.L1)]
		if ok0 && ok1 {
			a, b := o0, o1
			if a > b {
				a, b = b, a
			}
			if !seen[[2]int32{a, b}] {
				seen[[2]int32{a, b}] = true
				hits = append(hits, hit{"both-labels-of-a-wire", int(a), int(b)})
			}
		}
	}
	return hits
}

var progCache = map[string]*circuit.Circuit{}

func runCase(ctx *runner.Ctx, k cs) {
	ctx.Eval(1)
	switch k.Mode {
	case "sha2pc":
		runSha2pc(ctx, k)
		return
	}
	var r *sess.Result
	o := sess.Opts{OT: k.OT, Seed: k.Seed, Record: true, RandChunk: k.RandChunk}
	var region func(off int) string
	if k.Mode == "circuit" {
		var c *circuit.Circuit
		if k.Circ != nil {
			c = k.Circ.Build()
		} else {
			c = progCache[k.Src]
			if c == nil {
				var err error
				c, _, err, _ = mpcl.Compile(k.Src, mpcl.Opts{}, nil)
				if err != nil {
					ctx.Outcome("compile-error")
					return
				}
				progCache[k.Src] = c
			}
		}
		gin, _ := new(big.Int).SetString(k.G, 10)
		ein, _ := new(big.Int).SetString(k.E, 10)
		r = sess.RunCircuit(c, gin, ein, o)
		// field map of the whole-circuit transcript
		tablesEnd := 36 + 4
		for i := range c.Gates {
			n := map[circuit.Operation]int{circuit.AND: 2, circuit.OR: 3, circuit.INV: 1}[c.Gates[i].Op]
			tablesEnd += 4 + 16*n
		}
		inputsEnd := tablesEnd + 16*int(c.Inputs[0].Type.Bits)
		region = func(off int) string {
			switch {
			case off < 36:
				return "key"
			case off < tablesEnd:
				return "tables"
			case off < inputsEnd:
				return "garbler-input-labels"
			}
			return "ot-and-result"
		}
	} else {
		r = sess.RunStream(k.Src, []string{k.G}, []string{k.E}, nil, o)
		region = func(off int) string { return "stream" }
	}
	if r.Outcome == "stuck" {
		panic("harness: " + r.Detail)
	}
	if r.Outcome != "ok" || r.GErr != nil || r.EErr != nil {
		ctx.Outcome("session-failed(not this property)")
		return
	}
	if len(r.Seen) == 0 {
		ctx.Outcome("no-ot-wires(evaluator has no input)")
		return
	}
	R := r.Seen[0].L0
	R.Xor(r.Seen[0].L1)
	for _, w := range r.Seen {
		x := w.L0
		x.Xor(w.L1)
		if !x.Equal(R) {
			panic("harness: OT wires do not share one offset")
		}
	}
	hits := scan(r.G2E, R, r.Seen)
	ctx.Count("windows", int64(len(r.G2E)))
	ctx.Nontrivial(fmt.Sprintf("%s|%v|%s|%s|%s|%d", k.Mode, k.Circ, k.Src, k.G, k.E, k.Seed))
	if len(hits) == 0 {
		ctx.Outcome("clean/" + k.Mode)
		return
	}
	h := hits[0]
	ra, rb := region(h.o1), region(h.o2)
	what := k.Src
	if k.Circ != nil {
		what = k.Circ.String()
	}
	ctx.Violate(fmt.Sprintf("%s.%s.%s+%s", k.Mode, h.kind, ra, rb),
		fmt.Sprintf("%d hits in a %d-byte transcript; first: %s at offsets %d (%s) and %d (%s) :: %s g=%s e=%s", len(hits), len(r.G2E), h.kind, h.o1, ra, h.o2, rb,
			strings.ReplaceAll(what, "\n", " "), k.G, k.E), k)
}

func curveByName(n string) elliptic.Curve {
	switch n {
	case "P-224":
		return elliptic.P224()
	case "P-384":
		return elliptic.P384()
	case "P-521":
		return elliptic.P521()
	}
	return elliptic.P256()
}

func input32(s string) [32]byte {
	var b [32]byte
	v, _ := new(big.Int).SetString(s, 0)
	v.FillBytes(b[:])
	return b
}

func runSha2pc(ctx *runner.Ctx, k cs) {
	curve := curveByName(k.Curve)
	a, b := input32(k.G), input32(k.E)
	rg1, rg3, re := drbg.New(k.Seed*3+1), drbg.New(k.Seed*3+2), drbg.New(k.Seed*3+3)
	m1, gs, err := sha2pc.GarblerRound1(rg1, curve)
	if err != nil {
		panic(err)
	}
	m2, _, err := sha2pc.EvaluatorRound2(re, curve, m1, b)
	if err != nil {
		panic(err)
	}
	m3, err := sha2pc.GarblerRound3(rg3, curve, gs, a, m2)
	if err != nil {
		panic(err)
	}
	e1, err := sha2pc.EncodeRound1(curve, m1)
	if err != nil {
		panic(err)
	}
	e3, err := sha2pc.EncodeRound3(m3)
	if err != nil {
		panic(err)
	}
	// R independently: replay the garbler's randomness: 32 key bytes, then the offset label
	rd := drbg.New(k.Seed*3 + 2)
	var skip [32]byte
	rd.Read(skip[:])
	R, _ := ot.NewLabel(rd)
	R.SetS(true)
	if len(m3.OutputHints) > 0 {
		x := m3.OutputHints[0].L0
		x.Xor(m3.OutputHints[0].L1)
		if !x.Equal(R) {
			panic("harness: replayed offset does not match the garbling")
		}
	}
	T := append(append([]byte{}, e1...), e3...)
	hits := scan(T, R, nil)
	ctx.Count("windows", int64(len(T)))
	ctx.Nontrivial(fmt.Sprintf("sha2pc|%s|%s|%s|%d", k.Curve, k.G, k.E, k.Seed))
	if len(hits) == 0 {
		ctx.Outcome("clean/sha2pc")
		return
	}
	// field map of round 3: ... | garbler inputs | output hints (2 labels per output wire) | OT ciphertexts (2 x 16 bytes per evaluator input)
	ctLen := len(m3.Ciphertexts) * 32
	hintsLen := len(m3.OutputHints) * 32
	hintStart := len(T) - ctLen - hintsLen
	hintEnd := len(T) - ctLen
	inHints := 0
	var other *hit
	for i := range hits {
		if hits[i].o1 >= hintStart && hits[i].o2 >= hintStart && hits[i].o1 < hintEnd && hits[i].o2 < hintEnd {
			inHints++
		} else if other == nil {
			other = &hits[i]
		}
	}
	if inHints > 0 {
		ctx.Violate("sha2pc.round3.OutputHints",
			fmt.Sprintf("Round3Payload.OutputHints carries both labels of %d output wires (%d window pairs differ by the offset) on %s", len(m3.OutputHints), inHints, k.Curve), k)
	}
	if other != nil {
		ctx.Violate("sha2pc.round3.other", fmt.Sprintf("%s at offsets %d and %d of round1||round3 outside the output hints", other.kind, other.o1, other.o2), k)
	}
}

func randomCircuit(n0, n1 int, outs []int, seed uint32) circgen.Desc {
	nin := n0 + n1
	nout := 0
	for _, o := range outs {
		nout += o
	}
	g := 3*nin + nout + 2
	d := circgen.Desc{In: []int{n0, n1}, Out: outs}
	x := seed*2654435761 + 12345
	next := func(n int) int {
		x ^= x << 13
		x ^= x >> 17
		x ^= x << 5
		return int(x % uint32(n))
	}
	for i := 0; i < g; i++ {
		avail := nin + i
		a, b := next(avail), next(avail)
		if i < nin {
			a = i
		}
		op := circgen.Ops[next(5)]
		if i%3 == 0 {
			op = circuit.AND
		}
		d.Gates = append(d.Gates, circgen.G{int(op), a, b})
	}
	return d
}

var streamPrograms = []string{
	"package main\nfunc main(a, b uint4) (uint4, uint4) {\n\tx := a & b\n\ty := a & (b >> 1)\n\treturn x, y\n}\n",
	"package main\nfunc main(a, b uint8) uint8 {\n\treturn a + b\n}\n",
	"package main\nfunc main(a, b uint4) uint4 {\n\tx := a & b\n\ty := a | b\n\tz := x & y\n\treturn z + a\n}\n",
	"package main\nfunc main(a, b uint6) (uint6, bool) {\n\tif a > b {\n\t\treturn a - b, true\n\t}\n\treturn a * b, false\n}\n",
	"package main\nfunc main(a, b uint3) uint3 {\n\tvar r uint3\n\tfor i := 0; i < 3; i++ {\n\t\tr = r + (a & (b >> i))\n\t}\n\treturn r\n}\n",
	"package main\nfunc main(a [2]uint4, b uint4) uint4 {\n\treturn (a[0] & b) + (a[1] & b) + (a[0] & a[1])\n}\n",
}

func work(ctx *runner.Ctx) {
	mpcl.Quiet()
	quick := ctx.Quick()
	var cases []cs
	// whole-circuit sessions
	widths := []int{1, 2, 3, 5, 8}
	sigs := [][]int{{1}, {2}, {3, 5}, {1, 7, 2}}
	s := uint32(0)
	for _, n0 := range widths {
		for _, n1 := range widths {
			for _, sig := range sigs {
				s++
				if quick && s%2 == 0 {
					continue
				}
				d := randomCircuit(n0, n1, sig, s)
				for seed := uint64(0); seed < 2; seed++ {
					g := (1<<uint(n0) - 1) & (0x5a5a >> uint(seed))
					e := (1<<uint(n1) - 1) & (0x3c96 >> uint(seed))
					cases = append(cases, cs{Mode: "circuit", Circ: &d, G: fmt.Sprint(g), E: fmt.Sprint(e), OT: "co", Seed: uint64(ctx.Seed) + seed})
				}
			}
		}
	}
	cases = append(cases, cs{Mode: "circuit", Src: "package main\nfunc main(a, b uint8) (uint8, uint8) {\n\treturn a * b, a / (b | 1)\n}\n", G: "201", E: "77", OT: "co"})
	cases = append(cases, cs{Mode: "circuit", Src: "package main\nfunc main(a, b uint8) (uint8, uint8) {\n\treturn a * b, a / (b | 1)\n}\n", G: "201", E: "77", OT: "cot"})
	// input bits that no gate reads (a narrowing cast, an unused argument, an unused struct field), set to 1: the
	// garbler still sends one label per input bit
	for _, o := range []string{"co", "cot"} {
		cases = append(cases, cs{Mode: "circuit", Src: "package main\nfunc main(a uint16, b uint8) uint8 {\n\treturn uint8(a) + b\n}\n", G: "65535", E: "7", OT: o, Seed: uint64(ctx.Seed)})
		cases = append(cases, cs{Mode: "circuit", Src: "package main\nfunc main(a uint16, b uint16) uint8 {\n\treturn uint8(a>>4) & uint8(b)\n}\n", G: "61455", E: "65535", OT: o, Seed: uint64(ctx.Seed)})
		cases = append(cases, cs{Mode: "circuit", Src: "package main\ntype P struct {\n\tx uint8\n\tunused uint8\n}\nfunc main(a P, b uint8) uint8 {\n\treturn a.x * b\n}\n", G: "65281", E: "3", OT: o, Seed: uint64(ctx.Seed)})
		cases = append(cases, cs{Mode: "circuit", Circ: &circgen.Desc{In: []int{3, 2}, Out: []int{1}, Gates: []circgen.G{{2, 0, 3}}}, G: "7", E: "3", OT: o, Seed: uint64(ctx.Seed)})
		cases = append(cases, cs{Mode: "stream", Src: "package main\nfunc main(a uint16, b uint8) uint8 {\n\treturn uint8(a) + b\n}\n", G: "65535", E: "7", OT: o, Seed: uint64(ctx.Seed)})
	}
	// randomness sources that return short reads (an io.Reader may): whole-circuit and streaming sessions with
	// 8..300 input bits per party, chunk limits below, at and above a label (16 bytes) and a batch of labels
	wideX := "package main\nfunc main(a, b uint300) uint300 {\n\treturn a ^ b\n}\n"
	wideAnd := "package main\nfunc main(a, b uint70) (uint70, bool) {\n\treturn a & b, a > b\n}\n"
	pat := new(big.Int)
	pat.SetString("5a3c96e1f00f1234567893cafebabe0123456789abcdef5a5a5a5a3c3c3c3c9696969", 16)
	pat2 := new(big.Int).Rsh(pat, 3)
	for ci, ch := range []int{1, 5, 16, 17, 100, 1000, 1024} {
		if quick && ci%2 == 1 {
			continue
		}
		for _, o := range []string{"co", "cot"} {
			cases = append(cases, cs{Mode: "circuit", Src: wideX, G: pat.String(), E: pat2.String(), OT: o, Seed: uint64(ctx.Seed), RandChunk: ch})
			cases = append(cases, cs{Mode: "circuit", Src: wideAnd, G: new(big.Int).Rsh(pat, 210).String(), E: new(big.Int).Rsh(pat2, 209).String(), OT: o, Seed: uint64(ctx.Seed), RandChunk: ch})
		}
		cases = append(cases, cs{Mode: "circuit", Src: "package main\nfunc main(a, b uint8) (uint8, uint8) {\n\treturn a * b, a / (b | 1)\n}\n", G: "201", E: "77", OT: "co", RandChunk: ch})
		cases = append(cases, cs{Mode: "stream", Src: wideAnd, G: new(big.Int).Rsh(pat, 210).String(), E: new(big.Int).Rsh(pat2, 209).String(), OT: "co", Seed: uint64(ctx.Seed), RandChunk: ch})
		cases = append(cases, cs{Mode: "stream", Src: streamPrograms[0], G: "5", E: "10", OT: "cot", Seed: uint64(ctx.Seed), RandChunk: ch})
	}
	// streaming sessions
	for pi, p := range streamPrograms {
		ins := [][2]string{{"5", "10"}, {"15", "7"}, {"3", "3"}, {"0", "15"}}
		if pi == 5 {
			ins = [][2]string{{"0x3c", "5"}, {"0xf1", "9"}}
		}
		for ii, in := range ins {
			for seed := uint64(0); seed < 4; seed++ {
				if quick && seed > 1 {
					continue
				}
				o := "co"
				if (ii+int(seed))%3 == 2 {
					o = "cot"
				}
				cases = append(cases, cs{Mode: "stream", Src: p, G: in[0], E: in[1], OT: o, Seed: uint64(ctx.Seed) + seed})
			}
		}
	}
	// generated streaming programs: two instruction circuits sharing an input wire (same first operand), every
	// pair of operators x every pair of shifts of the second operand
	ops := []string{"&", "|", "+", "-", "*"}
	shs := []string{"b", "(b >> 1)", "(b << 1)"}
	gi := 0
	for _, o1 := range ops {
		for _, o2 := range ops {
			for _, s1 := range shs {
				for _, s2 := range shs {
					gi++
					if quick && gi%2 == 0 {
						continue
					}
					src := fmt.Sprintf("package main\nfunc main(a, b uint4) (uint4, uint4) {\n\tx := a %s %s\n\ty := a %s %s\n\treturn x, y\n}\n", o1, s1, o2, s2)
					for ii, in := range [][2]string{{"5", "10"}, {"15", "6"}, {"9", "3"}} {
						if quick && ii == 2 {
							continue
						}
						cases = append(cases, cs{Mode: "stream", Src: src, G: in[0], E: in[1], OT: "co", Seed: uint64(ctx.Seed) + uint64(gi%3)})
					}
				}
			}
		}
	}
	// two consecutive AND/OR instruction circuits whose gates pair the SAME wire of the first operand with different
	// wires of the second: gate i of the second circuit reads a[k+i] like gate k+i of the first. Per-gate tweaks
	// that overlap between the two circuits would hash one label under one tweak twice.
	for _, w := range []int{4, 8} {
		for _, o1 := range []string{"&", "|"} {
			for _, o2 := range []string{"&", "|"} {
				for k := 0; k < w; k++ {
					for si, s2 := range []string{"b", "(b >> 1)", "(b << 1)"} {
						if quick && (k+si)%2 == 1 && w == 8 {
							continue
						}
						src := fmt.Sprintf("package main\nfunc main(a, b uint%d) (uint%d, uint%d) {\n\tx := a %s b\n\ty := (a >> %d) %s %s\n\treturn x, y\n}\n", w, w, w, o1, k, o2, s2)
						for ii, in := range [][2]string{{"165", "90"}, {"255", "102"}, {"15", "240"}} {
							if w == 4 {
								in = [][2]string{{"5", "10"}, {"15", "6"}, {"9", "3"}}[ii]
							}
							cases = append(cases, cs{Mode: "stream", Src: src, G: in[0], E: in[1], OT: "co", Seed: uint64(ctx.Seed) + uint64(ii) + uint64(k)})
						}
					}
				}
			}
		}
	}
	// a stride through the statement-level and cast families of the C03 program generator (streaming, two-argument mains)
	{
		n := 0
		stride := 1
		if quick {
			stride = 5
		}
		genEmit := func(g mpclgen.Gen) {
			ps := g.P.Main().Params
			if len(ps) != 2 || ps[0].T.N > 0 || len(ps[0].T.Fields) > 0 || ps[1].T.N > 0 || len(ps[1].T.Fields) > 0 || ps[0].T.Bool || ps[1].T.Bool {
				return
			}
			n++
			if n%stride != 0 {
				return
			}
			in := func(t refsem.Type, odd bool) string {
				w := t.W
				if t.Signed {
					w--
				}
				v := new(big.Int)
				for i := 0; i < w; i++ {
					if (i%2 == 1) == odd || i == 0 {
						v.SetBit(v, i, 1)
					}
				}
				return v.String()
			}
			cases = append(cases, cs{Mode: "stream", Src: g.P.Src(), G: in(ps[0].T, false), E: in(ps[1].T, true), OT: "co", Seed: uint64(ctx.Seed) + uint64(n%5)})
		}
		mpclgen.Statements(quick, genEmit)
		mpclgen.Casts(quick, genEmit)
	}
	// a garbler input wider than 65536 wires (label batches, 16-bit wire ids): bits 65536 apart differ
	{
		g := make([]byte, 8193)
		for i := range g {
			g[i] = byte(31*i + 7)
		}
		g[0], g[8192] = 0xa5, 0x5a
		hex := "0x"
		for _, b := range g {
			hex += fmt.Sprintf("%02x", b)
		}
		src := "package main\nfunc main(g [8193]byte, e byte) byte {\n\treturn g[0] ^ g[8192] ^ g[4096] ^ e\n}\n"
		cases = append(cases, cs{Mode: "stream", Src: src, G: hex, E: "60", OT: "co", Seed: uint64(ctx.Seed)})
		if !quick {
			cases = append(cases, cs{Mode: "stream", Src: src, G: hex, E: "255", OT: "cot", Seed: uint64(ctx.Seed) + 1})
		}
	}
	// native (imported) circuits called with full-width, narrower and constant arguments
	for _, fn := range []string{"AddUint64", "SubUint64", "MulUint64", "DivUint64"} {
		for ai, args := range []string{"a, b", "a & b, 5", "5, b", "a ^ b, 0x10001", "a, b | 1"} {
			if fn == "DivUint64" && ai != 4 && ai != 1 {
				continue
			}
			src := fmt.Sprintf("package main\n\nimport (\n\t\"math\"\n)\n\nfunc main(a, b uint64) uint64 {\n\treturn math.%s(%s)\n}\n", fn, args)
			for ii, in := range [][2]string{{"42405", "15615"}, {"4294967295", "305419896"}} {
				if quick && ii == 1 {
					continue
				}
				cases = append(cases, cs{Mode: "stream", Src: src, G: in[0], E: in[1], OT: "co", Seed: uint64(ctx.Seed) + uint64(ai)})
			}
		}
	}
	// sha2pc
	curves := []string{"P-256"}
	if !quick {
		curves = []string{"P-256", "P-224", "P-384", "P-521"}
	}
	for _, cv := range curves {
		for i, in := range [][2]string{{"0", "0"}, {"0xffffffffffffffffffffffffffffffffffffffffffffffffffffffffffffffff", "0x5555555555555555555555555555555555555555555555555555555555555555"}, {"1", "0x8000000000000000000000000000000000000000000000000000000000000000"}} {
			if quick && i == 2 {
				continue
			}
			cases = append(cases, cs{Mode: "sha2pc", G: in[0], E: in[1], Curve: cv, Seed: uint64(ctx.Seed) + uint64(i)})
		}
	}
	ctx.Note(fmt.Sprintf("case list: %d sessions", len(cases)))
	for i, k := range cases {
		if !ctx.Mine(i) {
			continue
		}
		if ctx.Expired() {
			return
		}
		runCase(ctx, k)
		if i%97 == 0 {
			ctx.Sample(k)
		}
	}
}

func replay(ctx *runner.Ctx, raw json.RawMessage) {
	var k cs
	if err := json.Unmarshal(raw, &k); err != nil {
		panic(err)
	}
	mpcl.Quiet()
	runCase(ctx, k)
}

func main() {
	runner.Main(runner.Spec{
		ID:    "C04",
		Level: "exploration",
		Rule: "complete sessions of the real code are recorded below p2p.Conn (framing included): whole-circuit sessions over structured circuits for input widths {1,2,3,5,8}^2 x 4 output signatures with Chou-Orlandi / COT, streaming sessions of 6 programs (shared AND inputs, loops, if, arrays) x inputs x DRBG seeds, and the sha2pc round1||round3 messages per curve; for EVERY byte offset o of the garbler->evaluator transcript the window T[o:o+16] is checked: it is not the offset R, no other window equals it xor R, and no wire's two labels both occur. R comes from the wires the garbler hands to its OT (harness wrapper) or, for sha2pc, from replaying the garbler's randomness. " +
			"distinct_nontrivial = distinct sessions monitored; counters.windows = byte offsets checked",
		Assumptions: []string{
			"the property is the syntactic statement (no two transmitted 16-byte values differ by R); it is not a proof of computational secrecy",
			"hits are keyed by mode, kind and the named regions of the two offsets",
		},
		Work:           work,
		Replay:         replay,
		QuickBudget:    80 * time.Second,
		ThoroughBudget: 20 * time.Minute,
	})
}
