// C14 — circuit files round-trip; parsers reject malformed files gracefully.
package main

import (
	"bytes"
	"encoding/binary"
	"encoding/json"
	"fmt"
	"os"
	"strconv"
	"strings"
	"time"

	"github.com/markkurossi/mpc/circuit"
	"github.com/markkurossi/mpc/types"

	"verif/bitsim"
	"verif/circgen"
	"verif/mpcl"
	"verif/runner"
)

type cs struct {
	Mode   string        `json:"mode"`   // roundtrip | malformed
	Format string        `json:"format"` // mpclc | bristol
	Circ   *circgen.Desc `json:"circuit,omitempty"`
	Src    string        `json:"src,omitempty"`
	Names  *names        `json:"names,omitempty"`
	SeedID int           `json:"seed_id"`
	Sizes  [][]int       `json:"sizes,omitempty"` // input sizes for programs with unsized arguments
	// deep: a synthetic native file: "nested-type:<n>" = one input whose type string is n array prefixes deep,
	// "nested-compound:<n>" = n compound members nested in each other (every declared size is at most 1 / the
	// string's length)
	Deep string `json:"deep,omitempty"`
	Mut  string `json:"mut,omitempty"` // kind:args
}

// names decorates a generated circuit's I/O with synthetic names/compounds.
type names struct {
	InName   int `json:"in_name_len"`  // length of input 0's name
	OutName  int `json:"out_name_len"` // length of output 0's name
	Compound int `json:"compound"`     // input 0 split into this many compound members
}

// sizedPrograms have unsized arguments (slices, unsized integers) that are instantiated from input sizes; plus
// further signature shapes: arrays of arrays, arrays of structs, nested structs, wide integers, strings of bytes.
var sizedPrograms = []struct {
	src   string
	sizes [][][]int
}{
	{"package main\nfunc main(a []byte, b uint8) uint16 {\n\tvar s uint16\n\tfor i := 0; i < len(a); i++ {\n\t\ts = s + uint16(a[i])\n\t}\n\treturn s + uint16(b)\n}\n", [][][]int{{{8}, {8}}, {{16}, {8}}, {{40}, {8}}}},
	{"package main\nfunc main(a []byte, b []byte) []byte {\n\treturn a\n}\n", [][][]int{{{16}, {8}}, {{8}, {24}}}},
	{"package main\nfunc main(a []int32, b int32) int32 {\n\treturn a[0] + b\n}\n", [][][]int{{{32}, {32}}, {{96}, {32}}}},
	{"package main\nfunc main(a uint, b uint) uint {\n\treturn a + b\n}\n", [][][]int{{{5}, {5}}, {{64}, {64}}}},
	{"package main\nfunc main(a [2][3]uint2, b uint2) uint2 {\n\treturn a[1][2] ^ b\n}\n", nil},
	{"package main\ntype P struct {\n\tx uint3\n\ty int5\n}\nfunc main(a [2]P, b uint3) (uint3, P) {\n\treturn a[1].x + b, a[0]\n}\n", nil},
	{"package main\ntype I struct {\n\tp uint2\n\tq bool\n}\ntype O struct {\n\ti I\n\tr [2]uint2\n}\nfunc main(a O, b uint2) (O, uint2) {\n\treturn a, a.i.p + b\n}\n", nil},
	{"package main\nfunc main(a uint130, b int65) (uint130, int65, bool) {\n\treturn a, b, a > uint130(b)\n}\n", nil},
	{"package main\nfunc main(a uint8, b uint8, c bool) (uint8, bool) {\n\treturn a + b, c\n}\n", nil},
}

var programs = []string{
	"package main\nfunc main(a, b uint2) uint2 {\n\treturn a & b\n}\n",
	"package main\nfunc main(a [2]uint3, b uint3) (uint3, bool) {\n\treturn a[0] ^ b, a[1] == b\n}\n",
	"package main\ntype S struct {\n\tx uint4\n\ty bool\n\tz [2]uint2\n}\nfunc main(a S, b int4) (int4, []uint2) {\n\tif a.y {\n\t\treturn b, a.z[0:2]\n\t}\n\treturn int4(a.x), a.z[0:2]\n}\n",
	"package main\nfunc main(a int3, b int3) (int3, int3) {\n\treturn a + b, a - b\n}\n",
	// pointer-typed I/O: the compiler accepts it, so the writer may be handed such a circuit
	"package main\nfunc main(a *uint8, b uint8) uint8 {\n\treturn b\n}\n",
	"package main\ntype S struct {\n\tx uint8\n\tp *uint8\n}\nfunc main(a S, b uint8) uint8 {\n\treturn a.x + b\n}\n",
	// pointer-typed RESULTS (C14-9 review: the compiler emitted circuits whose output wires no gate drives)
	"package main\nfunc main(a, b uint8) *uint8 {\n\treturn &a\n}\n",
	"package main\nfunc main(a, b uint8) (uint8, *uint8) {\n\treturn a + b, &b\n}\n",
	"package main\nfunc main(a, b [4]byte) *[4]byte {\n\treturn &a\n}\n",
}

func buildCircuit(k cs) (*circuit.Circuit, error) {
	var c *circuit.Circuit
	if k.Circ != nil {
		c = k.Circ.Build()
	} else {
		var err error
		c, _, err, _ = mpcl.Compile(k.Src, mpcl.Opts{}, k.Sizes)
		if err != nil {
			return nil, err
		}
	}
	if k.Names != nil {
		n := k.Names
		c.Inputs[0].Name = strings.Repeat("n", n.InName)
		c.Outputs[0].Name = strings.Repeat("o", n.OutName)
		if n.Compound > 0 {
			bits := int(c.Inputs[0].Type.Bits)
			// split into n.Compound members: first members 0 or 1 bit wide
			var comp circuit.IO
			left := bits
			for i := 0; i < n.Compound; i++ {
				w := 0
				if left > 0 && (i < bits) {
					w = 1
				}
				if i == n.Compound-1 {
					w = left
				}
				left -= w
				comp = append(comp, circuit.IOArg{
					Name: fmt.Sprintf("m%d", i),
					Type: types.Info{Type: types.TUint, IsConcrete: true, Bits: types.Size(w), MinBits: types.Size(w)},
				})
			}
			c.Inputs[0].Compound = comp
			c.Inputs[0].Type = types.Info{Type: types.TStruct, IsConcrete: true, Bits: types.Size(bits), MinBits: types.Size(bits)}
		}
	}
	return c, nil
}

func marshal(c *circuit.Circuit, format string) ([]byte, error) {
	var buf bytes.Buffer
	err := c.MarshalFormat(&buf, format)
	return buf.Bytes(), err
}

func parse(data []byte, format string) (*circuit.Circuit, error) {
	if format == "mpclc" {
		return circuit.ParseMPCLC(bytes.NewReader(data))
	}
	return circuit.ParseBristol(bytes.NewReader(data))
}

func sameIO(a, b circuit.IO, withNames bool, path string) string {
	if len(a) != len(b) {
		return fmt.Sprintf("%s: %d args vs %d", path, len(a), len(b))
	}
	for i := range a {
		p := fmt.Sprintf("%s[%d]", path, i)
		if a[i].Type.Bits != b[i].Type.Bits {
			return fmt.Sprintf("%s: bits %d vs %d", p, a[i].Type.Bits, b[i].Type.Bits)
		}
		if !withNames {
			continue
		}
		if a[i].Name != b[i].Name {
			return fmt.Sprintf("%s: name %q vs %q", p, trunc(a[i].Name), trunc(b[i].Name))
		}
		if a[i].Type.String() != b[i].Type.String() {
			return fmt.Sprintf("%s: type %s vs %s", p, a[i].Type, b[i].Type)
		}
		if d := sameInfo(a[i].Type, b[i].Type, p+".type"); d != "" {
			return d
		}
		if d := sameIO(a[i].Compound, b[i].Compound, true, p+".compound"); d != "" {
			return d
		}
	}
	return ""
}

// sameInfo compares what a caller of the circuit sees of a type: kind, concreteness, width, array length and element
// type (ID, MinBits, Offset and Struct are compiler bookkeeping and are not compared).
func sameInfo(a, b types.Info, path string) string {
	if a.Type != b.Type || a.IsConcrete != b.IsConcrete || a.Bits != b.Bits || a.ArraySize != b.ArraySize {
		return fmt.Sprintf("%s: (%v concrete=%v bits=%d arraysize=%d) vs (%v concrete=%v bits=%d arraysize=%d)", path,
			a.Type, a.IsConcrete, a.Bits, a.ArraySize, b.Type, b.IsConcrete, b.Bits, b.ArraySize)
	}
	if (a.ElementType == nil) != (b.ElementType == nil) {
		return fmt.Sprintf("%s: element type %v vs %v", path, a.ElementType, b.ElementType)
	}
	if a.ElementType != nil {
		if d := sameInfo(*a.ElementType, *b.ElementType, path+".elem"); d != "" {
			return d
		}
	}
	// Info.Struct is not compared: the native format carries struct members as compound IOArgs (compared by
	// sameIO) and nothing a caller can do with a parsed circuit reads Info.Struct
	return ""
}

// sameInputBehaviour: the textual and the Go-value form of an input put the same bits on the wires of both circuits.
func sameInputBehaviour(a, b circuit.IO) string {
	for i := range a {
		n := int(a[i].Type.Bits)
		if n == 0 || n > 512 || len(a[i].Compound) > 1 {
			continue
		}
		hexv := "0x" + strings.Repeat("a5", (n+7)/8)
		va, ea := a[i].Parse([]string{hexv})
		vb, eb := b[i].Parse([]string{hexv})
		if (ea == nil) != (eb == nil) || (ea == nil && va.Cmp(vb) != 0) {
			return fmt.Sprintf("inputs[%d].Parse(%s): %v (err %v) on the original, %v (err %v) on the parsed circuit", i, hexv, va, ea, vb, eb)
		}
		if a[i].Type.Type == types.TSlice && a[i].Type.ElementType != nil && a[i].Type.ElementType.Bits == 8 {
			val := make([]byte, n/8)
			for j := range val {
				val[j] = byte(j*37 + 1)
			}
			sa, ea := a[i].Set(nil, []interface{}{val})
			sb, eb := b[i].Set(nil, []interface{}{val})
			if (ea == nil) != (eb == nil) || (ea == nil && sa.Cmp(sb) != 0) {
				return fmt.Sprintf("inputs[%d].Set(%d bytes): %v (err %v) on the original, %v (err %v) on the parsed circuit", i, len(val), sa, ea, sb, eb)
			}
		}
	}
	return ""
}

func trunc(s string) string {
	if len(s) > 20 {
		return fmt.Sprintf("%s...(%d)", s[:20], len(s))
	}
	return s
}

func sameFunction(a, b *circuit.Circuit) string {
	nin := a.Inputs.Size()
	if nin != b.Inputs.Size() || a.Outputs.Size() != b.Outputs.Size() || a.NumWires != b.NumWires {
		return "signature differs"
	}
	nout := a.Outputs.Size()
	if nin <= 10 {
		in := make([]bool, nin)
		for x := 0; x < 1<<nin; x++ {
			for i := range in {
				in[i] = x>>i&1 == 1
			}
			wa, _ := bitsim.Eval(a, in)
			wb, _ := bitsim.Eval(b, in)
			for o := 0; o < nout; o++ {
				if wa[a.NumWires-nout+o] != wb[b.NumWires-nout+o] {
					return fmt.Sprintf("output bit %d differs on input %b", o, x)
				}
			}
		}
		return ""
	}
	in := make([]uint64, nin)
	x := uint64(0x9E3779B97F4A7C15)
	for i := range in {
		x ^= x << 13
		x ^= x >> 7
		x ^= x << 17
		in[i] = x
	}
	wa := bitsim.Eval64(a, in)
	wb := bitsim.Eval64(b, in)
	for o := 0; o < nout; o++ {
		if wa[a.NumWires-nout+o] != wb[b.NumWires-nout+o] {
			return fmt.Sprintf("output bit %d differs", o)
		}
	}
	return ""
}

func runRoundtrip(ctx *runner.Ctx, k cs) {
	c, err := buildCircuit(k)
	if err != nil {
		ctx.Note("seed program does not compile: " + err.Error())
		ctx.Outcome("seed-compile-error")
		return
	}
	site := k.Format + "."
	fail := func(what, msg string) {
		ctx.Violate("roundtrip."+site+what, msg+" :: "+describe(k), k)
	}
	d1, err := marshal(c, k.Format)
	if err != nil {
		fail("marshal-error", err.Error())
		return
	}
	c2, err := parse(d1, k.Format)
	if err != nil {
		kind := "parse-error"
		if k.Names != nil && (k.Names.InName > 2000 || k.Names.Compound > 20) {
			kind = "parse-error.large-header"
		}
		fail(kind, fmt.Sprintf("parser rejects the writer's own output (%d bytes): %v", len(d1), err))
		return
	}
	if c2.NumGates != c.NumGates || c2.NumWires != c.NumWires || len(c2.Gates) != len(c.Gates) {
		fail("counts", fmt.Sprintf("gates/wires %d/%d vs %d/%d", c2.NumGates, c2.NumWires, c.NumGates, c.NumWires))
		return
	}
	for i := range c.Gates {
		g, h := c.Gates[i], c2.Gates[i]
		if g.Op != h.Op || g.Input0 != h.Input0 || g.Output != h.Output || (g.Op != circuit.INV && g.Input1 != h.Input1) {
			fail("gates", fmt.Sprintf("gate %d: %v vs %v", i, g, h))
			return
		}
	}
	for op := circuit.XOR; op < circuit.Count; op++ {
		var n uint64
		for _, g := range c.Gates {
			if g.Op == op {
				n++
			}
		}
		if c2.Stats[op] != n {
			fail("stats", fmt.Sprintf("Stats[%s]=%d, circuit has %d", op, c2.Stats[op], n))
			return
		}
	}
	if d := sameIO(c.Inputs, c2.Inputs, k.Format == "mpclc", "inputs"); d != "" {
		fail("signature", d)
		return
	}
	if d := sameIO(c.Outputs, c2.Outputs, k.Format == "mpclc", "outputs"); d != "" {
		fail("signature", d)
		return
	}
	if k.Format == "mpclc" {
		if d := sameInputBehaviour(c.Inputs, c2.Inputs); d != "" {
			fail("input-behaviour", d)
			return
		}
	}
	d2, err := marshal(c2, k.Format)
	if err != nil {
		fail("marshal-error", err.Error())
		return
	}
	if !bytes.Equal(d1, d2) {
		fail("rewrite", fmt.Sprintf("second write differs (%d vs %d bytes)", len(d1), len(d2)))
		return
	}
	if d := sameFunction(c, c2); d != "" {
		fail("function", d)
		return
	}
	ctx.Outcome("roundtrip-ok/" + k.Format)
	ctx.Nontrivial("rt/" + k.Format + describe(k))
}

func describe(k cs) string {
	s := ""
	if k.Circ != nil {
		s = k.Circ.String()
	} else {
		s = fmt.Sprintf("program#%d", k.SeedID)
	}
	if k.Names != nil {
		s += fmt.Sprintf(" names=%+v", *k.Names)
	}
	return s
}

// ---- malformed inputs ----

func seedBytes(k cs) ([]byte, error) {
	c, err := buildCircuit(k)
	if err != nil {
		return nil, err
	}
	return marshal(c, k.Format)
}

// mutate applies the mutation descriptor.
func mutate(data []byte, format, mut string) []byte {
	parts := strings.Split(mut, ":")
	atoi := func(i int) int { v, _ := strconv.Atoi(parts[i]); return v }
	out := append([]byte(nil), data...)
	switch parts[0] {
	case "trunc":
		return out[:atoi(1)]
	case "flip":
		out[atoi(1)] ^= 1 << atoi(2)
		return out
	case "set":
		out[atoi(1)] = byte(atoi(2))
		return out
	case "flip2":
		out[atoi(1)] ^= 1 << atoi(2)
		out[atoi(3)] ^= 1 << atoi(4)
		return out
	case "del":
		p := atoi(1)
		return append(out[:p], out[p+1:]...)
	case "dup":
		p := atoi(1)
		return append(out[:p+1], out[p:]...)
	case "junk":
		n, b := atoi(1), atoi(2)
		for i := 0; i < n; i++ {
			out = append(out, byte(b))
		}
		return out
	case "appendtail":
		n := atoi(1) // repeat the last n bytes (a gate record for n=13 / 9)
		if n > len(out) {
			n = len(out)
		}
		return append(out, out[len(out)-n:]...)
	case "u32":
		p := atoi(1)
		if p+4 > len(out) {
			return out
		}
		old := binary.BigEndian.Uint32(out[p:])
		var v uint32
		switch parts[2] {
		case "0":
			v = 0
		case "1":
			v = 1
		case "dec":
			v = old - 1
		case "inc":
			v = old + 1
		case "million":
			v = 1000000
		}
		binary.BigEndian.PutUint32(out[p:], v)
		return out
	case "tok": // bristol: replace token i by value
		toks := tokenize(out)
		i := atoi(1)
		if i < len(toks) {
			t := toks[i]
			return append(append(append([]byte(nil), out[:t[0]]...), []byte(parts[2])...), out[t[1]:]...)
		}
		return out
	case "linedel", "linedup":
		lines := bytes.SplitAfter(out, []byte("\n"))
		i := atoi(1)
		if i >= len(lines) {
			return out
		}
		var res []byte
		for j, l := range lines {
			if j == i {
				if parts[0] == "linedup" {
					res = append(res, l...)
					res = append(res, l...)
				}
				continue
			}
			res = append(res, l...)
		}
		return res
	}
	panic("mutation " + mut)
}

func tokenize(data []byte) [][2]int {
	var res [][2]int
	start := -1
	for i, b := range data {
		sp := b == ' ' || b == '\n' || b == '\t' || b == '\r'
		if !sp && start < 0 {
			start = i
		}
		if sp && start >= 0 {
			res = append(res, [2]int{start, i})
			start = -1
		}
	}
	if start >= 0 {
		res = append(res, [2]int{start, len(data)})
	}
	return res
}

const sizeLimit = 1000000

// declaredTooLarge is the tolerant pre-scan: it reports whether any declared
// size exceeds the property's precondition (one million).
func declaredTooLarge(data []byte, format string) bool {
	if format == "bristol" {
		lines := strings.Split(string(data), "\n")
		n := 0
		for _, l := range lines {
			f := strings.Fields(l)
			if len(f) == 0 {
				continue
			}
			n++
			if n > 3 {
				break
			}
			for _, t := range f {
				v, err := strconv.ParseInt(t, 10, 64)
				if err == nil && (v > sizeLimit || v < -sizeLimit) {
					return true
				}
			}
		}
		return false
	}
	pos := 0
	u32 := func() (uint32, bool) {
		if pos+4 > len(data) {
			return 0, false
		}
		v := binary.BigEndian.Uint32(data[pos:])
		pos += 4
		return v, true
	}
	var hdr [5]uint32
	for i := range hdr {
		v, ok := u32()
		if !ok {
			return false
		}
		hdr[i] = v
	}
	for _, v := range hdr[1:] {
		if v > sizeLimit {
			return true
		}
	}
	var arg func(depth int) (tooLarge, more bool)
	arg = func(depth int) (bool, bool) {
		for s := 0; s < 2; s++ {
			l, ok := u32()
			if !ok {
				return false, false
			}
			if l > sizeLimit {
				return true, false
			}
			if pos+int(l) > len(data) {
				return false, false
			}
			pos += int(l)
		}
		bits, ok := u32()
		if !ok {
			return false, false
		}
		if bits > sizeLimit {
			return true, false
		}
		nc, ok := u32()
		if !ok {
			return false, false
		}
		if nc > sizeLimit {
			return true, false
		}
		for i := 0; i < int(nc); i++ {
			tl, more := arg(depth + 1)
			if tl || !more {
				return tl, false
			}
		}
		return false, true
	}
	for i := 0; i < int(hdr[3])+int(hdr[4]); i++ {
		tl, more := arg(0)
		if tl {
			return true
		}
		if !more {
			return false
		}
	}
	return false
}

type parseResult struct {
	c     *circuit.Circuit
	err   error
	panic interface{}
}

func guardedParse(data []byte, format string) (parseResult, bool) {
	ch := make(chan parseResult, 1)
	go func() {
		var r parseResult
		defer func() {
			if p := recover(); p != nil {
				r.panic = p
			}
			ch <- r
		}()
		r.c, r.err = parse(data, format)
	}()
	select {
	case r := <-ch:
		return r, true
	case <-time.After(60 * time.Second):
		return parseResult{}, false
	}
}

func wellFormed(c *circuit.Circuit) string {
	if len(c.Gates) != c.NumGates {
		return fmt.Sprintf("len(Gates)=%d NumGates=%d", len(c.Gates), c.NumGates)
	}
	def := make([]bool, c.NumWires)
	nin := c.Inputs.Size()
	if nin > c.NumWires {
		return fmt.Sprintf("%d input wires > %d wires", nin, c.NumWires)
	}
	for i := 0; i < nin; i++ {
		def[i] = true
	}
	for i, g := range c.Gates {
		if int(g.Input0) >= c.NumWires || int(g.Output) >= c.NumWires || (g.Op != circuit.INV && int(g.Input1) >= c.NumWires) {
			return fmt.Sprintf("gate %d: wire id out of range", i)
		}
		if g.Op > circuit.INV {
			return fmt.Sprintf("gate %d: bad op %d", i, g.Op)
		}
		if !def[g.Input0] || (g.Op != circuit.INV && !def[g.Input1]) {
			return fmt.Sprintf("gate %d (%v): input used before definition", i, g)
		}
		def[g.Output] = true
	}
	for i, d := range def {
		if !d {
			return fmt.Sprintf("wire %d never assigned", i)
		}
	}
	return ""
}

func firstLines(s string, n int) string {
	l := strings.Split(strings.TrimSpace(s), "\n")
	if len(l) > n {
		l = l[:n]
	}
	return strings.Join(l, " | ")
}

func mutClass(mut string) string {
	return strings.SplitN(mut, ":", 2)[0]
}

func runMalformed(ctx *runner.Ctx, k cs) {
	seed, err := seedBytes(k)
	if err != nil {
		ctx.Outcome("seed-compile-error")
		return
	}
	data := mutate(seed, k.Format, k.Mut)
	if declaredTooLarge(data, k.Format) {
		ctx.Outcome("skipped/declared-size-over-a-million")
		return
	}
	ctx.Nontrivial(fmt.Sprintf("mal/%s/%d/%s", k.Format, k.SeedID, k.Mut))
	r, done := guardedParse(data, k.Format)
	site := "malformed." + k.Format + "."
	if !done {
		// believe a hang only after two more attempts
		for i := 0; i < 2 && !done; i++ {
			r, done = guardedParse(data, k.Format)
		}
		if !done {
			ctx.Violate(site+"hang."+mutClass(k.Mut), fmt.Sprintf("parser did not return within 60 s on %d bytes (mutation %s of seed %d)", len(data), k.Mut, k.SeedID), k)
			return
		}
	}
	switch {
	case r.panic != nil:
		msg := fmt.Sprint(r.panic)
		kind := "panic"
		if strings.Contains(msg, "index out of range") {
			kind = "panic.index-out-of-range"
		}
		ctx.Violate(site+kind+"."+mutClass(k.Mut), fmt.Sprintf("parser panicked: %v (mutation %s of seed %d, %d bytes)", r.panic, k.Mut, k.SeedID, len(data)), k)
	case r.err != nil:
		ctx.Outcome("error")
	default:
		if d := wellFormed(r.c); d != "" {
			ctx.Violate(site+"ill-formed-accepted."+mutClass(k.Mut), fmt.Sprintf("parser accepted an ill-formed circuit: %s (mutation %s of seed %d)", d, k.Mut, k.SeedID), k)
			return
		}
		if r.c.Outputs.Size() > r.c.NumWires {
			ctx.Outcome("accepted/outputs-exceed-wires(recorded)")
		} else if bytes.Equal(data, seed) {
			ctx.Outcome("accepted/identical-to-seed")
		} else {
			ctx.Outcome("accepted/well-formed")
		}
	}
}

func u32b(v int) []byte {
	var b [4]byte
	binary.BigEndian.PutUint32(b[:], uint32(v))
	return b[:]
}

func deepFile(kind string, n int) []byte {
	var f []byte
	str := func(s string) {
		f = append(f, u32b(len(s))...)
		f = append(f, s...)
	}
	switch kind {
	case "nested-type", "nested-array-type":
		f = append(f, u32b(circuit.MAGIC)...)
		f = append(f, u32b(1)...) // gates
		f = append(f, u32b(2)...) // wires
		f = append(f, u32b(1)...) // inputs
		f = append(f, u32b(1)...) // outputs
		str("a")
		if kind == "nested-type" {
			str(strings.Repeat("[]", n) + "uint8")
		} else {
			str(strings.Repeat("[1]", n) + "uint1")
		}
		f = append(f, u32b(1)...) // bits
		f = append(f, u32b(0)...) // compound
		str("r")
		str("uint1")
		f = append(f, u32b(1)...)
		f = append(f, u32b(0)...)
		f = append(f, byte(circuit.INV))
		f = append(f, u32b(0)...)
		f = append(f, u32b(1)...)
	case "nested-compound":
		f = append(f, u32b(circuit.MAGIC)...)
		f = append(f, u32b(0)...) // gates
		f = append(f, u32b(1)...) // wires
		f = append(f, u32b(1)...) // inputs
		f = append(f, u32b(0)...) // outputs
		for i := 0; i < n; i++ {
			str("")
			str("b")
			f = append(f, u32b(1)...)
			if i == n-1 {
				f = append(f, u32b(0)...)
			} else {
				f = append(f, u32b(1)...)
			}
		}
	}
	return f
}

// runDeep: a native file with deeply nested (but individually tiny) declarations must give an error or a circuit
// in reasonable time and must not take the process down.
func runDeep(ctx *runner.Ctx, k cs) {
	parts := strings.SplitN(k.Deep, ":", 2)
	n, _ := strconv.Atoi(parts[1])
	data := deepFile(parts[0], n)
	ctx.Nontrivial("deep/" + k.Deep)
	r, done := guardedParse(data, "mpclc")
	for i := 0; i < 2 && !done; i++ {
		r, done = guardedParse(data, "mpclc")
	}
	site := "malformed.mpclc."
	switch {
	case !done:
		ctx.Violate(site+"hang."+parts[0], fmt.Sprintf("parser did not return within 60 s on a %d-byte file (%s; normal: milliseconds)", len(data), k.Deep), k)
	case r.panic != nil:
		ctx.Violate(site+"panic."+parts[0], fmt.Sprintf("parser panicked: %v (%s)", r.panic, k.Deep), k)
	case r.err != nil:
		ctx.Outcome("error/deep")
	default:
		ctx.Outcome("accepted/deep")
	}
}

func runCase(ctx *runner.Ctx, k cs) {
	if k.Deep != "" {
		if os.Getenv("C14_DEEP_CHILD") != "" {
			ctx.Eval(1)
			runDeep(ctx, k)
			return
		}
		os.Setenv("C14_DEEP_CHILD", "1")
		crashed, tail := ctx.RunIsolated(k, 400*time.Second)
		os.Unsetenv("C14_DEEP_CHILD")
		if crashed {
			ctx.Eval(1)
			ctx.Violate("malformed.mpclc.crash."+strings.SplitN(k.Deep, ":", 2)[0], "parsing killed the process (a fatal runtime error cannot be recovered by the caller): "+firstLines(tail, 3)+" :: "+k.Deep, k)
		}
		return
	}
	if k.Mode == "roundtrip" && k.Names != nil && !ctx.Replay {
		// a parser that loses its place in a large header may try to allocate
		// gigabytes: run these cases in a child process
		if crashed, tail := ctx.RunIsolated(k, 120*time.Second); crashed {
			ctx.Eval(1)
			ctx.Violate("roundtrip.mpclc.parse-error.large-header", "parsing the writer's own output killed the process: "+tail+" :: "+describe(k), k)
		}
		return
	}
	ctx.Eval(1)
	if k.Mode == "roundtrip" {
		runRoundtrip(ctx, k)
	} else {
		runMalformed(ctx, k)
	}
}

func work(ctx *runner.Ctx) {
	mpcl.Quiet()
	var cases []cs
	// round trip: every circuit with <= 2 inputs, <= 2 gates (quick) / <=3 gates; families; programs; synthetic names
	type cfg struct{ nin, g int }
	cfgs := []cfg{{1, 1}, {2, 1}, {1, 2}, {2, 2}, {3, 2}, {1, 3}}
	if !ctx.Quick() {
		cfgs = append(cfgs, cfg{2, 3}, cfg{3, 3})
	}
	for _, cf := range cfgs {
		circgen.EnumGates(cf.nin, cf.g, func(gates []circgen.G) bool {
			for nout := 1; nout <= cf.g && nout <= 2; nout++ {
				in := []int{cf.nin}
				if cf.nin >= 2 {
					in = []int{1, cf.nin - 1}
				}
				d := circgen.Desc{In: in, Out: []int{nout}, Gates: append([]circgen.G(nil), gates...)}
				for _, f := range []string{"mpclc", "bristol"} {
					cases = append(cases, cs{Mode: "roundtrip", Format: f, Circ: &d})
				}
			}
			return true
		})
	}
	for _, op := range circgen.Ops {
		ops := make([]circuit.Operation, 40)
		for i := range ops {
			ops[i] = op
		}
		d := circgen.Chain(12, ops, 5)
		for _, f := range []string{"mpclc", "bristol"} {
			cases = append(cases, cs{Mode: "roundtrip", Format: f, Circ: &d})
		}
	}
	for i, p := range programs {
		for _, f := range []string{"mpclc", "bristol"} {
			cases = append(cases, cs{Mode: "roundtrip", Format: f, Src: p, SeedID: i})
		}
	}
	base := circgen.Desc{In: []int{3, 2}, Out: []int{2}, Gates: []circgen.G{{2, 0, 3}, {0, 1, 4}, {4, 5, 0}, {3, 6, 2}}}
	for i, sp := range sizedPrograms {
		sizes := sp.sizes
		if sizes == nil {
			sizes = [][][]int{nil}
		}
		for j, sz := range sizes {
			for _, f := range []string{"mpclc", "bristol"} {
				cases = append(cases, cs{Mode: "roundtrip", Format: f, Src: sp.src, SeedID: 300 + 10*i + j, Sizes: sz})
			}
		}
	}
	// deeply nested declarations
	for _, d := range []string{"nested-type:100", "nested-type:2000", "nested-type:50000", "nested-array-type:30000", "nested-compound:1000", "nested-compound:100000", "nested-compound:1500000"} {
		cases = append(cases, cs{Mode: "malformed", Format: "mpclc", Deep: d})
	}
	nameLens := []int{0, 1, 255, 256, 4000, 4060, 4070, 4080, 4090, 4095, 4096, 4097, 4100, 5000, 8191, 8192, 8193, 70000}
	for _, nl := range nameLens {
		for _, ol := range []int{0, 3, 4096} {
			cases = append(cases, cs{Mode: "roundtrip", Format: "mpclc", Circ: &base, Names: &names{InName: nl, OutName: ol}})
		}
	}
	for _, nc := range []int{1, 2, 3, 40, 200, 300, 400} {
		cases = append(cases, cs{Mode: "roundtrip", Format: "mpclc", Circ: &base, Names: &names{InName: 5, OutName: 1, Compound: nc}})
	}

	// malformed: seeds
	var seeds []cs
	sd := []circgen.Desc{
		{In: []int{1, 1}, Out: []int{1}, Gates: []circgen.G{{2, 0, 1}}},
		{In: []int{2, 1}, Out: []int{2}, Gates: []circgen.G{{2, 0, 2}, {4, 1, 0}, {0, 3, 4}, {3, 5, 0}}},
		{In: []int{1}, Out: []int{1}, Gates: []circgen.G{{4, 0, 0}, {4, 1, 0}}},
	}
	nseeds := 3
	for _, f := range []string{"mpclc", "bristol"} {
		for i := 0; i < nseeds; i++ {
			d := sd[i]
			seeds = append(seeds, cs{Mode: "malformed", Format: f, Circ: &d, SeedID: i})
		}
		np := 2
		if !ctx.Quick() {
			np = len(programs)
		}
		for i := 0; i < np; i++ {
			seeds = append(seeds, cs{Mode: "malformed", Format: f, Src: programs[i], SeedID: 100 + i})
		}
	}
	seeds = append(seeds, cs{Mode: "malformed", Format: "mpclc", Circ: &sd[0], SeedID: 200, Names: &names{InName: 2, OutName: 0, Compound: 2}})
	for _, s := range seeds {
		data, err := seedBytes(s)
		if err != nil {
			ctx.Note("seed does not build: " + err.Error())
			continue
		}
		add := func(m string) {
			k := s
			k.Mut = m
			cases = append(cases, k)
		}
		for l := 0; l < len(data); l++ {
			add(fmt.Sprintf("trunc:%d", l))
		}
		for p := 0; p < len(data); p++ {
			for b := 0; b < 8; b++ {
				add(fmt.Sprintf("flip:%d:%d", p, b))
			}
			add(fmt.Sprintf("del:%d", p))
			add(fmt.Sprintf("dup:%d", p))
		}
		if !ctx.Quick() {
			// thorough: every byte set to 0x00/0x7f/0x80/0xff, and every pair of bit flips within the first 40
			// bytes (the header of either format)
			for p := 0; p < len(data); p++ {
				for _, v := range []int{0, 127, 128, 255} {
					if int(data[p]) != v {
						add(fmt.Sprintf("set:%d:%d", p, v))
					}
				}
			}
			hdr := 40
			if hdr > len(data) {
				hdr = len(data)
			}
			for x := 0; x < hdr*8; x++ {
				for y := x + 1; y < hdr*8; y++ {
					add(fmt.Sprintf("flip2:%d:%d:%d:%d", x/8, x%8, y/8, y%8))
				}
			}
		}
		for n := 1; n <= 13; n++ {
			for _, b := range []int{0, 2, 4, 255, '1', ' '} {
				add(fmt.Sprintf("junk:%d:%d", n, b))
			}
		}
		for _, n := range []int{9, 13, 26} {
			add(fmt.Sprintf("appendtail:%d", n))
		}
		if s.Format == "mpclc" {
			for p := 0; p+4 <= len(data); p++ {
				for _, v := range []string{"0", "1", "dec", "inc", "million"} {
					add(fmt.Sprintf("u32:%d:%s", p, v))
				}
			}
		} else {
			toks := tokenize(data)
			for i := range toks {
				for _, v := range []string{"0", "-1", "1", "2", "1000000", "x", "123456789012345678901234567890", "XOR", "INV"} {
					add(fmt.Sprintf("tok:%d:%s", i, v))
				}
			}
			nl := bytes.Count(data, []byte("\n"))
			for i := 0; i < nl; i++ {
				add(fmt.Sprintf("linedel:%d", i))
				add(fmt.Sprintf("linedup:%d", i))
			}
		}
	}
	ctx.Note(fmt.Sprintf("case list: %d cases (%d malformed-input seeds)", len(cases), len(seeds)))
	for i, k := range cases {
		if !ctx.Mine(i) {
			continue
		}
		if ctx.Expired() {
			return
		}
		t0 := time.Now()
		runCase(ctx, k)
		if d := time.Since(t0); d > 500*time.Millisecond && os.Getenv("C14_DEBUG") != "" {
			fmt.Fprintf(os.Stderr, "slow case %v: %s %s seed=%d mut=%s\n", d, k.Mode, k.Format, k.SeedID, k.Mut)
		}
		if i%9973 == 0 {
			ctx.Sample(k)
		}
	}
}

func replay(ctx *runner.Ctx, raw json.RawMessage) {
	var k cs
	if err := json.Unmarshal(raw, &k); err != nil {
		panic(err)
	}
	runCase(ctx, k)
}

func main() {
	runner.Main(runner.Spec{
		ID:    "C14",
		Level: "fault_enumeration",
		Rule: "round trip: every circuit with <=3 inputs and <=2 gates (thorough <=3 gates) x both formats, 40-gate chains per op, compiled programs with array/struct/compound I/O, synthetic names of 0..70000 bytes (header strings straddling bufio's 4096-byte buffer) and up to 400 compound members, size-instantiated ([]byte, []int32, unsized uint) and nested signatures (arrays of arrays, arrays of structs, nested structs, 130-bit integers) with the signature compared down to array sizes and element types and IOArg.Parse/Set compared on both circuits; " +
			"malformed: for each seed file EVERY truncation length, EVERY single-bit flip, EVERY one-byte deletion and duplication, appended gate records and 1..13 junk bytes, every byte offset as a u32 field set to {0,1,n-1,n+1,10^6} (mpclc), every token replaced by 9 values and every line deleted/duplicated (Bristol); inputs whose declared sizes exceed 10^6 are skipped by a tolerant pre-scan. distinct_nontrivial = distinct (format, seed, mutation) fed to the parser + distinct round-trip circuits",
		Assumptions: []string{
			"well-formedness oracle: len(Gates)==NumGates, wire ids < NumWires, every gate input defined earlier (input wire or earlier gate output), every wire assigned",
			"'never hangs' = returns within 60 s on inputs below 1 KB (normal: microseconds), believed only after 3 attempts",
		},
		Work:           work,
		Replay:         replay,
		QuickBudget:    80 * time.Second,
		ThoroughBudget: 15 * time.Minute,
	})
}
