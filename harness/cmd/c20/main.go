// C20 — OT-based multiplication gadgets return shares of the product.
package main

import (
	"encoding/json"
	"fmt"
	"math/big"
	"strconv"
	"strings"
	"sync"
	"time"

	"github.com/markkurossi/mpc/bmr"
	"github.com/markkurossi/mpc/ot"
	"github.com/markkurossi/mpc/p2p"
	"github.com/markkurossi/mpc/vole"
	"github.com/markkurossi/mpc/zverif/vrand"

	"verif/drbg"
	"verif/idealot"
	"verif/memio"
	"verif/runner"
	"verif/xport"
)

type cs struct {
	Kind    string `json:"kind"` // vole | fx | fxk | race (the free-running race-detector pass, harness/racepass20)
	Modulus string `json:"modulus,omitempty"`
	Lens    []int  `json:"lens,omitempty"` // one Mul call per entry on one instance
	Offset  int    `json:"offset"`         // rotation of the element class schedule
	OT      string `json:"ot"`             // ideal | co
	Seed    uint64 `json:"seed"`
	A       uint   `json:"a"`
	B       uint   `json:"b"`
	S       string `json:"s,omitempty"` // fxk: 32-bit string as hex
}

var moduli = map[string]string{
	"p256":      "115792089210356248762697446949407573530086143415290314195533631308867097853951",
	"2^255-19":  "57896044618658097711785492504343953926634992332820282019728792003956564819949",
	"2^256-189": "115792089237316195423570985008687907853269984665640564039457584007913129639747",
	"65537":     "65537",
	"251":       "251",
	"3":         "3",
	"2":         "2",
	"2^31-1":    "2147483647",
	"2^32+15":   "4294967311",
	"2^61-1":    "2305843009213693951",
	"2^64-59":   "18446744073709551557",
	"2^64+13":   "18446744073709551629",
	"2^127-1":   "170141183460469231731687303715884105727",
	"2^128+51":  "340282366920938463463374607431768211507",
	"2^192-237": "6277101735386680763835789423207666416102355444464034512659",
	"2^256-1":   "115792089237316195423570985008687907853269984665640564039457584007913129639935",
}

var modOrder = []string{"p256", "2^255-19", "2^256-189", "65537", "251", "3", "2", "2^31-1", "2^32+15", "2^61-1", "2^64-59", "2^64+13", "2^127-1", "2^128+51", "2^192-237", "2^256-1"}

// modulus resolves a modulus name: a table entry, or "bits:k" = the smallest prime with exactly k bits.
func modulus(name string) *big.Int {
	if strings.HasPrefix(name, "bits:") {
		k, _ := strconv.Atoi(name[5:])
		p := new(big.Int).Lsh(big.NewInt(1), uint(k-1))
		if k > 2 {
			p.Add(p, big.NewInt(1))
		}
		for !p.ProbablyPrime(32) {
			p.Add(p, big.NewInt(2))
			if k <= 2 {
				p.Sub(p, big.NewInt(1))
			}
		}
		return p
	}
	p, _ := new(big.Int).SetString(moduli[name], 10)
	return p
}

const nClasses = 8

func element(class int, p *big.Int, rd *drbg.Reader) *big.Int {
	one := big.NewInt(1)
	var v *big.Int
	switch class {
	case 0:
		v = big.NewInt(0)
	case 1:
		v = big.NewInt(1)
	case 2:
		v = big.NewInt(2)
	case 3:
		v = new(big.Int).Sub(p, one)
	case 4:
		v = new(big.Int).Sub(p, big.NewInt(2))
	case 5:
		v = new(big.Int).Rsh(p, 1)
	default:
		var b [40]byte
		rd.Read(b[:])
		v = new(big.Int).SetBytes(b[:])
	}
	return v.Mod(v, p)
}

func mkOT(kind string, rd *drbg.Reader) ot.OT {
	if kind == "co" {
		return ot.NewCO(rd)
	}
	return idealot.New()
}

func runVOLE(ctx *runner.Ctx, k cs) {
	p := modulus(k.Modulus)
	a, b := xport.NewPair(0)
	rdv := drbg.New(k.Seed + 5)
	type vec struct{ x, y, r, u []*big.Int }
	vs := make([]vec, len(k.Lens))
	pos := k.Offset
	for i, m := range k.Lens {
		for j := 0; j < m; j++ {
			vs[i].x = append(vs[i].x, element(pos%nClasses, p, rdv))
			vs[i].y = append(vs[i].y, element(pos/nClasses%nClasses, p, rdv))
			pos++
		}
	}
	var errS, errR error
	var wg sync.WaitGroup
	wg.Add(2)
	go func() {
		defer wg.Done()
		conn := p2p.NewConn(a)
		defer conn.Close()
		rd := drbg.New(k.Seed*2 + 1)
		s, err := vole.NewSender(mkOT(k.OT, rd), conn, rd)
		if err != nil {
			errS = err
			return
		}
		for i := range k.Lens {
			vs[i].r, errS = s.Mul(vs[i].x, p)
			if errS != nil {
				return
			}
		}
	}()
	go func() {
		defer wg.Done()
		conn := p2p.NewConn(b)
		defer conn.Close()
		rd := drbg.New(k.Seed*2 + 2)
		r, err := vole.NewReceiver(mkOT(k.OT, rd), conn, rd)
		if err != nil {
			errR = err
			return
		}
		for i := range k.Lens {
			vs[i].u, errR = r.Mul(vs[i].y, p)
			if errR != nil {
				return
			}
		}
	}()
	done := make(chan struct{})
	go func() { wg.Wait(); close(done) }()
	select {
	case <-done:
	case <-time.After(120 * time.Second):
		ctx.Violate("vole.hang", fmt.Sprintf("session did not terminate within 120 s (modulus %s lens %v)", k.Modulus, k.Lens), k)
		return
	}
	site := "vole." + k.OT
	if errS != nil || errR != nil {
		ctx.Violate(site+".error", fmt.Sprintf("honest run failed: sender=%v receiver=%v (modulus %s lens %v)", errS, errR, k.Modulus, k.Lens), k)
		return
	}
	bits := p.BitLen()
	mclass := "<=32"
	switch {
	case bits > 128:
		mclass = ">128"
	case bits > 64:
		mclass = "65..128"
	case bits > 32:
		mclass = "33..64"
	}
	pos = k.Offset
	for i, m := range k.Lens {
		if len(vs[i].r) != m || len(vs[i].u) != m {
			ctx.Violate(site+".length", fmt.Sprintf("Mul #%d: got %d/%d shares for m=%d", i, len(vs[i].r), len(vs[i].u), m), k)
			return
		}
		for j := 0; j < m; j++ {
			r, u := vs[i].r[j], vs[i].u[j]
			if r.Sign() < 0 || u.Sign() < 0 || r.Cmp(p) >= 0 || u.Cmp(p) >= 0 {
				ctx.Violate(site+".range.mod"+mclass, fmt.Sprintf("Mul #%d pos %d: share out of range [0,p): r=%s u=%s p=%s", i, j, r, u, p), k)
				return
			}
			want := new(big.Int).Mul(vs[i].x[j], vs[i].y[j])
			want.Mod(want, p)
			got := new(big.Int).Sub(u, r)
			got.Mod(got, p)
			if got.Cmp(want) != 0 {
				ctx.Violate(site+".product.mod"+mclass, fmt.Sprintf("Mul #%d (m=%d) pos %d: u-r = %s but x*y = %s mod %s (x=%s y=%s)", i, m, j, got, want, k.Modulus, vs[i].x[j], vs[i].y[j]), k)
				return
			}
			ctx.Nontrivial(fmt.Sprintf("vole/%s/xc%d/yc%d/m%%512=%d/chunks=%d", k.Modulus, pos%nClasses, pos/nClasses%nClasses, m%512, m/512))
			pos++
		}
	}
	ctx.Outcome("vole-ok/" + k.OT + "/mod" + mclass)
}

func runFx(ctx *runner.Ctx, k cs) {
	vrand.Seed(k.Seed)
	a, b := memio.NewPair()
	var r, xb uint
	var rl, xl bmr.Label
	var s bmr.Label
	if k.Kind == "fxk" {
		var v uint64
		fmt.Sscanf(k.S, "%x", &v)
		s = bmr.Label{byte(v >> 24), byte(v >> 16), byte(v >> 8), byte(v)}
	}
	errS, errR := memio.Run2(a, b, func(io *memio.End) error {
		o := mkOT(k.OT, drbg.New(k.Seed*2+1))
		if err := o.InitSender(io); err != nil {
			return err
		}
		var err error
		if k.Kind == "fx" {
			r, err = bmr.FxSend(o, k.A)
		} else {
			rl, err = bmr.FxkSend(o, s)
		}
		return err
	}, func(io *memio.End) error {
		o := mkOT(k.OT, drbg.New(k.Seed*2+2))
		if err := o.InitReceiver(io); err != nil {
			return err
		}
		var err error
		if k.Kind == "fx" {
			xb, err = bmr.FxReceive(o, k.B)
		} else {
			xl, err = bmr.FxkReceive(o, k.B)
		}
		return err
	})
	site := k.Kind + "." + k.OT
	if errS != nil || errR != nil {
		ctx.Violate(site+".error", fmt.Sprintf("honest run failed: sender=%v receiver=%v", errS, errR), k)
		return
	}
	if k.Kind == "fx" {
		if r > 1 || xb > 1 || r^xb != k.A&k.B {
			ctx.Violate(site+".product", fmt.Sprintf("a=%d b=%d: r=%d x_b=%d, r^x_b=%d want %d", k.A, k.B, r, xb, r^xb, k.A&k.B), k)
			return
		}
		ctx.Nontrivial(fmt.Sprintf("fx/%s/a%d/b%d/r%d", k.OT, k.A, k.B, r))
		ctx.Outcome(fmt.Sprintf("fx-ok/a%d b%d r%d", k.A, k.B, r))
		return
	}
	want := s
	want.Mul(k.B)
	got := rl
	got.Xor(xl)
	if !got.Equal(want) {
		ctx.Violate(site+".product", fmt.Sprintf("b=%d s=%v: r^x_b=%v want %v", k.B, s, got, want), k)
		return
	}
	ctx.Nontrivial(fmt.Sprintf("fxk/%s/b%d/s%s", k.OT, k.B, k.S))
	ctx.Outcome(fmt.Sprintf("fxk-ok/b%d", k.B))
}

func runCase(ctx *runner.Ctx, k cs) {
	ctx.Eval(1)
	if k.Kind == "vole" {
		runVOLE(ctx, k)
	} else {
		runFx(ctx, k)
	}
}

func work(ctx *runner.Ctx) {
	if ctx.Shard == 0 {
		runner.RacePass(ctx, "racepass20", "concurrent VOLE sessions", 2, 20, cs{Kind: "race"})
	}
	var cases []cs
	seed := uint64(ctx.Seed)
	var lens []int
	for m := 1; m <= 40; m++ {
		lens = append(lens, m)
	}
	lens = append(lens, 63, 64, 65, 511, 512, 513, 1023, 1024, 1025)
	if !ctx.Quick() {
		lens = append(lens, 1535, 1536, 1537, 1999, 2000)
	}
	mods := modOrder
	for _, mod := range mods {
		for _, m := range lens {
			rounds := (nClasses*nClasses + m - 1) / m
			if ctx.Quick() && rounds > 8 {
				rounds = 8
			}
			for r := 0; r < rounds; r++ {
				off := r * m
				if rounds == 8 && m < 8 {
					off = r * 9 // stride covering both class digits
				}
				cases = append(cases, cs{Kind: "vole", Modulus: mod, Lens: []int{m}, Offset: off, OT: "ideal", Seed: seed})
			}
		}
		// histories: several Mul calls on one instance
		for _, h := range [][]int{{1, 1}, {3, 70}, {64, 65}, {513, 7}, {7, 513, 64}} {
			cases = append(cases, cs{Kind: "vole", Modulus: mod, Lens: h, OT: "ideal", Seed: seed})
		}
		cases = append(cases, cs{Kind: "vole", Modulus: mod, Lens: []int{70}, OT: "co", Seed: seed})
	}
	// one prime of every bit length (quick: a stride and all lengths that are 0, 1 or 7 modulo 8)
	for k := 2; k <= 256; k++ {
		if ctx.Quick() && k%8 > 1 && k%8 != 7 && k%5 != 0 {
			continue
		}
		mod := fmt.Sprintf("bits:%d", k)
		for _, m := range []int{1, 9, 65} {
			if ctx.Quick() && m == 65 && k%8 > 1 {
				continue
			}
			rounds := (nClasses*nClasses + m - 1) / m
			if rounds > 8 {
				rounds = 8
			}
			for r := 0; r < rounds; r++ {
				off := r * m
				if m < 8 {
					off = r * 9
				}
				cases = append(cases, cs{Kind: "vole", Modulus: mod, Lens: []int{m}, Offset: off, OT: "ideal", Seed: seed})
			}
		}
		cases = append(cases, cs{Kind: "vole", Modulus: mod, Lens: []int{3, 70, 2}, OT: "ideal", Seed: seed})
	}
	for a := uint(0); a < 2; a++ {
		for b := uint(0); b < 2; b++ {
			for _, o := range []string{"ideal", "co"} {
				n := 64
				if o == "co" {
					n = 8
				}
				for s := 0; s < n; s++ {
					cases = append(cases, cs{Kind: "fx", A: a, B: b, OT: o, Seed: seed + uint64(s)})
				}
			}
		}
	}
	var svals []string
	svals = append(svals, "0", "ffffffff", "deadbeef", "1234567")
	for i := 0; i < 32; i++ {
		svals = append(svals, fmt.Sprintf("%x", uint32(1)<<i))
	}
	for b := uint(0); b < 2; b++ {
		for _, s := range svals {
			for _, o := range []string{"ideal", "co"} {
				for sd := uint64(0); sd < 2; sd++ {
					cases = append(cases, cs{Kind: "fxk", B: b, S: s, OT: o, Seed: seed + sd})
				}
			}
		}
	}
	ctx.Note(fmt.Sprintf("case list: %d cases; %d moduli; lengths %v", len(cases), len(mods), lens))
	for i, k := range cases {
		if !ctx.Mine(i) {
			continue
		}
		if ctx.Expired() {
			return
		}
		runCase(ctx, k)
		if i%1500 == 0 {
			ctx.Sample(k)
		}
	}
}

func replay(ctx *runner.Ctx, raw json.RawMessage) {
	var k cs
	if err := json.Unmarshal(raw, &k); err != nil {
		panic(err)
	}
	if k.Kind == "race" {
		runner.RacePass(ctx, "racepass20", "concurrent VOLE sessions", 2, 20, k)
		return
	}
	runCase(ctx, k)
}

func main() {
	runner.Main(runner.Spec{
		ID:    "C20",
		Level: "exploration",
		Rule: "VOLE: one prime of every bit length 2..256 (quick: the lengths that are 0, 1 or 7 modulo 8 and every fifth) with vector lengths 1, 9, 65 and a 3-call history, and 16 named moduli (2, 3, 251, 65537, 2^31-1, 2^32+15, 2^61-1, 2^64-59, 2^64+13, 2^127-1, 2^128+51, 2^192-237, 2^255-19, P-256, 2^256-189, 2^256-1) x every length 1..40 and chunk-boundary lengths up to 1025 (thorough 2000) x element classes {0,1,2,p-1,p-2,p/2,random,random} scheduled so every (x-class,y-class) pair occurs; multi-call histories; ideal and Chou-Orlandi base OT. BMR: FxSend/FxReceive for all (a,b) x 64 seeds; FxkSend/FxkReceive for b in {0,1} x s in {0, all-ones, every single bit, patterns}. " +
			"distinct_nontrivial = distinct (modulus, x-class, y-class, m mod 512, chunks) for VOLE plus distinct (a,b,r)/(b,s) for BMR",
		Assumptions: []string{
			"VOLE sessions run free on real goroutines over an in-memory link (two-party message passing is schedule-independent); a 120 s watchdog only reports a hang",
			"bmr label randomness is routed through a seedable shim by a build overlay (import rewrite of bmr/wire.go generated from the current tree)",
		},
		Work:           work,
		Replay:         replay,
		QuickBudget:    80 * time.Second,
		ThoroughBudget: 15 * time.Minute,
	})
}
