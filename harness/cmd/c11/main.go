// C11 — the connection layer is a faithful, ordered, typed byte stream.
// The real p2p.Conn (rewritten onto the cooperative scheduler) is explored
// under every interleaving of its threads within a preemption bound and
// every read-fragmentation deviation within a deviation bound.
package main

import (
	"bytes"
	"encoding/json"
	"fmt"
	"io"
	"os"
	"os/exec"
	"sort"
	"strconv"
	"strings"
	"time"

	"github.com/markkurossi/mpc/ot"
	"github.com/markkurossi/mpc/p2p"
	"github.com/markkurossi/mpc/zverif/csched"
	"github.com/markkurossi/mpc/zverif/vnet"

	"verif/runner"
)

// Op is one typed send: kind b(yte) h(u16) w(u32) d(ata) s(tring) l(abel) z(sizes) F(lush)
type Op struct {
	K string `json:"k"`
	N int    `json:"n,omitempty"`
}

func (o Op) String() string {
	if o.K == "d" || o.K == "s" || o.K == "z" {
		return fmt.Sprintf("%s%d", o.K, o.N)
	}
	return o.K
}

type cs struct {
	A      []Op   `json:"a"`           // sent by side A (received by B)
	B      []Op   `json:"b,omitempty"` // sent by side B (both directions at once)
	Regime string `json:"regime"`      // read regime: all | 1 | 3 | 4096 | dev (all + deviations {1, half}) | eofdata (last bytes come with io.EOF)
	P      int    `json:"p"`
	F      int    `json:"f,omitempty"` // free-switch bound (0 = unbounded, n = at most n-1 non-default free switches)
	E      int    `json:"e"`
	Prefix []int  `json:"prefix,omitempty"` // replay: exact schedule
	// Transport: "" = the scheduler's unbounded in-memory link under p2p.NewConn; "pipe" = p2p.Pipe() (the
	// repository's own synchronous in-memory transport, its io.Pipe rewritten onto the scheduler)
	Transport string `json:"transport,omitempty"`
	// Duplex: each side sends from one thread and receives in ANOTHER thread on the same Conn at the same time (the
	// send path and the receive path of a connection have separate state)
	Duplex bool `json:"duplex,omitempty"`
	// U: unbounded exploration with sleep sets (every Mazurkiewicz trace x every read-size answer of the regime)
	U bool `json:"unbounded,omitempty"`
	// Race: not an exploration - the free-running race-detector pass (harness/racepass11)
	Race bool `json:"race,omitempty"`
}

// runRace runs both directions of a link free on unmodified code (in-memory pipe and loopback TCP) under the race
// detector: accesses between two synchronisation operations are atomic under the cooperative scheduler. Sampled.
func runRace(ctx *runner.Ctx) {
	count := "2"
	if !ctx.Quick() {
		count = "20"
	}
	args := []string{"test", "-race", "-vet=off", "-count=" + count}
	if ctx.Quick() {
		args = append(args, "-short")
	}
	args = append(args, runner.RaceDeadlineArg(ctx))
	if runner.RepoDir != "/repo" {
		args = append(args, "-modfile="+os.Getenv("VERIF_WORK")+"/go.mod")
	}
	cmd := exec.Command("go", append(args, "./racepass11/")...)
	cmd.Dir = "/verif/harness"
	cmd.Env = append(os.Environ(), "GOFLAGS=-mod=mod", "GOPROXY=off")
	out, err := cmd.CombinedOutput()
	ctx.Eval(1)
	o := string(out)
	tail := o
	if len(tail) > 1500 {
		tail = tail[len(tail)-1500:]
	}
	k := cs{Race: true, Regime: "free-running"}
	switch {
	case strings.Contains(o, "WARNING: DATA RACE"):
		i := strings.Index(o, "WARNING: DATA RACE")
		end := i + 1500
		if end > len(o) {
			end = len(o)
		}
		ctx.Violate("data-race", "race detector report in free-running duplex transfers: "+o[i:end], k)
	case err != nil && runner.RaceDeadlineHit(ctx, "duplex transfers", o):
	case err != nil && strings.Contains(o, "--- FAIL"):
		ctx.Violate("wrong-delivery.free-running", "free-running duplex transfers failed: "+tail, k)
	case err != nil:
		panic("race pass could not run: " + tail)
	default:
		ctx.Outcome("race-pass-clean/count=" + count)
		ctx.NontrivialN(1)
	}
}

func seqString(ops []Op) string {
	var s []string
	for _, o := range ops {
		s = append(s, o.String())
	}
	return strings.Join(s, " ")
}

func pat(k, i int) byte { return byte(31*k + 7*i + i>>8 + 1) }

type value struct {
	kind string
	b    []byte
	n    int
	ints []int
}

func mkValue(k int, o Op) value {
	v := value{kind: o.K}
	switch o.K {
	case "b":
		v.n = int(pat(k, 0))
	case "h":
		v.n = int(pat(k, 0))<<8 | int(pat(k, 1))
	case "w":
		v.n = int(pat(k, 0))<<24 | int(pat(k, 1))<<16 | int(pat(k, 2))<<8 | int(pat(k, 3))
	case "d", "s":
		v.b = make([]byte, o.N)
		for i := range v.b {
			v.b[i] = pat(k, i)
		}
	case "l":
		v.b = make([]byte, 16)
		for i := range v.b {
			v.b[i] = pat(k, i)
		}
	case "z":
		for i := 0; i < o.N; i++ {
			v.ints = append(v.ints, int(pat(k, i))<<16|i)
		}
	}
	return v
}

func sendAll(conn *p2p.Conn, ops []Op) error {
	var ld ot.LabelData
	for k, o := range ops {
		v := mkValue(k, o)
		var err error
		switch o.K {
		case "b":
			err = conn.SendByte(byte(v.n))
		case "h":
			err = conn.SendUint16(v.n)
		case "w":
			err = conn.SendUint32(v.n)
		case "d":
			err = conn.SendData(v.b)
		case "s":
			err = conn.SendString(string(v.b))
		case "l":
			var l ot.Label
			l.SetBytes(v.b)
			err = conn.SendLabel(l, &ld)
		case "z":
			err = conn.SendInputSizes(v.ints)
		case "F":
			err = conn.Flush()
		}
		if err != nil {
			return fmt.Errorf("send #%d %s: %v", k, o, err)
		}
	}
	return nil
}

// recvAll returns "" if everything matched, else a description.
// held is a received value the receiver keeps (the slice exactly as the connection returned it, not a copy).
type held struct {
	k    int
	o    Op
	got  []byte
	want []byte
}

// recheck compares the kept values again: what a receive returned must not change when later items are received,
// the stream ends or the connection is closed.
func recheck(hs []held) string {
	for _, h := range hs {
		if !bytes.Equal(h.got, h.want) {
			return fmt.Sprintf("the value returned by receive #%d %s changed afterwards (first difference at %d): the returned slice aliases the connection's buffer", h.k, h.o, firstDiff(h.got, h.want))
		}
	}
	return ""
}

func recvAll(conn *p2p.Conn, ops []Op, keep *[]held) string {
	var ld ot.LabelData
	for k, o := range ops {
		v := mkValue(k, o)
		switch o.K {
		case "b":
			got, err := conn.ReceiveByte()
			if err != nil || int(got) != v.n {
				return fmt.Sprintf("receive #%d %s: got %v,%v want %v", k, o, got, err, v.n)
			}
		case "h":
			got, err := conn.ReceiveUint16()
			if err != nil || got != v.n {
				return fmt.Sprintf("receive #%d %s: got %#x,%v want %#x", k, o, got, err, v.n)
			}
		case "w":
			got, err := conn.ReceiveUint32()
			if err != nil || got != v.n {
				return fmt.Sprintf("receive #%d %s: got %#x,%v want %#x", k, o, got, err, v.n)
			}
		case "d":
			got, err := conn.ReceiveData()
			if err != nil || !bytes.Equal(got, v.b) {
				return fmt.Sprintf("receive #%d %s: %d bytes, err %v; first difference at %d", k, o, len(got), err, firstDiff(got, v.b))
			}
			*keep = append(*keep, held{k, o, got, v.b})
		case "s":
			got, err := conn.ReceiveString()
			if err != nil || got != string(v.b) {
				return fmt.Sprintf("receive #%d %s: %d bytes, err %v", k, o, len(got), err)
			}
		case "l":
			var l, want ot.Label
			want.SetBytes(v.b)
			err := conn.ReceiveLabel(&l, &ld)
			if err != nil || !l.Equal(want) {
				return fmt.Sprintf("receive #%d %s: got %v,%v want %v", k, o, l, err, want)
			}
		case "z":
			got, err := conn.ReceiveInputSizes()
			if err != nil || fmt.Sprint(got) != fmt.Sprint(v.ints) && !(len(got) == 0 && len(v.ints) == 0) {
				return fmt.Sprintf("receive #%d %s: got %v,%v want %v", k, o, got, err, v.ints)
			}
		}
	}
	return ""
}

func firstDiff(a, b []byte) int {
	for i := 0; i < len(a) && i < len(b); i++ {
		if a[i] != b[i] {
			return i
		}
	}
	if len(a) != len(b) {
		if len(a) < len(b) {
			return len(a)
		}
		return len(b)
	}
	return -1
}

type side struct {
	sendErr  error
	recvDiff string
	eofOK    bool
	eofDesc  string
	closeErr error
	sent     uint64
	recvd    uint64
	done     bool
}

type world struct {
	a, b   *vnet.End
	sa, sb side
}

func regimeAlts(regime string) func(off int64, avail, want int) []int {
	if strings.HasPrefix(regime, "tail") {
		// the FIRST read leaves k bytes of the reader's buffer free although more data is pending (a transport
		// that hands over slightly less than asked); every later read returns all there is
		k, _ := strconv.Atoi(regime[4:])
		return func(off int64, avail, want int) []int {
			if off == 0 && want-k >= 1 && avail >= want-k {
				return []int{want - k}
			}
			return nil
		}
	}
	switch regime {
	case "1":
		return func(off int64, avail, want int) []int { return []int{1} }
	case "3":
		return func(off int64, avail, want int) []int { return []int{3} }
	case "4096":
		return func(off int64, avail, want int) []int { return []int{4096} }
	case "dev":
		return func(off int64, avail, want int) []int {
			if avail <= 1 {
				return nil
			}
			alts := []int{avail, 1}
			if avail > 3 {
				alts = append(alts, avail/2, avail-1)
			}
			return alts
		}
	}
	return nil
}

// system builds the closed system for one case; w is filled by the threads.
func system(k cs, w *world) func() {
	return func() {
		vnet.Reset()
		w.a, w.b = vnet.Pipe("A", "B")
		vnet.ReadAlts = regimeAlts(k.Regime)
		vnet.EOFWithData = k.Regime == "eofdata"
		var pa, pb *p2p.Conn
		if k.Transport == "pipe" {
			w.a, w.b = nil, nil
			pa, pb = p2p.Pipe()
		}
		party := func(end *vnet.End, s *side, send, recv []Op) func() {
			return func() {
				var conn *p2p.Conn
				switch {
				case k.Transport == "pipe" && s == &w.sa:
					conn = pa
				case k.Transport == "pipe":
					conn = pb
				default:
					conn = p2p.NewConn(end)
				}
				var kept []held
				if k.Duplex && len(recv) > 0 && len(send) > 0 {
					// the receiving half runs in a thread of its own while this thread sends
					rdone := false
					csched.GoNamed(csched.CurrentName()+"-recv", func() {
						s.recvDiff = recvAll(conn, recv, &kept)
						rdone = true
					})
					s.sendErr = sendAll(conn, send)
					if err := conn.Flush(); err != nil && s.sendErr == nil {
						s.sendErr = err
					}
					csched.SchedPoint("join", 0, func() bool { return rdone })
				} else {
					s.sendErr = sendAll(conn, send)
					if len(recv) > 0 && len(send) > 0 {
						// both directions: make our data visible before waiting for the peer's
						if err := conn.Flush(); err != nil && s.sendErr == nil {
							s.sendErr = err
						}
					}
					if s.sendErr == nil {
						s.recvDiff = recvAll(conn, recv, &kept)
					}
				}
				s.eofOK = true
				if len(send) == 0 {
					// pure receiver: after the sender closed, the stream ends with EOF
					_, err := conn.ReceiveByte()
					s.eofOK = err == io.EOF
					s.eofDesc = fmt.Sprint(err)
				}
				// closing delivers everything still buffered
				s.closeErr = conn.Close()
				if s.recvDiff == "" {
					s.recvDiff = recheck(kept)
				}
				s.sent = conn.Stats.Sent.Load()
				s.recvd = conn.Stats.Recvd.Load()
				s.done = true
			}
		}
		csched.GoNamed("A", party(w.a, &w.sa, k.A, k.B))
		csched.GoNamed("B", party(w.b, &w.sb, k.B, k.A))
	}
}

func judge(k cs, w *world, r *csched.Result) (string, string) {
	switch r.Outcome {
	case "ok":
	case "deadlock":
		return "deadlock", r.Detail
	case "stuck":
		return "HARNESS", r.Detail
	default:
		return r.Outcome, r.Detail
	}
	for name, s := range map[string]*side{"A": &w.sa, "B": &w.sb} {
		if s.sendErr != nil {
			return "send-error", name + ": " + s.sendErr.Error()
		}
		if s.recvDiff != "" {
			return "value", name + ": " + s.recvDiff
		}
		if s.closeErr != nil {
			return "close-error", name + ": " + s.closeErr.Error()
		}
		if !s.eofOK {
			return "eof", name + ": receive after the peer closed returned " + s.eofDesc
		}
	}
	if w.a == nil {
		// p2p.Pipe: no link counters to compare with; the two ends must agree with each other
		if w.sa.sent != w.sb.recvd || w.sb.sent != w.sa.recvd {
			return "stats-ends", fmt.Sprintf("A sent %d / B received %d; B sent %d / A received %d", w.sa.sent, w.sb.recvd, w.sb.sent, w.sa.recvd)
		}
		return "", ""
	}
	ar, aw := w.a.Counters()
	br, bw := w.b.Counters()
	if w.sa.sent != uint64(aw) || w.sb.sent != uint64(bw) {
		return "stats-sent", fmt.Sprintf("Stats.Sent A=%d B=%d but bytes written to the link A=%d B=%d", w.sa.sent, w.sb.sent, aw, bw)
	}
	if w.sa.recvd != uint64(ar) || w.sb.recvd != uint64(br) {
		return "stats-recvd", fmt.Sprintf("Stats.Recvd A=%d B=%d but bytes read from the link A=%d B=%d", w.sa.recvd, w.sb.recvd, ar, br)
	}
	if w.a.Buffered() != 0 || w.b.Buffered() != 0 {
		return "leftover", fmt.Sprintf("%d/%d bytes left unread in the link", w.a.Buffered(), w.b.Buffered())
	}
	return "", ""
}

func sizeClass(ops []Op) string {
	big := false
	for _, o := range ops {
		if o.N >= 1<<20-64 {
			big = true
		}
	}
	if big {
		return "1MiB"
	}
	return "small"
}

func runCase(ctx *runner.Ctx, k cs) {
	runCaseSharded(ctx, k, 0, 1)
}

// runCaseSharded explores one system; with nshards > 1 the subtrees below the
// root execution are partitioned between the workers.
func runCaseSharded(ctx *runner.Ctx, k cs, shard, nshards int) {
	if k.Prefix != nil {
		// exact replay of one schedule
		w := &world{}
		r := csched.Run(k.Prefix, csched.Options{}, system(k, w))
		ctx.Eval(1)
		if kind, what := judge(k, w, r); kind != "" {
			report(ctx, k, kind, what, r)
		}
		return
	}
	x := &csched.Explorer{PBound: k.P, EBound: k.E, FBound: k.F, Shard: shard, NShards: nshards, Opts: csched.Options{HashStates: true}, Stop: ctx.Expired}
	if b := os.Getenv("C11_U_BUDGET"); b != "" && k.U {
		d, _ := time.ParseDuration(b)
		end := time.Now().Add(d)
		x.Stop = func() bool { return time.Now().After(end) }
	}
	if k.P >= 2 && k.F == 0 {
		x.ShareDepth = 2 // unbounded free switches make subtree sizes uneven: deal one level deeper
	}
	var w *world
	outcomes := map[string]bool{}
	explore := x.Explore
	if k.U {
		explore = func(system func(), visit func(r *csched.Result, p, e int) bool) {
			x.ExploreUnbounded(system, func(r *csched.Result) bool { return visit(r, -1, -1) })
		}
	}
	explore(func() {
		w = &world{}
		system(k, w)()
	}, func(r *csched.Result, p, e int) bool {
		ctx.Eval(1)
		for _, h := range r.States {
			ctx.State(h)
		}
		kind, what := judge(k, w, r)
		if kind == "HARNESS" {
			panic("harness: " + what)
		}
		if kind != "" {
			kk := k
			kk.Prefix = append([]int{}, r.Choices...)
			if kk.Prefix == nil {
				kk.Prefix = []int{}
			}
			report(ctx, kk, kind, fmt.Sprintf("%s [preemptions=%d read-deviations=%d]", what, p, e), r)
			return false
		}
		if k.U {
			outcomes[fmt.Sprintf("ok/unbounded/points=%d", len(r.Points)/8*8)] = true
		} else {
			outcomes[fmt.Sprintf("ok/points=%d", len(r.Points)/8*8)] = true
		}
		return true
	})
	if k.U {
		if shard == 0 {
			ctx.Count("unbounded_systems", 1)
		}
		ctx.Count("unbounded_executions", x.Executions)
		ctx.Count("unbounded_sleep_blocked", x.SleepBlocked)
		if x.Truncated {
			ctx.Count("unbounded_systems_cut", 1)
		}
	}
	if os.Getenv("C11_DEBUG") != "" || (ctx.Replay && k.U) {
		fmt.Fprintf(os.Stderr, "case A=[%s] B=[%s] regime=%s P=%d E=%d: %d executions, %d sleep-blocked, max points %d truncated=%v\n", seqString(k.A), seqString(k.B), k.Regime, k.P, k.E, x.Executions, x.SleepBlocked, x.MaxPoints, x.Truncated)
	}
	ctx.Count("executions", x.Executions)
	ctx.Count("transitions", x.Transitions)
	ctx.Max("max_choice_points_per_execution", int64(x.MaxPoints))
	if x.Truncated {
		ctx.Incomplete("exploration of a case was cut (deadline or queue cap)")
	} else if shard == 0 {
		ctx.NontrivialN(1)
	}
	for o := range outcomes {
		ctx.Outcome(o)
	}
}

func report(ctx *runner.Ctx, k cs, kind, what string, r *csched.Result) {
	dir := "one-way"
	if len(k.B) > 0 {
		dir = "both-ways"
	}
	ctx.Violate(fmt.Sprintf("%s.%s.%s.regime-%s", kind, dir, sizeClass(append(append([]Op{}, k.A...), k.B...)), k.Regime),
		fmt.Sprintf("%s :: A sends [%s] B sends [%s] regime=%s schedule=%v", what, seqString(k.A), seqString(k.B), k.Regime, r.Choices), k)
}

func work(ctx *runner.Ctx) {
	if ctx.Shard == 0 {
		runRace(ctx)
	}
	if err := csched.SelfTest(); err != nil {
		panic(err)
	}
	small := []Op{{K: "b"}, {K: "h"}, {K: "w"}, {K: "l"}, {K: "s", N: 3}, {K: "d", N: 0}, {K: "d", N: 1}, {K: "d", N: 17}, {K: "z", N: 0}, {K: "z", N: 3}}
	medium := []Op{{K: "d", N: 65535}, {K: "d", N: 65536}, {K: "d", N: 65537}, {K: "d", N: 65532}, {K: "d", N: 3 * 65536}}
	fixed := []Op{{K: "b"}, {K: "h"}, {K: "w"}, {K: "l"}}
	var big []Op
	for d := 0; d <= 16; d++ {
		big = append(big, Op{K: "d", N: 1<<20 - d})
	}
	big = append(big, Op{K: "d", N: 1<<20 + 1})
	flush := Op{K: "F"}

	var cases []cs
	quick := ctx.Quick()
	// 1. all sequences of length <= 2 over small ops with every flush placement
	var seqs1, seqs2 [][]Op
	for _, x := range small {
		seqs1 = append(seqs1, []Op{x}, []Op{x, flush})
		for _, y := range small {
			seqs2 = append(seqs2, []Op{x, y}, []Op{x, flush, y}, []Op{x, y, flush}, []Op{x, flush, y, flush})
		}
	}
	for i, s := range seqs1 {
		// deepest exploration on the shortest systems
		if !quick || i == 15 {
			cases = append(cases, cs{A: s, Regime: "all", P: 2})
		}
		if !quick || i%4 == 0 {
			cases = append(cases, cs{A: s, Regime: "dev", P: 1, E: 1})
		}
		cases = append(cases, cs{A: s, Regime: "dev", P: 0, E: 2})
	}
	for i, s := range seqs2 {
		cases = append(cases, cs{A: s, Regime: "dev", P: 0, E: 2})
		if quick {
			if i%32 == 0 {
				cases = append(cases, cs{A: s, Regime: "all", P: 1})
			}
			if i%80 == 7 {
				cases = append(cases, cs{A: s, Regime: "dev", P: 1, E: 1})
			}
			continue
		}
		cases = append(cases, cs{A: s, Regime: "dev", P: 1, E: 1})
		if i%6 == 0 {
			cases = append(cases, cs{A: s, Regime: "all", P: 2})
		}
		if i%3 == 0 {
			cases = append(cases, cs{A: s, Regime: "1", P: 1})
		}
	}
	// 2. three-op sequences (thorough: all; quick: a stride)
	n3 := 0
	for _, x := range small {
		for _, y := range small {
			for _, z := range small {
				n3++
				if quick && n3%100 != 0 {
					continue
				}
				cases = append(cases, cs{A: []Op{x, y, flush, z}, Regime: "all", P: 1})
				if !quick {
					cases = append(cases, cs{A: []Op{x, y, z}, Regime: "dev", P: 0, E: 2})
				}
			}
		}
	}
	// 2z. a transport that returns the last bytes of a closed stream together with io.EOF
	for _, seq := range [][]Op{{{K: "w"}, {K: "s", N: 3}}, {{K: "b"}}, {{K: "d", N: 17}, flush, {K: "l"}}, {{K: "d", N: 65537}, {K: "h"}}} {
		cases = append(cases, cs{A: seq, Regime: "eofdata", P: 1})
	}
	// 3a. duplex use: on each side one thread sends while another receives on the same Conn
	for _, x := range []Op{{K: "w"}, {K: "d", N: 17}} {
		for _, y := range []Op{{K: "b"}, {K: "l"}} {
			cases = append(cases, cs{A: []Op{x, flush, y}, B: []Op{y, x}, Regime: "all", P: 1, F: 3, Duplex: true})
		}
	}
	cases = append(cases, cs{A: []Op{{K: "b"}, {K: "b"}, {K: "h"}}, B: []Op{{K: "h"}, {K: "b"}}, Regime: "all", P: 2, F: 2, Duplex: true})
	// 3. both directions at once
	for i, x := range small {
		for j, y := range small {
			if quick && (i+j)%9 != 0 {
				continue
			}
			if quick {
				// both directions at once have four busy threads: bound the free switches too
				cases = append(cases, cs{A: []Op{x, y}, B: []Op{y, x}, Regime: "all", P: 1, F: 4})
			} else {
				cases = append(cases, cs{A: []Op{x, y}, B: []Op{y, x}, Regime: "all", P: 1})
			}
			if !quick {
				cases = append(cases, cs{A: []Op{x, flush, y}, B: []Op{y}, Regime: "dev", P: 0, E: 2})
			}
		}
	}
	fb := 2 // big transfers: at most one non-default free switch (thorough: two)
	if !quick {
		fb = 3
	}
	// 4. write-buffer boundary (64 KiB)
	for _, m := range medium {
		for _, f := range append([]Op{{}}, fixed...) {
			var s []Op
			if f.K != "" {
				s = append(s, f)
			}
			s = append(s, m, Op{K: "w"})
			cases = append(cases, cs{A: s, Regime: "all", P: 0, F: fb}, cs{A: s, Regime: "4096", P: 0, F: fb})
			if !quick {
				cases = append(cases, cs{A: s, Regime: "4096", P: 1})
				if f.K == "" {
					cases = append(cases, cs{A: s, Regime: "dev", P: 0, E: 1})
				}
			}
		}
		cases = append(cases, cs{A: []Op{m, m}, B: []Op{m}, Regime: "all", P: 0, F: fb})
	}
	// 5. read-buffer boundary (1 MiB): [x] data(2^20-d) y for fixed-width x,y
	for bi, b := range big {
		for xi, x := range append([]Op{{}}, fixed...) {
			for yi, y := range fixed {
				if quick && (bi+xi+yi)%3 != 0 {
					continue
				}
				var s []Op
				if x.K != "" {
					s = append(s, x)
				}
				s = append(s, b, y, Op{K: "w"})
				p := 0
				if !quick {
					p = 1
				}
				cases = append(cases, cs{A: s, Regime: "all", P: p, F: fb})
				if (bi+xi+yi)%6 == 0 {
					cases = append(cases, cs{A: s, Regime: "4096", P: 0, F: fb})
				}
			}
		}
	}
	// 6. buffer-cycling sequences: more flushes than the Conn has write buffers (3), so that a buffer handed
	// back too early is refilled while its previous content is still unwritten
	cyc := [][]Op{
		{{K: "b"}, flush, {K: "h"}, flush, {K: "w"}, flush, {K: "l"}, flush, {K: "b"}},
		{{K: "d", N: 17}, flush, {K: "d", N: 1}, flush, {K: "w"}, flush, {K: "s", N: 3}, flush, {K: "l"}, flush, {K: "w"}},
		{{K: "w"}, flush, {K: "w"}, flush, {K: "w"}, flush, {K: "w"}, flush, {K: "w"}, flush, {K: "w"}, flush, {K: "w"}},
	}
	for i, c := range cyc {
		if quick && i == 2 {
			continue
		}
		cases = append(cases, cs{A: c, Regime: "all", P: 1})
		if !quick {
			cases = append(cases, cs{A: c, Regime: "all", P: 2}, cs{A: c, B: c, Regime: "all", P: 1})
		}
	}
	// 7. a flush that is large for a "small message" followed by a small flush / Close, at 2 preemptions: the writer
	// goroutine can be stopped between taking a buffer and writing it while the sender goes on
	mixed := [][]Op{
		{{K: "d", N: 200}, flush, {K: "b"}},
		{{K: "d", N: 200}, flush, {K: "w"}, flush},
		{{K: "d", N: 5000}, {K: "h"}},
	}
	for i, m := range mixed {
		if quick && i >= 1 {
			cases = append(cases, cs{A: m, Regime: "all", P: 1})
			continue
		}
		cases = append(cases, cs{A: m, Regime: "all", P: 2})
	}
	// 8. both variable-length kinds (data and string) at the write-buffer boundary and beyond, and every item kind
	// straddling the end of the 64 KiB write buffer behind a data item that leaves 0..8 bytes free
	for _, kind := range []string{"d", "s"} {
		for _, n := range []int{65531, 65532, 65533, 65534, 65535, 65536, 65537, 2*65536 + 3, 1<<20 + 1} {
			if kind == "d" && (n == 65535 || n == 65536 || n == 65537 || n == 65532) {
				continue // section 4
			}
			if quick && kind == "d" && n < 65536 {
				continue
			}
			cases = append(cases, cs{A: []Op{{K: kind, N: n}, {K: "w"}}, Regime: "all", P: 0, F: fb})
		}
	}
	// payloads of several read buffers (each refill of the 1 MiB read buffer is a separate code path)
	multi := []int{2<<20 + 5, 3 << 20}
	if !quick {
		multi = []int{2<<20 - 4, 2<<20 - 3, 2 << 20, 2<<20 + 1, 2<<20 + 5, 3 << 20, 3<<20 + 65536 + 1, 5<<20 + 3}
	}
	for i, n := range multi {
		kind := "d"
		if i%2 == 1 {
			kind = "s"
		}
		cases = append(cases, cs{A: []Op{{K: "h"}, {K: kind, N: n}, {K: "w"}}, Regime: "all", P: 0, F: fb})
		cases = append(cases, cs{A: []Op{{K: kind, N: n}, {K: "b"}}, Regime: "4096", P: 0, F: fb})
		if !quick || i == 0 {
			cases = append(cases, cs{A: []Op{{K: kind, N: n}, {K: "l"}}, Regime: "all", Transport: "pipe", P: 0, F: fb})
		}
	}
	// the read side's twin of the straddling family below: the first Read leaves k bytes free at the end of the 1 MiB
	// read buffer, a data item ends j bytes before the bytes read so far, and the next item (every kind) straddles
	// both the bytes read so far and the end of the buffer (seed C11-9: Fill moving the unread bytes to the front
	// only when the buffer is completely full)
	for ki, k := range []int{1, 2, 3, 5, 8, 13, 15, 17, 64} {
		for ji, j := range []int{0, 1, 3, 7, 15} {
			for ii, it := range []Op{{K: "l"}, {K: "w"}, {K: "h"}, {K: "d", N: 17}, {K: "s", N: 3}, {K: "b"}} {
				if quick && (ki+ji+ii)%3 != 0 {
					continue
				}
				cases = append(cases, cs{A: []Op{{K: "d", N: 1<<20 - k - 4 - j}, it, {K: "l"}, {K: "w"}}, Regime: fmt.Sprintf("tail%d", k), P: 0, F: fb})
			}
		}
	}
	straddle := append(append([]Op{}, fixed...), Op{K: "s", N: 3}, Op{K: "z", N: 3}, Op{K: "d", N: 17}, Op{K: "s", N: 0})
	for k := 0; k <= 8; k++ {
		for i, it := range straddle {
			if quick && (k+i)%2 != 0 {
				continue
			}
			// data item: 4-byte length + payload fills the buffer up to k bytes before its end
			cases = append(cases, cs{A: []Op{{K: "d", N: 65536 - 4 - k}, it, {K: "b"}}, Regime: "all", P: 0, F: fb})
		}
	}
	// 9. the repository's own in-memory transport p2p.Pipe() (synchronous: a write completes when it has been read)
	for i, s := range seqs1 {
		if quick && i%2 == 1 {
			continue
		}
		cases = append(cases, cs{A: s, Regime: "all", Transport: "pipe", P: 1})
	}
	for i, s := range seqs2 {
		if i%16 != 0 && quick || i%4 != 0 {
			continue
		}
		cases = append(cases, cs{A: s, Regime: "all", Transport: "pipe", P: 1, F: fb})
	}
	for i, x := range small {
		if quick && i%3 != 0 {
			continue
		}
		cases = append(cases, cs{A: []Op{x, flush, {K: "w"}}, B: []Op{{K: "h"}, x}, Regime: "all", Transport: "pipe", P: 1, F: fb})
	}
	for _, n := range []int{65535, 65536, 65537, 3*65536 + 1} {
		cases = append(cases, cs{A: []Op{{K: "d", N: n}, {K: "w"}}, Regime: "all", Transport: "pipe", P: 0, F: fb})
		cases = append(cases, cs{A: []Op{{K: "b"}, {K: "s", N: n}, {K: "l"}}, Regime: "all", Transport: "pipe", P: 0, F: fb})
	}
	// the long fixed sequence of the repository's own test shape
	long := []Op{{K: "b"}, {K: "h"}, {K: "w"}, {K: "d", N: 17}, {K: "s", N: 3}, {K: "l"}, {K: "z", N: 3}, flush, {K: "d", N: 65537}, {K: "w"}, {K: "l"}}
	cases = append(cases, cs{A: long, Regime: "dev", P: 0, E: 2, F: fb}, cs{A: long, B: long, Regime: "all", P: 0, F: fb})
	if !quick {
		cases = append(cases, cs{A: long, Regime: "all", P: 1}, cs{A: long, B: long, Regime: "all", P: 1})
	}

	// heaviest systems first, dealt round-robin, so that the workers finish together
	weight := func(k cs) int {
		switch {
		case k.P >= 2, k.P >= 1 && len(k.A)+len(k.B) >= 4:
			return 150000
		case k.P == 1 && k.E >= 1:
			return 20000
		case k.P == 1:
			return 12000
		}
		return 700 * (k.E + 1)
	}
	sort.SliceStable(cases, func(i, j int) bool { return weight(cases[i]) > weight(cases[j]) })
	ctx.Note(fmt.Sprintf("case list: %d systems (operation sequence x flush placement x direction x read regime), each explored to its preemption/deviation bound", len(cases)))
	light := 0
	for i, k := range cases {
		if ctx.Expired() {
			return
		}
		if weight(k) >= 100000 && !ctx.Replay {
			// heavy system: every worker explores its share of the subtrees
			if ctx.Shard == 0 {
				ctx.Sample(k)
			}
			t0 := time.Now()
			runCaseSharded(ctx, k, ctx.Shard, ctx.NShards)
			if os.Getenv("C11_DEBUG") != "" {
				dbg(ctx, "C11T heavy %.2fs shard=%d %s\n", time.Since(t0).Seconds(), ctx.Shard, desc(k))
			}
			continue
		}
		light++
		if !ctx.Mine(light) {
			continue
		}
		t0 := time.Now()
		runCase(ctx, k)
		if d := time.Since(t0); os.Getenv("C11_DEBUG") != "" && d > 300*time.Millisecond {
			dbg(ctx, "C11T light %.2fs %s\n", d.Seconds(), desc(k))
		}
		if i%400 == 0 {
			ctx.Sample(k)
		}
	}
}

func dbg(ctx *runner.Ctx, format string, a ...interface{}) {
	f, err := os.OpenFile(fmt.Sprintf("%s.%d", os.Getenv("C11_DEBUG"), ctx.Shard), os.O_APPEND|os.O_CREATE|os.O_WRONLY, 0644)
	if err != nil {
		return
	}
	fmt.Fprintf(f, format, a...)
	f.Close()
}

func desc(k cs) string {
	return fmt.Sprintf("A=[%s] B=[%s] regime=%s%s P=%d E=%d F=%d", seqString(k.A), seqString(k.B), k.Regime, k.Transport, k.P, k.E, k.F)
}

func replay(ctx *runner.Ctx, raw json.RawMessage) {
	var k cs
	if err := json.Unmarshal(raw, &k); err != nil {
		panic(err)
	}
	if k.Race {
		runRace(ctx)
		return
	}
	runCase(ctx, k)
}

func main() {
	runner.Main(runner.Spec{
		ID:    "C11",
		Level: "model_checking",
		Rule: "stateless model checking of the real p2p.Conn under a controlled scheduler: for each closed system (typed-send sequence x flush placement x one/both directions x read regime) EVERY interleaving of the party threads and Conn writer goroutines with <= P preemptions and <= E read-size deviations (Read returns 1 byte / half / all-but-one instead of everything) is executed; oracle per execution: values equal in order and content (and still equal when compared again after the later receives and Close: a returned slice must not alias the read buffer), EOF after close, Stats.Sent/Recvd equal the link's byte counters, nothing left unread, no deadlock/panic. " +
			"states = distinct abstract scheduler states (thread program points + shim object states); transitions = scheduling steps; traces_validated_against_impl = complete executions of the implementation (every trace IS an implementation run)",
		Assumptions: []string{
			"sources of p2p are rewritten at check time (sync/atomic -> scheduler shims, channels -> csched.Chan, go -> csched.Go, net -> in-memory links); code between two synchronisation operations runs atomically",
			"links are unbounded FIFOs (a write never blocks); the read regime eofdata returns the last bytes of a closed stream together with io.EOF",
		},
		Work:           work,
		Replay:         replay,
		QuickBudget:    80 * time.Second,
		ThoroughBudget: 20 * time.Minute,
	})
}
