// C09 — compiler options and targets never change a program's meaning.
package main

import (
	"encoding/json"
	"fmt"
	"math/big"
	"strings"
	"time"

	"github.com/markkurossi/mpc/circuit"
	"github.com/markkurossi/mpc/compiler/utils"

	"verif/bitsim"
	"verif/mpcl"
	"verif/mpclgen"
	"verif/runner"
	"verif/valpha"
)

type cs struct {
	Src    string   `json:"src"`
	Fam    string   `json:"family"`
	Inputs []string `json:"inputs,omitempty"` // replay: one input vector (per argument)
	Config string   `json:"config,omitempty"` // replay: the configuration that disagreed
	// NonZero lists arguments that are never given the value zero (raw divisors)
	NonZero []int `json:"nonzero,omitempty"`
}

type config struct {
	target utils.Target
	prune  bool
	thr    int
}

func (c config) String() string {
	return fmt.Sprintf("%s/prune=%v/thr=%d", c.target, c.prune, c.thr)
}

func configs(quick bool) []config {
	var res []config
	thrs := []int{0, 8, 21, 64, 1000000}
	for _, t := range []utils.Target{utils.TargetYao, utils.TargetGMW} {
		for _, p := range []bool{false, true} {
			for _, th := range thrs {
				if t == utils.TargetGMW && th != 0 && th != 8 {
					continue // the GMW target does not consult the threshold: two values suffice to show that
				}
				res = append(res, config{t, p, th})
			}
		}
	}
	return res
}

func argWidths(c *circuit.Circuit) []int {
	var w []int
	for _, a := range bitsim.FlatArgs(c) {
		w = append(w, int(a.Type.Bits))
	}
	return w
}

// vectors enumerates input tuples: exhaustive for <= limit bits in total, else the boundary alphabet cross product.
func vectors(widths []int, limit int, f func(v []*big.Int)) bool {
	total := 0
	for _, w := range widths {
		total += w
	}
	v := make([]*big.Int, len(widths))
	if total <= limit {
		for x := 0; x < 1<<uint(total); x++ {
			off := 0
			for i, w := range widths {
				v[i] = big.NewInt(int64(x >> uint(off) & (1<<uint(w) - 1)))
				off += w
			}
			f(v)
		}
		return true
	}
	alph := make([][]*big.Int, len(widths))
	for i, w := range widths {
		if w <= 5 {
			for x := 0; x < 1<<uint(w); x++ {
				alph[i] = append(alph[i], big.NewInt(int64(x)))
			}
		} else {
			alph[i] = valpha.Unsigned(w)
			// small odd values: divisors with long reciprocal expansions (the targets divide differently)
			for _, x := range []int64{5, 7, 13, 25, 27, 57, 100, 127, 255} {
				if w >= 8 || x < 1<<uint(w) {
					alph[i] = append(alph[i], big.NewInt(x))
				}
			}
		}
	}
	var rec func(i int)
	rec = func(i int) {
		if i == len(widths) {
			f(v)
			return
		}
		for _, x := range alph[i] {
			v[i] = x
			rec(i + 1)
		}
	}
	rec(0)
	return false
}

func runCase(ctx *runner.Ctx, k cs) {
	cfgs := configs(ctx.Quick())
	var circs []*circuit.Circuit
	var errs []string
	npanics := 0
	for _, cf := range cfgs {
		c, _, err, panicked := mpcl.Compile(k.Src, mpcl.Opts{Target: cf.target, Prune: cf.prune, MultArray: cf.thr}, nil)
		if panicked {
			// a crash of the compiler is like a rejection as far as this property goes: there is no circuit. It
			// contradicts the statement only if another configuration does produce one (checked below).
			npanics++
		}
		circs = append(circs, c)
		if err != nil {
			errs = append(errs, err.Error())
		} else {
			errs = append(errs, "")
		}
	}
	if npanics == len(cfgs) {
		ctx.Outcome("compiler-panic-in-every-configuration(recorded)/" + k.Fam)
		ctx.Note("compiler panic in every configuration (" + k.Fam + "): " + first(errs[0]) + " :: " + oneLine(k.Src))
		return
	}
	for i := range cfgs {
		if (errs[i] == "") != (errs[0] == "") {
			ctx.Violate("compiles-in-one-configuration-only."+k.Fam, fmt.Sprintf("%s: %q vs %s: %q :: %s", cfgs[0], errs[0], cfgs[i], errs[i], oneLine(k.Src)), k)
			return
		}
	}
	if errs[0] != "" {
		ctx.Outcome("shape-rejected-by-compiler/" + k.Fam)
		ctx.Note("rejected shape (" + k.Fam + "): " + first(errs[0]))
		return
	}
	ref := circs[0]
	widths := argWidths(ref)
	for i, c := range circs {
		if fmt.Sprint(argWidths(c)) != fmt.Sprint(widths) || c.Outputs.Size() != ref.Outputs.Size() {
			ctx.Violate("signature."+k.Fam, fmt.Sprintf("configuration %s changes the I/O signature :: %s", cfgs[i], oneLine(k.Src)), k)
			return
		}
		if c.Inputs.Size() > c.NumWires || c.Outputs.Size() > c.NumWires {
			ctx.Violate("malformed-circuit."+k.Fam, fmt.Sprintf("configuration %s: fewer wires than I/O bits :: %s", cfgs[i], oneLine(k.Src)), k)
			return
		}
	}
	nin := ref.Inputs.Size()
	nout := ref.Outputs.Size()
	var batch [][]*big.Int
	lanes := make([]uint64, nin)
	bad := false
	flush := func() {
		if len(batch) == 0 || bad {
			batch = batch[:0]
			return
		}
		for i := range lanes {
			lanes[i] = 0
		}
		for l, v := range batch {
			off := 0
			for i, w := range widths {
				for b := 0; b < w; b++ {
					if v[i].Bit(b) == 1 {
						lanes[off+b] |= 1 << uint(l)
					}
				}
				off += w
			}
		}
		var refOut []uint64
		for ci, c := range circs {
			w := bitsim.Eval64(c, lanes)
			out := w[c.NumWires-nout:]
			if ci == 0 {
				refOut = append([]uint64(nil), out...)
				continue
			}
			mask := uint64(1)<<uint(len(batch)) - 1
			if len(batch) == 64 {
				mask = ^uint64(0)
			}
			for b := 0; b < nout; b++ {
				if d := (out[b] ^ refOut[b]) & mask; d != 0 {
					lane := 0
					for d&1 == 0 {
						d >>= 1
						lane++
					}
					kk := k
					kk.Inputs = nil
					for _, x := range batch[lane] {
						kk.Inputs = append(kk.Inputs, x.String())
					}
					kk.Config = cfgs[ci].String()
					cls := "yao-vs-gmw"
					if cfgs[ci].target == cfgs[0].target {
						cls = "threshold"
						if cfgs[ci].thr == cfgs[0].thr {
							cls = "prune"
						}
					}
					ctx.Violate(fmt.Sprintf("meaning-changes.%s.%s", cls, k.Fam),
						fmt.Sprintf("inputs %v: output bit %d differs between %s and %s :: %s", kk.Inputs, b, cfgs[0], cfgs[ci], oneLine(k.Src)), kk)
					bad = true
					return
				}
			}
		}
		ctx.Eval(int64(len(batch) * len(circs)))
		batch = batch[:0]
	}
	if k.Inputs != nil {
		var v []*big.Int
		for _, s := range k.Inputs {
			x, _ := new(big.Int).SetString(s, 10)
			v = append(v, x)
		}
		batch = append(batch, v)
		flush()
		return
	}
	limit := 16
	if ctx.Quick() {
		limit = 12
	}
	exh := vectors(widths, limit, func(v []*big.Int) {
		for _, nz := range k.NonZero {
			if nz < len(v) && v[nz].Sign() == 0 {
				return
			}
		}
		batch = append(batch, append([]*big.Int(nil), v...))
		if len(batch) == 64 {
			flush()
		}
	})
	flush()
	if bad {
		return
	}
	// pruning only removes: no gate of the pruned circuit may be unused
	for i, c := range circs {
		if !cfgs[i].prune {
			continue
		}
		used := make([]bool, c.NumWires)
		for _, g := range c.Gates {
			used[g.Input0] = true
			if g.Op != circuit.INV {
				used[g.Input1] = true
			}
		}
		for gi, g := range c.Gates {
			if !used[g.Output] && int(g.Output) < c.NumWires-nout {
				ctx.Violate("pruned-circuit-has-dead-gate."+k.Fam, fmt.Sprintf("configuration %s: gate %d (%v) drives nothing :: %s", cfgs[i], gi, g, oneLine(k.Src)), k)
				return
			}
		}
		if c.NumGates > circs[i-func() int {
			// index of the same configuration without pruning
			for j := range cfgs {
				if cfgs[j].target == cfgs[i].target && cfgs[j].thr == cfgs[i].thr && !cfgs[j].prune {
					return i - j
				}
			}
			return 0
		}()].NumGates {
			ctx.Violate("pruning-adds-gates."+k.Fam, fmt.Sprintf("configuration %s has more gates than the unpruned circuit :: %s", cfgs[i], oneLine(k.Src)), k)
			return
		}
	}
	ctx.Nontrivial(k.Src)
	if exh {
		ctx.Outcome("same-meaning/all-inputs")
	} else {
		ctx.Outcome("same-meaning/boundary-inputs")
	}
}

func oneLine(s string) string {
	s = strings.TrimPrefix(s, "package main\n\n")
	return strings.ReplaceAll(strings.ReplaceAll(s, "\n\t", " ; "), "\n", " ")
}

func first(s string) string {
	if i := strings.Index(s, "\n"); i > 0 {
		s = s[:i]
	}
	if len(s) > 160 {
		s = s[:160]
	}
	return s
}

func opProg(t string, w int, op string) string {
	T := fmt.Sprintf("%s%d", t, w)
	switch op {
	case "raw/", "raw%":
		// no constant anywhere: the divisor is excluded from the inputs instead (cs.NonZero)
		return fmt.Sprintf("package main\n\nfunc main(a, b %s) %s {\n\treturn a %s b\n}\n", T, T, op[3:])
	case "neg":
		return fmt.Sprintf("package main\n\nfunc main(a, b %s) %s {\n\treturn -a ^ b\n}\n", T, T)
	case "0-":
		return fmt.Sprintf("package main\n\nfunc main(a, b %s) (%s, %s) {\n\treturn 0 - a, b - 0\n}\n", T, T, T)
	case "shl-sub":
		return fmt.Sprintf("package main\n\nfunc main(a, b %s) %s {\n\treturn (a << %d) - b\n}\n", T, T, 1+w/3)
	case "/", "%":
		return fmt.Sprintf("package main\n\nfunc main(a, b %s) %s {\n\treturn a %s (b | 1)\n}\n", T, T, op)
	case "<", "<=", ">", ">=", "==", "!=":
		return fmt.Sprintf("package main\n\nfunc main(a, b %s) bool {\n\treturn a %s b\n}\n", T, op)
	case "<<", ">>":
		return fmt.Sprintf("package main\n\nfunc main(a, b %s) %s {\n\treturn (a %s %d) ^ b\n}\n", T, T, op, 1+w/3)
	}
	return fmt.Sprintf("package main\n\nfunc main(a, b %s) %s {\n\treturn a %s b\n}\n", T, T, op)
}

var structured = []string{
	"package main\n\nfunc main(a, b uint6) (uint6, bool) {\n\tx := a * b\n\ty := a + b\n\tif x > y {\n\t\treturn x - y, true\n\t}\n\treturn y / (a | 1), false\n}\n",
	"package main\n\nfunc main(a, b int5) int5 {\n\tvar r int5\n\tfor i := 0; i < 3; i++ {\n\t\tif (a >> i) & 1 == 1 {\n\t\t\tr = r + b\n\t\t} else {\n\t\t\tr = r - 1\n\t\t}\n\t}\n\treturn r * a\n}\n",
	"package main\n\nfunc main(a [3]uint4, b uint4) uint4 {\n\tvar acc uint4\n\tfor i := 0; i < 3; i++ {\n\t\tacc = acc + a[i]*b\n\t}\n\treturn acc % (b | 1)\n}\n",
	"package main\n\ntype P struct {\n\tx uint5\n\ty uint5\n}\n\nfunc f(p P, k uint5) (uint5, uint5) {\n\treturn p.x*k + p.y, p.y / (k | 1)\n}\n\nfunc main(a, b uint5) uint5 {\n\tvar p P\n\tp.x = a\n\tp.y = b\n\tu, v := f(p, a^b)\n\treturn u - v\n}\n",
	"package main\n\nfunc main(a, b uint8) uint8 {\n\tif a == 0 {\n\t\treturn b\n\t}\n\tif b == 0 {\n\t\treturn a\n\t}\n\treturn (a * 3) + (b * 5) + (a & b) + (a % 7)\n}\n",
}

// extraOps are operator programs that contain no non-zero constant (a constant keeps the compiler's shared
// one-wire alive and can mask differences between the optimisation passes).
var extraOps = []string{"raw/", "raw%", "neg", "0-", "shl-sub"}

func nonZeroFor(op string) []int {
	if strings.HasPrefix(op, "raw") {
		return []int{1}
	}
	return nil
}

func work(ctx *runner.Ctx) {
	mpcl.Quiet()
	quick := ctx.Quick()
	var cases []cs
	ops := []string{"+", "-", "*", "/", "%", "<", "<=", ">", ">=", "==", "!=", "&", "|", "^", "<<", ">>"}
	// (1) every operator at small widths with all inputs
	for _, t := range []string{"uint", "int"} {
		for w := 1; w <= 6; w++ {
			if t == "int" && w == 1 {
				continue
			}
			for _, op := range ops {
				cases = append(cases, cs{Src: opProg(t, w, op), Fam: "op-small"})
			}
			for _, op := range extraOps {
				cases = append(cases, cs{Src: opProg(t, w, op), Fam: "op-small-noconst", NonZero: nonZeroFor(op)})
			}
		}
	}
	// (2) multiplication at EVERY width in a range (algorithm and threshold switches), division/comparison at switch widths
	maxMul := 70
	if !quick {
		maxMul = 130
	}
	for w := 7; w <= maxMul; w++ {
		cases = append(cases, cs{Src: opProg("uint", w, "*"), Fam: "mul-width"})
		if !quick || w%5 == 0 {
			cases = append(cases, cs{Src: opProg("int", w, "*"), Fam: "mul-width"})
		}
	}
	sw := []int{7, 8, 9, 12, 16, 17, 21, 22, 24, 31, 32, 33, 48, 63, 64, 65}
	if !quick {
		sw = append(sw, 96, 127, 128, 129, 130)
	}
	for _, w := range sw {
		for _, t := range []string{"uint", "int"} {
			for _, op := range ops {
				if op == "*" {
					continue
				}
				if quick && (op == "/" || op == "%") && w > 33 {
					continue
				}
				cases = append(cases, cs{Src: opProg(t, w, op), Fam: "op-switch-width"})
			}
			for _, op := range extraOps {
				if quick && strings.HasPrefix(op, "raw") && w > 33 {
					continue
				}
				cases = append(cases, cs{Src: opProg(t, w, op), Fam: "op-switch-width-noconst", NonZero: nonZeroFor(op)})
			}
		}
	}
	// (2b) a deep operation whose result is partly masked to constants (and / shift / narrowing) and then consumed by
	// a comparison or another deep operation: constant propagation rewires gate inputs behind deep gates, and the
	// target-specific level sort and pruning work on what it leaves behind
	for _, t := range []string{"uint8", "int8", "uint6"} {
		for _, deep := range []string{"a * b", "a + b", "a / (b | 1)", "a * a + b"} {
			for _, mask := range []string{"(%s) & 15", "(%s) & 240", "(%s) >> 4", "(%s) << 4", "(%s) & 1", "((%s) & 15) | 32"} {
				for _, use := range []string{"%s == b", "%s < a", "%s * b", "%s + (b & 3)", "%s > 7"} {
					if quick && (t == "uint6" || strings.Contains(deep, "/")) && !strings.Contains(use, "==") {
						continue
					}
					m := fmt.Sprintf(mask, deep)
					rt := t
					if strings.Contains(use, "==") || strings.Contains(use, "<") || strings.Contains(use, ">") {
						rt = "bool"
					}
					k := "15"
					_ = k
					src := fmt.Sprintf("package main\n\nfunc main(a, b %s) %s {\n\treturn %s\n}\n", t, rt, fmt.Sprintf(use, "("+m+")"))
					if t == "uint6" {
						src = strings.ReplaceAll(strings.ReplaceAll(src, "240", "48"), "| 32", "| 16")
					}
					cases = append(cases, cs{Src: src, Fam: "masked-deep"})
				}
			}
		}
	}
	// (3) structured programs
	for _, s := range structured {
		cases = append(cases, cs{Src: s, Fam: "structured"})
	}
	// (4) a stride through the statement-level, cast, literal and negation families of the C03 program generator
	{
		n := 0
		stride := 3
		if quick {
			stride = 17
		}
		genEmit := func(g mpclgen.Gen) {
			n++
			// literal operands reach the target-specific builders with operands of different widths: all of them
			always := strings.HasPrefix(g.Fam, "const-flow-operand") || strings.HasPrefix(g.Fam, "const-flow-compare") || strings.HasPrefix(g.Fam, "neg-literal-operand")
			if always && quick && (strings.Contains(g.Fam, "./.") || strings.Contains(g.Fam, ".%.")) && strings.Contains(g.Fam, "int64") {
				always = false // 64-bit dividers under 14 configurations are the expensive ones: strided in quick
			}
			if n%stride != 0 && !always {
				return
			}
			fam := g.Fam
			if i := strings.Index(fam, "."); i > 0 {
				fam = fam[:i]
			}
			cases = append(cases, cs{Src: g.P.Src(), Fam: "gen-" + fam})
		}
		mpclgen.Statements(quick, genEmit)
		mpclgen.Casts(quick, genEmit)
	}
	ctx.Note(fmt.Sprintf("case list: %d programs x %d configurations", len(cases), len(configs(quick))))
	for i, k := range cases {
		if !ctx.Mine(i) {
			continue
		}
		if ctx.Expired() {
			return
		}
		runCase(ctx, k)
		if i%211 == 0 {
			ctx.Sample(k)
		}
	}
}

func replay(ctx *runner.Ctx, raw json.RawMessage) {
	var k cs
	if err := json.Unmarshal(raw, &k); err != nil {
		panic(err)
	}
	mpcl.Quiet()
	runCase(ctx, k)
}

func main() {
	runner.Main(runner.Spec{
		ID:    "C09",
		Level: "exploration",
		Rule: "each program is compiled under 14 configurations {Yao x prune off/on x array-multiplier threshold 0, 8, 21, 64, 10^6} + {GMW x prune off/on x threshold 0, 8} and all circuits are evaluated 64 input vectors per pass on the same inputs: exhaustive when the inputs have <= 12 (thorough 16) bits, else the cross product of a boundary alphabet; programs: every operator {+,-,*,/,%,<,<=,>,>=,==,!=,&,|,^,<<,>>} x {uintW,intW} for W=1..6, multiplication at EVERY width 7..70 (thorough 130), all operators at 16 (21) switch widths, constant-free variants (a / b, a % b without the zero divisor, -a ^ b, 0 - a, (a << k) - b) at the same widths, structured programs (if/early return, loops, arrays, structs, calls) and a stride through the statement, cast, literal and negation families of the C03 program generator. Oracle: every configuration's outputs equal the first configuration's on every vector; pruned circuits have no gate that drives nothing and not more gates than the unpruned one. " +
			"evaluations = (input vector, configuration) pairs compared; distinct_nontrivial = programs whose configurations all agreed",
		Assumptions: []string{
			"this check is differential (configuration vs configuration); agreement with the language semantics is C03's and C07's subject",
			"division and modulo use a divisor forced non-zero: (b | 1) in the operator programs, and in the constant-free variants a / b, a % b the zero divisor is left out of the inputs",
		},
		Work:           work,
		Replay:         replay,
		QuickBudget:    85 * time.Second,
		ThoroughBudget: 20 * time.Minute,
	})
}
