// C18 — SHA256(XOR) protocol: correct, resumable, canonical encodings.
package main

import (
	"bytes"
	"crypto/elliptic"
	"crypto/sha256"
	"encoding/binary"
	"encoding/json"
	"fmt"
	"math/big"
	"reflect"
	"runtime/debug"
	"strings"
	"time"

	"github.com/markkurossi/mpc/sha2pc"

	"verif/drbg"
	"verif/runner"
)

type cs struct {
	Mode   string `json:"mode"` // correct | restart | identity | mutate | foreign
	Curve  string `json:"curve"`
	A      string `json:"a"`
	B      string `json:"b"`
	Seed   uint64 `json:"seed"`
	Mask   int    `json:"mask,omitempty"`   // restart: which of msg1,gState,msg2,eState,msg3 go through Encode->Decode
	Object string `json:"object,omitempty"` // R1 R2 R3 GS ES
	Mut    string `json:"mut,omitempty"`    // flip:byte:bit | trunc:len | append:byte | varint:kind | sid | curve:<name>
	// two: a second session (A2, B2, seed+7) runs interleaved with the first one in the same process; Order is the
	// interleaving of the two sessions' steps (0 = a step of the first, 1 = a step of the second)
	// Chunk > 0: the randomness sources return at most Chunk bytes per Read (short reads)
	Chunk int    `json:"chunk,omitempty"`
	A2    string `json:"a2,omitempty"`
	B2    string `json:"b2,omitempty"`
	Order []int  `json:"order,omitempty"`
	// Values (mode two): the messages and session states are handed on as the Go values the round functions returned
	// (an in-process user of the package), not as their encodings; each value is encoded once when it is returned and
	// again when it is consumed and the two encodings must be equal (seed C18-9: a returned payload that still points
	// into storage a later round reuses)
	Values bool `json:"values,omitempty"`
}

func curveByName(n string) elliptic.Curve {
	switch n {
	case "P-224":
		return elliptic.P224()
	case "P-384":
		return elliptic.P384()
	case "P-521":
		return elliptic.P521()
	}
	return elliptic.P256()
}

func input32(s string) [32]byte {
	var b [32]byte
	v, ok := new(big.Int).SetString(s, 0)
	if !ok {
		panic("bad input " + s)
	}
	v.FillBytes(b[:])
	return b
}

func want(a, b [32]byte) [32]byte {
	var x [32]byte
	for i := range x {
		x[i] = a[i] ^ b[i]
	}
	return sha256.Sum256(x[:])
}

// documented sizes: 2-byte magic, 8-byte session id, 1-byte length + 5-byte curve name, fixed-width field elements
func docSize(curve elliptic.Curve, obj string) int {
	bl := (curve.Params().BitSize + 7) / 8
	name := len(curve.Params().Name)
	uv := func(n int) int {
		var b [10]byte
		return binary.PutUvarint(b[:], uint64(n))
	}
	switch obj {
	case "R1":
		return 2 + 8 + 1 + name + 2*bl
	case "R2":
		return 2 + 8 + 1 + name + 256*bl + 32
	case "R3":
		return 707146
	case "GS":
		inner := 1 + name + 5*bl
		return 2 + 8 + uv(inner) + inner
	case "ES":
		inner := 1 + name + 2*bl + 256*bl + 32
		return 2 + 8 + uv(inner) + inner
	}
	panic(obj)
}

type honest struct {
	curve elliptic.Curve
	a, b  [32]byte
	m1    sha2pc.Round1Payload
	gs    *sha2pc.GarblerSession
	m2    sha2pc.Round2Payload
	es    *sha2pc.EvaluatorSession
	m3    sha2pc.Round3Payload
	enc   map[string][]byte
	seed  uint64
}

var honestCache = map[string]*honest{}

func getHonest(k cs) (*honest, error) {
	key := fmt.Sprintf("%s|%s|%s|%d|%d", k.Curve, k.A, k.B, k.Seed, k.Chunk)
	if h, ok := honestCache[key]; ok {
		return h, nil
	}
	h := &honest{curve: curveByName(k.Curve), a: input32(k.A), b: input32(k.B), seed: k.Seed, enc: map[string][]byte{}}
	var err error
	h.m1, h.gs, err = sha2pc.GarblerRound1(drbg.NewChunked(k.Seed*3+1, k.Chunk), h.curve)
	if err != nil {
		return nil, fmt.Errorf("round1: %v", err)
	}
	h.m2, h.es, err = sha2pc.EvaluatorRound2(drbg.NewChunked(k.Seed*3+3, k.Chunk), h.curve, h.m1, h.b)
	if err != nil {
		return nil, fmt.Errorf("round2: %v", err)
	}
	h.m3, err = sha2pc.GarblerRound3(drbg.NewChunked(k.Seed*3+2, k.Chunk), h.curve, h.gs, h.a, h.m2)
	if err != nil {
		return nil, fmt.Errorf("round3: %v", err)
	}
	if h.enc["R1"], err = sha2pc.EncodeRound1(h.curve, h.m1); err != nil {
		return nil, err
	}
	if h.enc["R2"], err = sha2pc.EncodeRound2(h.curve, h.m2); err != nil {
		return nil, err
	}
	if h.enc["R3"], err = sha2pc.EncodeRound3(h.m3); err != nil {
		return nil, err
	}
	if h.enc["GS"], err = sha2pc.EncodeGarblerSession(h.curve, h.gs); err != nil {
		return nil, err
	}
	if h.enc["ES"], err = sha2pc.EncodeEvaluatorSession(h.curve, h.es); err != nil {
		return nil, err
	}
	if len(honestCache) > 8 {
		honestCache = map[string]*honest{}
	}
	honestCache[key] = h
	return h, nil
}

func safely(f func() error) (err error, panicked bool) {
	defer func() {
		if r := recover(); r != nil {
			err = fmt.Errorf("panic: %v", r)
			panicked = true
		}
	}()
	return f(), false
}

func runCase(ctx *runner.Ctx, k cs) {
	ctx.Eval(1)
	h, err := getHonest(k)
	if err != nil {
		ctx.Violate("honest-run-fails."+k.Curve, err.Error(), k)
		return
	}
	w := want(h.a, h.b)
	switch k.Mode {
	case "correct":
		d, err := sha2pc.EvaluatorRound4(h.curve, h.es, h.m3)
		if err != nil || d != w {
			ctx.Violate("digest."+k.Curve, fmt.Sprintf("a=%s b=%s: evaluator output %x (err %v), SHA-256(a xor b) = %x", k.A, k.B, d, err, w), k)
			return
		}
		ctx.Nontrivial("correct/" + k.Curve + k.A + k.B)
		ctx.Outcome("digest-ok/" + k.Curve)
	case "identity":
		objs := map[string]interface{}{"R1": h.m1, "R2": h.m2, "R3": h.m3, "GS": h.gs, "ES": h.es}
		for name, orig := range objs {
			enc := h.enc[name]
			if len(enc) != docSize(h.curve, name) {
				ctx.Violate("size."+name, fmt.Sprintf("%s on %s encodes to %d bytes, documented size is %d", name, k.Curve, len(enc), docSize(h.curve, name)), k)
				return
			}
			dec, err := decode(h.curve, name, enc)
			if err != nil {
				ctx.Violate("identity."+name, fmt.Sprintf("Decode(Encode(%s)) fails: %v", name, err), k)
				return
			}
			if !deepEqual(orig, dec) {
				ctx.Violate("identity."+name, fmt.Sprintf("Decode(Encode(%s)) differs from the original on %s", name, k.Curve), k)
				return
			}
			re, err := encode(h.curve, name, dec)
			if err != nil || !bytes.Equal(re, enc) {
				ctx.Violate("identity."+name, fmt.Sprintf("re-encoding the decoded %s gives different bytes (err %v)", name, err), k)
				return
			}
		}
		ctx.Nontrivial("identity/" + k.Curve + k.A + k.B)
		ctx.Outcome("identity-ok/" + k.Curve)
	case "two":
		runTwo(ctx, k)
	case "restart":
		runRestart(ctx, k, h, w)
	case "mutate":
		runMutate(ctx, k, h, w)
	case "foreign":
		runForeign(ctx, k, h)
	}
}

func deepEqual(a, b interface{}) bool {
	// big.Int values: compare through their encodings (reflect.DeepEqual is sensitive to internal slack)
	return fmt.Sprintf("%v", a) == fmt.Sprintf("%v", b) || reflect.DeepEqual(a, b)
}

func decode(curve elliptic.Curve, name string, data []byte) (interface{}, error) {
	switch name {
	case "R1":
		return sha2pc.DecodeRound1(curve, data)
	case "R2":
		return sha2pc.DecodeRound2(curve, data)
	case "R3":
		return sha2pc.DecodeRound3(data)
	case "GS":
		return sha2pc.DecodeGarblerSession(curve, data)
	case "ES":
		return sha2pc.DecodeEvaluatorSession(curve, data)
	}
	panic(name)
}

func encode(curve elliptic.Curve, name string, v interface{}) ([]byte, error) {
	switch x := v.(type) {
	case sha2pc.Round1Payload:
		return sha2pc.EncodeRound1(curve, x)
	case sha2pc.Round2Payload:
		return sha2pc.EncodeRound2(curve, x)
	case sha2pc.Round3Payload:
		return sha2pc.EncodeRound3(x)
	case *sha2pc.GarblerSession:
		return sha2pc.EncodeGarblerSession(curve, x)
	case *sha2pc.EvaluatorSession:
		return sha2pc.EncodeEvaluatorSession(curve, x)
	}
	panic(name)
}

// runRestart: the owner of each selected object restarts at that boundary (Encode -> Decode) and continues.
// runTwo runs two sessions in one process with their steps interleaved as k.Order says. Every message and every
// session state travels as bytes: it is encoded when produced, the bytes are kept, and the consumer decodes the
// kept bytes when its step comes (both parties restart between all rounds, and a party serves two sessions).
// Oracles: both digests are right; and no byte slice an encoder returned changes afterwards (each is compared with
// a private copy taken when it was returned) - the garbage collector is held off during the case so that what
// sync.Pool hands back does not depend on collection timing.
func runTwo(ctx *runner.Ctx, k cs) {
	defer debug.SetGCPercent(debug.SetGCPercent(-1))
	curve := curveByName(k.Curve)
	type sess struct {
		a, b   [32]byte
		seed   uint64
		step   int
		kept   map[string][]byte
		copies map[string][]byte
		vals   map[string]interface{}
	}
	ss := []*sess{
		{a: input32(k.A), b: input32(k.B), seed: k.Seed, kept: map[string][]byte{}, copies: map[string][]byte{}},
		{a: input32(k.A2), b: input32(k.B2), seed: k.Seed + 7, kept: map[string][]byte{}, copies: map[string][]byte{}},
	}
	fail := func(kind, what string) {
		ctx.Violate("two-sessions."+kind, fmt.Sprintf("two interleaved sessions on %s, order %v: %s", k.Curve, k.Order, what), k)
	}
	keep := func(s *sess, name string, v interface{}) bool {
		enc, err := encode(curve, name, v)
		if err != nil {
			fail("encode."+name, err.Error())
			return false
		}
		s.kept[name] = enc
		s.copies[name] = append([]byte(nil), enc...)
		if s.vals == nil {
			s.vals = map[string]interface{}{}
		}
		s.vals[name] = v
		return true
	}
	load := func(s *sess, name string) (interface{}, bool) {
		if k.Values {
			enc, err := encode(curve, name, s.vals[name])
			if err != nil {
				fail("encode-later."+name, err.Error())
				return nil, false
			}
			if !bytes.Equal(enc, s.copies[name]) {
				fail("value-changed-later."+name, fmt.Sprintf("the %s value returned to a session encodes differently when it is consumed: a later call changed it", name))
				return nil, false
			}
			return s.vals[name], true
		}
		v, err := decode(curve, name, s.kept[name])
		if err != nil {
			fail("decode."+name, fmt.Sprintf("the kept %s bytes of a session no longer decode: %v", name, err))
			return nil, false
		}
		return v, true
	}
	var digests [2][32]byte
	for _, who := range k.Order {
		s := ss[who]
		switch s.step {
		case 0:
			m1, gs, err := sha2pc.GarblerRound1(drbg.New(s.seed*3+1), curve)
			if err != nil {
				fail("round1", err.Error())
				return
			}
			if !keep(s, "R1", m1) || !keep(s, "GS", gs) {
				return
			}
		case 1:
			v, ok := load(s, "R1")
			if !ok {
				return
			}
			m2, es, err := sha2pc.EvaluatorRound2(drbg.New(s.seed*3+3), curve, v.(sha2pc.Round1Payload), s.b)
			if err != nil {
				fail("round2", err.Error())
				return
			}
			if !keep(s, "R2", m2) || !keep(s, "ES", es) {
				return
			}
		case 2:
			g, ok := load(s, "GS")
			if !ok {
				return
			}
			v, ok := load(s, "R2")
			if !ok {
				return
			}
			m3, err := sha2pc.GarblerRound3(drbg.New(s.seed*3+2), curve, g.(*sha2pc.GarblerSession), s.a, v.(sha2pc.Round2Payload))
			if err != nil {
				fail("round3", err.Error())
				return
			}
			if !keep(s, "R3", m3) {
				return
			}
		case 3:
			e, ok := load(s, "ES")
			if !ok {
				return
			}
			v, ok := load(s, "R3")
			if !ok {
				return
			}
			d, err := sha2pc.EvaluatorRound4(curve, e.(*sha2pc.EvaluatorSession), v.(sha2pc.Round3Payload))
			if err != nil {
				fail("round4", fmt.Sprintf("session %d: %v", who, err))
				return
			}
			digests[who] = d
		}
		s.step++
	}
	for i, s := range ss {
		if s.step != 4 {
			panic("two: incomplete order")
		}
		if w := want(s.a, s.b); digests[i] != w {
			fail("digest", fmt.Sprintf("session %d: digest %x, SHA-256(a xor b) = %x", i, digests[i], w))
			return
		}
		for name, enc := range s.kept {
			if !bytes.Equal(enc, s.copies[name]) {
				fail("encoding-changed-later."+name, fmt.Sprintf("the %s bytes returned for session %d were overwritten by a later call", name, i))
				return
			}
		}
	}
	ctx.Nontrivial(fmt.Sprintf("two/%s/%v/%v", k.Curve, k.Order, k.Values))
	ctx.Outcome("two-sessions-ok/" + k.Curve)
}

func runRestart(ctx *runner.Ctx, k cs, h *honest, w [32]byte) {
	rt := func(name string, v interface{}) (interface{}, error) {
		enc, err := encode(h.curve, name, v)
		if err != nil {
			return nil, err
		}
		return decode(h.curve, name, enc)
	}
	fail := func(step string, err error) {
		ctx.Violate("restart."+step, fmt.Sprintf("restart subset %05b on %s: %s: %v", k.Mask, k.Curve, step, err), k)
	}
	m1, gs, err := sha2pc.GarblerRound1(drbg.New(k.Seed*3+1), h.curve)
	if err != nil {
		fail("round1", err)
		return
	}
	if k.Mask&1 != 0 {
		v, err := rt("R1", m1)
		if err != nil {
			fail("R1", err)
			return
		}
		m1 = v.(sha2pc.Round1Payload)
	}
	if k.Mask&2 != 0 {
		v, err := rt("GS", gs)
		if err != nil {
			fail("GS", err)
			return
		}
		gs = v.(*sha2pc.GarblerSession)
	}
	m2, es, err := sha2pc.EvaluatorRound2(drbg.New(k.Seed*3+3), h.curve, m1, h.b)
	if err != nil {
		fail("round2", err)
		return
	}
	if k.Mask&4 != 0 {
		v, err := rt("R2", m2)
		if err != nil {
			fail("R2", err)
			return
		}
		m2 = v.(sha2pc.Round2Payload)
	}
	if k.Mask&8 != 0 {
		v, err := rt("ES", es)
		if err != nil {
			fail("ES", err)
			return
		}
		es = v.(*sha2pc.EvaluatorSession)
	}
	m3, err := sha2pc.GarblerRound3(drbg.New(k.Seed*3+2), h.curve, gs, h.a, m2)
	if err != nil {
		fail("round3", err)
		return
	}
	if k.Mask&16 != 0 {
		v, err := rt("R3", m3)
		if err != nil {
			fail("R3", err)
			return
		}
		m3 = v.(sha2pc.Round3Payload)
	}
	d, err := sha2pc.EvaluatorRound4(h.curve, es, m3)
	if err != nil || d != w {
		ctx.Violate("restart.digest", fmt.Sprintf("restart subset %05b on %s: digest %x err %v, want %x", k.Mask, k.Curve, d, err, w), k)
		return
	}
	ctx.Nontrivial(fmt.Sprintf("restart/%s/%s/%s/%d", k.Curve, k.A, k.B, k.Mask))
	ctx.Outcome("restart-ok")
}

func mutateBytes(data []byte, mut string) []byte {
	p := strings.Split(mut, ":")
	var x, y int
	var y64 uint64
	if len(p) > 1 {
		fmt.Sscan(p[1], &x)
	}
	if len(p) > 2 {
		fmt.Sscan(p[2], &y64)
		y = int(y64)
	}
	out := append([]byte(nil), data...)
	switch p[0] {
	case "flip":
		if x < len(out) {
			out[x] ^= 1 << uint(y)
		}
	case "trunc":
		if x < len(out) {
			out = out[:x]
		}
	case "append":
		out = append(out, byte(x))
	case "varint":
		// position x holds a uvarint: replace it by y
		if x < len(out) {
			_, n := binary.Uvarint(out[x:])
			if n > 0 {
				var b [10]byte
				m := binary.PutUvarint(b[:], y64)
				out = append(append(append([]byte(nil), out[:x]...), b[:m]...), out[x+n:]...)
			}
		}
	case "nonminimal":
		// re-encode the uvarint at x with a redundant continuation byte
		if x < len(out) {
			v, n := binary.Uvarint(out[x:])
			if n == 1 {
				out = append(append(append([]byte(nil), out[:x]...), byte(v)|0x80, 0x00), out[x+1:]...)
			}
		}
	}
	return out
}

// continueWith: feed the decoded (mutated) object into the rest of the protocol; returns the digest or an error.
func continueWith(h *honest, name string, dec interface{}) (d [32]byte, err error) {
	m1, gs, m2, es, m3 := h.m1, h.gs, h.m2, h.es, h.m3
	redo2, redo3 := false, false
	switch name {
	case "R1":
		m1 = dec.(sha2pc.Round1Payload)
		redo2, redo3 = true, true
	case "GS":
		gs = dec.(*sha2pc.GarblerSession)
		redo3 = true
	case "R2":
		m2 = dec.(sha2pc.Round2Payload)
		redo3 = true
	case "ES":
		es = dec.(*sha2pc.EvaluatorSession)
	case "R3":
		m3 = dec.(sha2pc.Round3Payload)
	}
	if redo2 {
		m2, es, err = sha2pc.EvaluatorRound2(drbg.New(h.seed*3+3), h.curve, m1, h.b)
		if err != nil {
			return d, err
		}
	}
	if redo3 {
		m3, err = sha2pc.GarblerRound3(drbg.New(h.seed*3+2), h.curve, gs, h.a, m2)
		if err != nil {
			return d, err
		}
	}
	return sha2pc.EvaluatorRound4(h.curve, es, m3)
}

func mutClass(m string) string { return strings.SplitN(m, ":", 2)[0] }

func runMutate(ctx *runner.Ctx, k cs, h *honest, w [32]byte) {
	data := mutateBytes(h.enc[k.Object], k.Mut)
	if bytes.Equal(data, h.enc[k.Object]) {
		return
	}
	ctx.Nontrivial(fmt.Sprintf("mut/%s/%s/%s", k.Curve, k.Object, k.Mut))
	var dec interface{}
	err, panicked := safely(func() error {
		var e error
		dec, e = decode(h.curve, k.Object, data)
		return e
	})
	site := k.Object + "." + mutClass(k.Mut)
	if panicked {
		ctx.Violate("decoder-panic."+site, fmt.Sprintf("Decode%s panicked on %d bytes (mutation %s): %v", k.Object, len(data), k.Mut, err), k)
		return
	}
	if err != nil {
		ctx.Outcome("rejected/" + k.Object)
		return
	}
	// accepted: canonical? (documented fixed size, re-encoding reproduces the input)
	if len(data) != docSize(h.curve, k.Object) {
		ctx.Violate("non-canonical-accepted."+site, fmt.Sprintf("Decode%s accepted %d bytes; the documented size on %s is %d (mutation %s)", k.Object, len(data), k.Curve, docSize(h.curve, k.Object), k.Mut), k)
		return
	}
	re, eerr := encode(h.curve, k.Object, dec)
	if eerr == nil && !bytes.Equal(re, data) {
		ctx.Violate("non-canonical-accepted."+site, fmt.Sprintf("Decode%s accepted bytes that re-encode differently (mutation %s)", k.Object, k.Mut), k)
		return
	}
	var d [32]byte
	err, panicked = safely(func() error {
		var e error
		d, e = continueWith(h, k.Object, dec)
		return e
	})
	switch {
	case panicked:
		ctx.Violate("protocol-panic."+site, fmt.Sprintf("continuing the protocol with the accepted mutated %s panicked: %v (mutation %s)", k.Object, err, k.Mut), k)
	case err != nil:
		ctx.Outcome("accepted-then-error/" + k.Object)
	case d == w:
		ctx.Outcome("accepted-correct-digest/" + k.Object)
	default:
		ctx.Violate("wrong-digest."+site, fmt.Sprintf("mutated %s (mutation %s) was accepted and the evaluator silently output %x instead of %x", k.Object, k.Mut, d, w), k)
	}
}

// runForeign: messages of another session or curve must be rejected by the round functions / decoders.
func runForeign(ctx *runner.Ctx, k cs, h *honest) {
	other, err := getHonest(cs{Curve: k.Curve, A: k.A, B: k.B, Seed: k.Seed + 1000})
	if err != nil {
		panic(err)
	}
	ctx.Nontrivial("foreign/" + k.Curve + "/" + k.Mut)
	switch {
	case k.Mut == "sid-round3":
		// garbler of session 1 gets round 2 of another session
		_, err := sha2pc.GarblerRound3(drbg.New(1), h.curve, h.gs, h.a, other.m2)
		if err == nil {
			ctx.Violate("foreign-session-accepted.round3", "GarblerRound3 accepted a Round2 message of another session", k)
			return
		}
	case k.Mut == "sid-round4":
		_, err := sha2pc.EvaluatorRound4(h.curve, h.es, other.m3)
		if err == nil {
			ctx.Violate("foreign-session-accepted.round4", "EvaluatorRound4 accepted a Round3 message of another session", k)
			return
		}
	case strings.HasPrefix(k.Mut, "curve:"):
		oc := curveByName(k.Mut[6:])
		for _, name := range []string{"R1", "R2", "GS", "ES"} {
			var dec interface{}
			err, panicked := safely(func() error {
				var e error
				dec, e = decode(oc, name, h.enc[name])
				return e
			})
			_ = dec
			if panicked {
				ctx.Violate("decoder-panic."+name+".foreign-curve", fmt.Sprintf("Decode%s panicked on a %s message decoded for %s: %v", name, k.Curve, k.Mut[6:], err), k)
				return
			}
			if err == nil {
				ctx.Violate("foreign-curve-accepted."+name, fmt.Sprintf("Decode%s for %s accepted a message encoded for %s", name, k.Mut[6:], k.Curve), k)
				return
			}
		}
		// the encoders given an object of another curve: an error or bytes, never a crash
		for name, obj := range map[string]interface{}{"R1": h.m1, "R2": h.m2, "GS": h.gs, "ES": h.es} {
			err, panicked := safely(func() error {
				_, e := encode(oc, name, obj)
				return e
			})
			if panicked {
				ctx.Violate("encoder-panic."+name+".foreign-curve", fmt.Sprintf("Encode%s for %s panicked on a %s object: %v", name, k.Mut[6:], k.Curve, err), k)
				return
			}
			if err == nil {
				ctx.Outcome("encoder-accepted-foreign-curve-object/" + name)
			}
		}
		// the round functions with a mismatching curve object
		if _, _, err := sha2pc.EvaluatorRound2(drbg.New(2), oc, h.m1, h.b); err == nil {
			ctx.Violate("foreign-curve-accepted.round2", "EvaluatorRound2 accepted a Round1 message of another curve", k)
			return
		}
	}
	ctx.Outcome("foreign-rejected")
}

var inputsAlphabet = []string{
	"0", "0xffffffffffffffffffffffffffffffffffffffffffffffffffffffffffffffff",
	"0x5555555555555555555555555555555555555555555555555555555555555555", "0xaaaaaaaaaaaaaaaaaaaaaaaaaaaaaaaaaaaaaaaaaaaaaaaaaaaaaaaaaaaaaaaa",
	"0x6162636465666768696a6b6c6d6e6f707172737475767778797a303132333435",
}

func work(ctx *runner.Ctx) {
	quick := ctx.Quick()
	var cases []cs
	seed := uint64(ctx.Seed)
	curves := []string{"P-256", "P-224", "P-384", "P-521"}
	A := append([]string{}, inputsAlphabet...)
	nbits := 32
	if !quick {
		nbits = 256
	}
	for i := 0; i < nbits; i++ {
		step := 256 / nbits
		A = append(A, "0x"+new(big.Int).Lsh(big.NewInt(1), uint(i*step)).Text(16))
	}
	// correctness
	for ci, cv := range curves {
		for ai, a := range A {
			for bi, b := range A {
				if cv == "P-256" {
					if quick && (ai+bi)%4 != 0 && ai > 4 && bi > 4 {
						continue
					}
					if !quick && ai > 36 && bi > 36 && (ai*7+bi)%16 != 0 {
						continue
					}
				} else if ai > 4 || bi > 4 || (quick && (ai+bi+ci)%3 != 0) {
					continue
				}
				cases = append(cases, cs{Mode: "correct", Curve: cv, A: a, B: b, Seed: seed})
			}
		}
	}
	// randomness sources with short reads
	for ci, cv := range curves {
		for _, ch := range []int{1, 16, 100} {
			if quick && cv != "P-256" && ch != 16 {
				continue
			}
			cases = append(cases, cs{Mode: "correct", Curve: cv, A: A[4], B: A[(2+ci)%5], Seed: seed, Chunk: ch})
		}
	}
	// identity + restart subsets
	for ci, cv := range curves {
		pairs := [][2]string{{A[4], A[2]}, {A[1], A[0]}}
		for pi, p := range pairs {
			if quick && cv != "P-256" && pi > 0 {
				continue
			}
			cases = append(cases, cs{Mode: "identity", Curve: cv, A: p[0], B: p[1], Seed: seed + uint64(pi)})
			for mask := 0; mask < 32; mask++ {
				if quick && cv != "P-256" && mask%5 != ci {
					continue
				}
				cases = append(cases, cs{Mode: "restart", Curve: cv, A: p[0], B: p[1], Seed: seed + uint64(pi), Mask: mask})
			}
		}
		cases = append(cases, cs{Mode: "foreign", Curve: cv, A: A[4], B: A[2], Seed: seed, Mut: "sid-round3"})
		cases = append(cases, cs{Mode: "foreign", Curve: cv, A: A[4], B: A[2], Seed: seed, Mut: "sid-round4"})
		for _, oc := range curves {
			if oc != cv {
				cases = append(cases, cs{Mode: "foreign", Curve: cv, A: A[4], B: A[2], Seed: seed, Mut: "curve:" + oc})
			}
		}
	}
	// two sessions in one process: every interleaving of their 4+4 steps (70) on P-256, a stride elsewhere
	var orders [][]int
	var gen func(o []int, n0, n1 int)
	gen = func(o []int, n0, n1 int) {
		if n0 == 4 && n1 == 4 {
			orders = append(orders, append([]int(nil), o...))
			return
		}
		if n0 < 4 {
			gen(append(o, 0), n0+1, n1)
		}
		if n1 < 4 {
			gen(append(o, 1), n0, n1+1)
		}
	}
	gen(nil, 0, 0)
	for ci, cv := range curves {
		for oi, o := range orders {
			if cv != "P-256" && (quick || oi%4 != ci) && oi%23 != ci {
				continue
			}
			cases = append(cases, cs{Mode: "two", Curve: cv, A: A[4], B: A[2], A2: A[3], B2: A[1], Seed: seed, Order: o})
			cases = append(cases, cs{Mode: "two", Curve: cv, A: A[4], B: A[2], A2: A[3], B2: A[1], Seed: seed, Order: o, Values: true})
		}
	}
	// mutations of every encoded object
	mcurves := []string{"P-256"}
	if !quick {
		mcurves = []string{"P-256", "P-224", "P-521"}
	}
	for _, cv := range mcurves {
		base := cs{Curve: cv, A: A[4], B: A[2], Seed: seed}
		h, err := getHonest(base)
		if err != nil {
			ctx.Violate("honest-run-fails."+cv, err.Error(), base)
			continue
		}
		add := func(obj, mut string) {
			k := base
			k.Mode, k.Object, k.Mut = "mutate", obj, mut
			cases = append(cases, k)
		}
		for _, obj := range []string{"R1", "GS", "R2", "ES", "R3"} {
			n := len(h.enc[obj])
			small := n < 400
			// truncations
			for l := 0; l < n; l++ {
				if small || l < 48 || l > n-48 || (!quick && l%61 == 0) || l%1021 == 0 {
					add(obj, fmt.Sprintf("trunc:%d", l))
				}
			}
			// appended byte
			add(obj, "append:0")
			add(obj, "append:255")
			// bit flips
			for p := 0; p < n; p++ {
				full := small || p < 24 || p >= n-40
				if obj == "R3" {
					// header, key, first/last 64 table labels, all garbler-input labels, hints, ciphertexts in strides
					tablesEnd := 42 + 42914*16
					switch {
					case p < 42+64*16 || (p >= tablesEnd-64*16 && p < tablesEnd):
						full = p < 42 || p%4 == 0
					case p < tablesEnd:
						full = false
						if p%(256*16) == 42%(256*16) {
							add(obj, fmt.Sprintf("flip:%d:%d", p, p%8))
						}
					default:
						full = false
						stride := 16
						if quick {
							stride = 64
						}
						if p%stride == 0 {
							add(obj, fmt.Sprintf("flip:%d:%d", p, (p/stride)%8))
						}
					}
				} else if !full {
					stride := 8
					if quick {
						stride = 32
					}
					if p%stride == 0 {
						add(obj, fmt.Sprintf("flip:%d:%d", p, (p/stride)%8))
					}
				}
				if full {
					if obj == "R3" && quick && p >= 42 {
						add(obj, fmt.Sprintf("flip:%d:%d", p, p%8))
						continue
					}
					for b := 0; b < 8; b++ {
						add(obj, fmt.Sprintf("flip:%d:%d", p, b))
					}
				}
			}
			// length fields (uvarints): position 10 = curve-name length (R1, R2) or the chunk length (GS, ES)
			if obj != "R3" {
				for _, v := range []int{0, 1, 4, 6, n, n + 1, 1<<20 + 1} {
					add(obj, fmt.Sprintf("varint:10:%d", v))
				}
				// lengths at the edges of the 32- and 64-bit integer types
				for _, v := range []uint64{1<<31 - 1, 1 << 31, 1<<32 - 1, 1 << 32, 1<<62 + 1, 1<<63 - 1, 1 << 63, 1<<64 - 1} {
					add(obj, fmt.Sprintf("varint:10:%d", v))
				}
				add(obj, "nonminimal:10")
				if obj == "GS" || obj == "ES" {
					// inner curve-name length
					_, m := binary.Uvarint(h.enc[obj][10:])
					for _, v := range []int{0, 4, 6, 200} {
						add(obj, fmt.Sprintf("varint:%d:%d", 10+m, v))
					}
					for _, v := range []uint64{1 << 31, 1 << 32, 1 << 63, 1<<64 - 1} {
						add(obj, fmt.Sprintf("varint:%d:%d", 10+m, v))
					}
					add(obj, fmt.Sprintf("nonminimal:%d", 10+m))
				}
			}
		}
	}
	ctx.Note(fmt.Sprintf("case list: %d cases", len(cases)))
	for i, k := range cases {
		if !ctx.Mine(i) {
			continue
		}
		if ctx.Expired() {
			return
		}
		runCase(ctx, k)
		if i%5003 == 0 {
			ctx.Sample(k)
		}
	}
}

func replay(ctx *runner.Ctx, raw json.RawMessage) {
	var k cs
	if err := json.Unmarshal(raw, &k); err != nil {
		panic(err)
	}
	runCase(ctx, k)
}

func main() {
	runner.Main(runner.Spec{
		ID:    "C18",
		Level: "fault_enumeration",
		Rule: "correctness: P-256 x (a,b) over {0, ff.., 55.., aa.., text, single-bit values} (a stride of the pairs) and the other curves on boundary pairs: EvaluatorRound4 == SHA-256(a xor b); crash points: for EVERY subset of {msg1, garbler state, msg2, evaluator state, msg3} passed through Encode->Decode (2^5 restarts) the digest is unchanged; identity: Decode(Encode(x)) == x, documented sizes, re-encoding reproduces the bytes; faults: for each of the five encodings every truncation (all for small objects, ends + stride for large), one appended byte, single-bit flips (every bit of R1, GS and of the headers; strided bytes of R2, ES; R3: header, key, first/last 64 table labels, strided table labels, garbler inputs, hints, ciphertexts), length-field replacements and non-minimal varints; foreign session ids and curves (decoders, round functions and encoders); randomness sources with short reads; two sessions in one process under every interleaving (70) of their 4+4 round steps with all messages and states kept as bytes (no returned encoding may change later) and, second, handed on as the returned Go values (a value must encode the same when it is consumed as when it was returned). Oracle: no panic; rejected, or accepted with the documented size and canonical bytes and then the protocol ends with an error or the correct digest. " +
			"distinct_nontrivial = distinct cases that reached the oracle",
		Assumptions: []string{
			"documented sizes: 2-byte magic, 8-byte session id, 1-byte-prefixed curve name, fixed-width field elements (the table of TestPayloadSizesByCurve, extended by the same formula to P-384/P-521)",
			"'canonical' = an accepted byte string has the documented size and re-encodes to itself (the reading the two strict decoders, Round2 and Round3, implement)",
		},
		Work:           work,
		Replay:         replay,
		QuickBudget:    85 * time.Second,
		ThoroughBudget: 20 * time.Minute,
	})
}
