// C06 — oblivious transfer delivers exactly the chosen label.
package main

import (
	"crypto/elliptic"
	"encoding/json"
	"fmt"
	"strconv"
	"strings"
	"time"

	"github.com/markkurossi/mpc/ot"

	"verif/drbg"
	"verif/idealot"
	"verif/memio"
	"verif/runner"
)

type cs struct {
	Variant   string `json:"variant"`
	Sizes     []int  `json:"sizes"`
	Pattern   string `json:"pattern"`
	Shared    bool   `json:"shared"`
	Seed      uint64 `json:"seed"`
	DeltaBit0 int    `json:"delta_bit0"` // iknp only: -1 random, 0/1 forced
	// Dirty: the result buffers handed to the library are not fresh: every bit is set on entry (a caller that
	// reuses its buffers)
	Dirty bool `json:"dirty,omitempty"`
	// Chunk > 0: the randomness sources return at most Chunk bytes per Read (short reads)
	Chunk int `json:"chunk,omitempty"`
}

func dirtyWords(w []uint64, on bool) []uint64 {
	if on {
		for i := range w {
			w[i] = ^uint64(0)
		}
	}
	return w
}

func dirtyLabels(l []ot.Label, on bool) []ot.Label {
	if on {
		for i := range l {
			l[i] = ot.Label{D0: ^uint64(0), D1: ^uint64(0)}
		}
	}
	return l
}

func pattern(p string, n int, batch int) []bool {
	res := make([]bool, n)
	switch {
	case p == "zero":
	case p == "one":
		for i := range res {
			res[i] = true
		}
	case p == "alt0":
		for i := range res {
			res[i] = i%2 == 1
		}
	case p == "alt1":
		for i := range res {
			res[i] = i%2 == 0
		}
	case strings.HasPrefix(p, "single:"):
		k, _ := strconv.Atoi(p[7:])
		if k < n {
			res[k] = true
		}
	case p == "lfsr":
		x := uint32(0xACE1 + batch*7919)
		for i := range res {
			bit := (x ^ x>>2 ^ x>>3 ^ x>>5) & 1
			x = x>>1 | bit<<15
			res[i] = x&1 == 1
		}
	default:
		panic("pattern " + p)
	}
	return res
}

func sizeClass(n int) string {
	return fmt.Sprintf("mod8=%d,mod64=%d,chunks=%d,chunkrem=%v", n%8, n%64, n/512, n%512 != 0)
}

func mkWires(rd *drbg.Reader, n int) []ot.Wire {
	w := make([]ot.Wire, n)
	for i := range w {
		w[i].L0, _ = ot.NewLabel(rd)
		w[i].L1, _ = ot.NewLabel(rd)
		// special label values at fixed positions: leading zero bytes, all zero, all ones, equal labels
		var ld ot.LabelData
		switch i % 11 {
		case 3:
			b := w[i].L0.Bytes(&ld)
			b[0], b[1] = 0, 0
			w[i].L0.SetBytes(b)
		case 5:
			w[i].L1 = ot.Label{}
		case 7:
			for j := range ld {
				ld[j] = 0xff
			}
			w[i].L0.SetData(&ld)
		case 9:
			b := w[i].L1.Bytes(&ld)
			b[15] = 0
			b[0] = 0
			w[i].L1.SetBytes(b)
		case 10:
			w[i].L1 = w[i].L0
		}
	}
	return w
}

func runCase(ctx *runner.Ctx, k cs) {
	ctx.Eval(1)
	fail := func(site, what string) {
		if k.Dirty {
			site += ".reused-result-buffer"
		}
		ctx.Violate(k.Variant+"."+site, fmt.Sprintf("%s (variant=%s sizes=%v pattern=%s shared=%v seed=%d reused result buffers=%v)", what, k.Variant, k.Sizes, k.Pattern, k.Shared, k.Seed, k.Dirty), k)
	}
	switch {
	case k.Variant == "iknp-labels" || k.Variant == "iknp-labels-mal" || k.Variant == "iknp-bits" || k.Variant == "iknp-mixed-bl" || k.Variant == "iknp-mixed-lb":
		runIKNP(ctx, k, fail)
	case strings.HasPrefix(k.Variant, "co-helpers:"):
		runCOHelpers(ctx, k, fail)
	default:
		runOT(ctx, k, fail)
	}
}

func runIKNP(ctx *runner.Ctx, k cs, fail func(site, what string)) {
	a, b := memio.NewPair()
	var delta ot.Label
	type batch struct {
		sent  []ot.Label
		sbits []uint64
		recv  []ot.Label
		rbits []uint64
		flags []bool
	}
	bs := make([]batch, len(k.Sizes))
	for i, n := range k.Sizes {
		bs[i].flags = pattern(k.Pattern, n, i)
	}
	mal := k.Variant == "iknp-labels-mal"
	errS, errR := memio.Run2(a, b, func(io *memio.End) error {
		rd := drbg.NewChunked(k.Seed*2+1, k.Chunk)
		base := idealot.New()
		if err := base.InitSender(io); err != nil {
			return err
		}
		var dp *ot.Label
		if k.DeltaBit0 >= 0 {
			d, _ := ot.NewLabel(rd)
			d.SetBit(0, uint(k.DeltaBit0))
			dp = &d
		}
		s, err := ot.NewIKNPSender(base, io, rd, dp)
		if err != nil {
			return err
		}
		delta = s.Delta
		for i, n := range k.Sizes {
			if bitForm(k, i) {
				bs[i].sbits = dirtyWords(make([]uint64, (n+63)/64+1), k.Dirty)
				if err := s.SendBits(n, bs[i].sbits); err != nil {
					return err
				}
			} else {
				bs[i].sent, err = s.Send(n, mal)
				if err != nil {
					return err
				}
			}
		}
		return nil
	}, func(io *memio.End) error {
		rd := drbg.NewChunked(k.Seed*2+2, k.Chunk)
		base := idealot.New()
		if err := base.InitReceiver(io); err != nil {
			return err
		}
		r, err := ot.NewIKNPReceiver(base, io, rd)
		if err != nil {
			return err
		}
		for i, n := range k.Sizes {
			if bitForm(k, i) {
				choices := make([]uint64, (n+63)/64+1)
				for j, f := range bs[i].flags {
					if f {
						choices[j/64] |= 1 << (j % 64)
					}
				}
				bs[i].rbits = dirtyWords(make([]uint64, (n+63)/64+1), k.Dirty)
				if err := r.ReceiveBits(choices, bs[i].rbits, n); err != nil {
					return err
				}
			} else {
				bs[i].recv = dirtyLabels(make([]ot.Label, n), k.Dirty)
				if err := r.Receive(bs[i].flags, bs[i].recv, mal); err != nil {
					return err
				}
			}
		}
		return nil
	})
	if errS != nil || errR != nil {
		fail("error", fmt.Sprintf("honest run failed: sender=%v receiver=%v", errS, errR))
		return
	}
	for i, n := range k.Sizes {
		bt := &bs[i]
		if bitForm(k, i) {
			d0 := delta.Bit(0) == 1
			bad := 0
			first := -1
			for j := 0; j < n; j++ {
				s := bt.sbits[j/64]>>(j%64)&1 == 1
				r := bt.rbits[j/64]>>(j%64)&1 == 1
				want := s != (bt.flags[j] && d0)
				if r != want {
					if first < 0 {
						first = j
					}
					bad++
				}
			}
			if bad > 0 {
				where := "body"
				if first >= n/64*64 {
					where = "tail-word"
				}
				fail("correlation."+where, fmt.Sprintf("batch %d (n=%d): %d of %d bits violate r=s^(b&Delta0); first at %d", i, n, bad, n, first))
				return
			}
			for j := n; j < len(bt.sbits)*64; j++ {
				if (bt.sbits[j/64]>>(j%64)&1 == 1) != k.Dirty || (bt.rbits[j/64]>>(j%64)&1 == 1) != k.Dirty {
					fail("beyond-n", fmt.Sprintf("batch %d (n=%d): bit %d beyond n was changed", i, n, j))
					return
				}
			}
		} else {
			if len(bt.sent) != n {
				fail("count", fmt.Sprintf("batch %d: sender got %d labels, want %d", i, len(bt.sent), n))
				return
			}
			for j := 0; j < n; j++ {
				want := bt.sent[j]
				if bt.flags[j] {
					want.Xor(delta)
				}
				if !bt.recv[j].Equal(want) {
					fail("correlation", fmt.Sprintf("batch %d (n=%d): position %d: recv != sent ^ b*Delta", i, n, j))
					return
				}
			}
		}
		ctx.Nontrivial(k.Variant + "/" + sizeClass(n) + "/" + k.Pattern)
	}
	ctx.Outcome("ok/" + k.Variant)
}

// bitForm tells whether batch i of an IKNP case uses the packed-bit form.
func bitForm(k cs, i int) bool {
	switch k.Variant {
	case "iknp-bits":
		return true
	case "iknp-mixed-bl":
		return i%2 == 0
	case "iknp-mixed-lb":
		return i%2 == 1
	}
	return false
}

func mkOT(variant string, rd *drbg.Reader, shared bool) ot.OT {
	switch variant {
	case "rsa":
		return ot.NewRSA(rd, 1024)
	case "rsa2048":
		return ot.NewRSA(rd, 2048)
	case "co":
		return ot.NewCO(rd)
	case "cot":
		return ot.NewCOT(idealot.New(), rd, false, shared)
	case "cot-mal":
		return ot.NewCOT(idealot.New(), rd, true, shared)
	case "cot-co":
		return ot.NewCOT(ot.NewCO(rd), rd, false, shared)
	case "cot-mal-co":
		return ot.NewCOT(ot.NewCO(rd), rd, true, shared)
	case "rot":
		return ot.NewROT(idealot.New(), rd, false, shared)
	case "rot-mal":
		return ot.NewROT(idealot.New(), rd, true, shared)
	case "rot-co":
		return ot.NewROT(ot.NewCO(rd), rd, false, shared)
	}
	panic("variant " + variant)
}

func runOT(ctx *runner.Ctx, k cs, fail func(site, what string)) {
	a, b := memio.NewPair()
	wires := make([][]ot.Wire, len(k.Sizes))
	flags := make([][]bool, len(k.Sizes))
	res := make([][]ot.Label, len(k.Sizes))
	wrd := drbg.New(k.Seed + 77)
	for i, n := range k.Sizes {
		wires[i] = mkWires(wrd, n)
		flags[i] = pattern(k.Pattern, n, i)
		res[i] = dirtyLabels(make([]ot.Label, n), k.Dirty)
	}
	errS, errR := memio.Run2(a, b, func(io *memio.End) error {
		o := mkOT(k.Variant, drbg.NewChunked(k.Seed*2+1, k.Chunk), k.Shared)
		for i := range k.Sizes {
			if i == 0 || k.Shared {
				if err := o.InitSender(io); err != nil {
					return fmt.Errorf("InitSender #%d: %v", i, err)
				}
			}
			if err := o.Send(wires[i]); err != nil {
				return fmt.Errorf("Send #%d: %v", i, err)
			}
		}
		return nil
	}, func(io *memio.End) error {
		o := mkOT(k.Variant, drbg.NewChunked(k.Seed*2+2, k.Chunk), k.Shared)
		for i := range k.Sizes {
			if i == 0 || k.Shared {
				if err := o.InitReceiver(io); err != nil {
					return fmt.Errorf("InitReceiver #%d: %v", i, err)
				}
			}
			if err := o.Receive(flags[i], res[i]); err != nil {
				return fmt.Errorf("Receive #%d: %v", i, err)
			}
		}
		return nil
	})
	if errS != nil || errR != nil {
		fail("error", fmt.Sprintf("honest run failed: sender=%v receiver=%v", errS, errR))
		return
	}
	for i, n := range k.Sizes {
		for j := 0; j < n; j++ {
			want := wires[i][j].L0
			other := wires[i][j].L1
			if flags[i][j] {
				want, other = other, want
			}
			if !res[i][j].Equal(want) {
				what := "neither label"
				if res[i][j].Equal(other) {
					what = "the OTHER label"
				}
				fail("chosen", fmt.Sprintf("batch %d (n=%d) position %d: receiver got %s", i, n, j, what))
				return
			}
		}
		ctx.Nontrivial(k.Variant + "/" + sizeClass(n) + "/" + k.Pattern)
	}
	ctx.Outcome("ok/" + k.Variant)
}

func curveByName(n string) elliptic.Curve {
	switch n {
	case "P-224":
		return elliptic.P224()
	case "P-256":
		return elliptic.P256()
	case "P-384":
		return elliptic.P384()
	case "P-521":
		return elliptic.P521()
	}
	panic(n)
}

func runCOHelpers(ctx *runner.Ctx, k cs, fail func(site, what string)) {
	curve := curveByName(k.Variant[len("co-helpers:"):])
	n := k.Sizes[0]
	rdS := drbg.NewChunked(k.Seed*2+1, k.Chunk)
	rdR := drbg.NewChunked(k.Seed*2+2, k.Chunk)
	wires := mkWires(drbg.New(k.Seed+77), n)
	flags := pattern(k.Pattern, n, 0)
	setup, err := ot.GenerateCOSenderSetup(rdS, curve)
	if err != nil {
		fail("error", err.Error())
		return
	}
	bundle, points, err := ot.BuildCOChoices(rdR, curve, setup.Ax, setup.Ay, flags)
	if err != nil {
		fail("error", err.Error())
		return
	}
	ct, err := ot.EncryptCOCiphertexts(curve, setup, points, wires)
	if err != nil {
		fail("error", err.Error())
		return
	}
	labels, err := ot.DecryptCOCiphertexts(curve, bundle, ct)
	if err != nil {
		fail("error", err.Error())
		return
	}
	if len(labels) != n {
		fail("count", fmt.Sprintf("%d labels for %d choices", len(labels), n))
		return
	}
	for j := 0; j < n; j++ {
		want := wires[j].L0
		if flags[j] {
			want = wires[j].L1
		}
		if !labels[j].Equal(want) {
			fail("chosen", fmt.Sprintf("n=%d position %d: wrong label", n, j))
			return
		}
	}
	ctx.Nontrivial(k.Variant + "/" + sizeClass(n) + "/" + k.Pattern)
	ctx.Outcome("ok/" + k.Variant)
}

func patternsFor(n int, all bool) []string {
	ps := []string{"zero", "one", "alt0", "alt1", "lfsr"}
	if all {
		for i := 0; i < n; i++ {
			ps = append(ps, fmt.Sprintf("single:%d", i))
		}
	} else {
		ps = append(ps, "single:0", fmt.Sprintf("single:%d", n-1))
		if n > 8 {
			ps = append(ps, fmt.Sprintf("single:%d", n-n%8-1), fmt.Sprintf("single:%d", n/64*64))
		}
	}
	return ps
}

func work(ctx *runner.Ctx) {
	var cases []cs
	seed := uint64(ctx.Seed)
	// IKNP layer: every n up to the bound, both forms.
	maxN := 2600
	if ctx.Quick() {
		maxN = 600
	}
	for n := 1; n <= maxN; n++ {
		for _, v := range []string{"iknp-bits", "iknp-labels"} {
			for d0 := 0; d0 <= 1; d0++ {
				ps := patternsFor(n, n <= 130 && (!ctx.Quick() || n <= 70))
				if ctx.Quick() && n > 140 && n%64 > 2 && n%64 < 62 && n%8 != 0 && n%8 != 7 {
					ps = []string{"one", "lfsr"}
				}
				for _, p := range ps {
					cases = append(cases, cs{Variant: v, Sizes: []int{n}, Pattern: p, Seed: seed, DeltaBit0: d0})
				}
			}
		}
		if n <= 40 || n%64 <= 1 || n%64 == 63 || n%512 <= 1 || n%512 == 511 {
			cases = append(cases, cs{Variant: "iknp-labels-mal", Sizes: []int{n}, Pattern: "lfsr", Seed: seed, DeltaBit0: -1})
			cases = append(cases, cs{Variant: "iknp-labels-mal", Sizes: []int{n}, Pattern: "one", Seed: seed, DeltaBit0: -1})
		}
	}
	// randomness sources with short reads
	for _, ch := range []int{1, 7, 16, 100} {
		for _, v := range []string{"iknp-bits", "iknp-labels", "iknp-labels-mal"} {
			cases = append(cases, cs{Variant: v, Sizes: []int{70, 9}, Pattern: "lfsr", Seed: seed, DeltaBit0: -1, Chunk: ch})
		}
		for _, v := range []string{"cot", "cot-mal", "rot", "co", "cot-co", "rsa"} {
			if v == "rsa" && ch != 16 {
				continue
			}
			cases = append(cases, cs{Variant: v, Sizes: []int{9}, Pattern: "lfsr", Seed: seed, Chunk: ch})
		}
	}
	// result buffers that are not fresh
	for _, n := range []int{1, 5, 63, 64, 65, 70, 130, 511, 512, 513, 600} {
		for _, v := range []string{"iknp-bits", "iknp-labels", "iknp-labels-mal"} {
			for d0 := 0; d0 <= 1; d0++ {
				for _, p := range []string{"zero", "one", "alt0", "lfsr"} {
					cases = append(cases, cs{Variant: v, Sizes: []int{n}, Pattern: p, Seed: seed, DeltaBit0: d0, Dirty: true})
				}
			}
		}
		for _, v := range []string{"cot", "cot-mal", "rot", "rot-mal"} {
			cases = append(cases, cs{Variant: v, Sizes: []int{n}, Pattern: "lfsr", Seed: seed, Dirty: true})
			cases = append(cases, cs{Variant: v, Sizes: []int{n, 9}, Pattern: "alt0", Seed: seed, Shared: true, Dirty: true})
		}
		if n <= 130 {
			cases = append(cases, cs{Variant: "co", Sizes: []int{n}, Pattern: "lfsr", Seed: seed, Dirty: true})
		}
	}
	for _, v := range []string{"iknp-bits", "iknp-labels", "iknp-mixed-bl", "iknp-mixed-lb"} {
		for _, sz := range [][]int{{8, 65}, {65, 8}, {513, 70}, {64, 64, 64}} {
			cases = append(cases, cs{Variant: v, Sizes: sz, Pattern: "lfsr", Seed: seed, DeltaBit0: 1, Dirty: true})
		}
	}
	// histories: consecutive batches on one instance
	hs := []int{1, 8, 63, 64, 65, 512, 513}
	for _, v := range []string{"iknp-bits", "iknp-labels", "iknp-labels-mal", "iknp-mixed-bl", "iknp-mixed-lb"} {
		for _, x := range hs {
			for _, y := range hs {
				cases = append(cases, cs{Variant: v, Sizes: []int{x, y}, Pattern: "lfsr", Seed: seed, DeltaBit0: 1})
				if !ctx.Quick() {
					for _, z := range []int{1, 65, 513} {
						cases = append(cases, cs{Variant: v, Sizes: []int{x, y, z}, Pattern: "alt1", Seed: seed, DeltaBit0: 1})
					}
				} else if strings.HasPrefix(v, "iknp-mixed") && (x+y)%3 == 0 {
					cases = append(cases, cs{Variant: v, Sizes: []int{x, y, 65}, Pattern: "alt1", Seed: seed, DeltaBit0: 1})
				}
			}
		}
	}
	// full OTs on top of the ideal base OT
	full := []int{1, 2, 3, 4, 5, 6, 7, 8, 9, 10, 11, 12, 13, 14, 15, 16, 17, 18, 19, 20, 63, 64, 65, 127, 128, 129, 511, 512, 513, 1023, 1024, 1025}
	for _, v := range []string{"cot", "cot-mal", "rot", "rot-mal"} {
		for _, n := range full {
			for _, p := range patternsFor(n, n <= 20) {
				cases = append(cases, cs{Variant: v, Sizes: []int{n}, Pattern: p, Seed: seed})
			}
		}
		for _, x := range hs {
			for _, y := range hs {
				cases = append(cases, cs{Variant: v, Sizes: []int{x, y}, Pattern: "lfsr", Seed: seed, Shared: true})
				if !ctx.Quick() {
					for _, z := range []int{1, 65} {
						cases = append(cases, cs{Variant: v, Sizes: []int{x, y, z}, Pattern: "alt0", Seed: seed, Shared: true})
					}
				}
			}
		}
		// non-shared instance reused for two Sends after one Init
		cases = append(cases, cs{Variant: v, Sizes: []int{9, 70}, Pattern: "lfsr", Seed: seed, Shared: false})
	}
	// Chou-Orlandi (real base OT) and its pure helpers
	coSizes := []int{1, 2, 3, 7, 8, 9, 20, 63, 64, 65}
	if !ctx.Quick() {
		coSizes = full
	}
	for _, n := range coSizes {
		for _, p := range []string{"zero", "one", "alt0", "lfsr", "single:0", fmt.Sprintf("single:%d", n-1)} {
			cases = append(cases, cs{Variant: "co", Sizes: []int{n}, Pattern: p, Seed: seed})
		}
		for _, cv := range []string{"P-256", "P-224", "P-384", "P-521"} {
			if ctx.Quick() && cv != "P-256" && n > 9 {
				continue
			}
			for _, p := range []string{"zero", "one", "lfsr"} {
				cases = append(cases, cs{Variant: "co-helpers:" + cv, Sizes: []int{n}, Pattern: p, Seed: seed})
			}
		}
	}
	// larger single batches (block-wise processing inside one Send/Receive), two patterns
	for _, n := range []int{127, 128, 129, 255, 256, 257, 300, 511, 512, 513, 1025} {
		for _, p := range []string{"lfsr", "one"} {
			cases = append(cases, cs{Variant: "co", Sizes: []int{n}, Pattern: p, Seed: seed})
		}
		cases = append(cases, cs{Variant: "co-helpers:P-256", Sizes: []int{n}, Pattern: "lfsr", Seed: seed})
	}
	cases = append(cases, cs{Variant: "co", Sizes: []int{257, 3, 300}, Pattern: "lfsr", Seed: seed})
	cases = append(cases, cs{Variant: "co", Sizes: []int{3, 9}, Pattern: "lfsr", Seed: seed})
	for _, n := range []int{1, 8, 65, 129, 513} {
		cases = append(cases, cs{Variant: "cot-co", Sizes: []int{n}, Pattern: "lfsr", Seed: seed})
		cases = append(cases, cs{Variant: "cot-mal-co", Sizes: []int{n}, Pattern: "lfsr", Seed: seed})
		cases = append(cases, cs{Variant: "rot-co", Sizes: []int{n}, Pattern: "lfsr", Seed: seed})
	}
	// RSA (key generation dominates)
	rsaSizes := []int{1, 2, 9, 65, 257}
	if !ctx.Quick() {
		rsaSizes = []int{1, 2, 3, 8, 9, 17, 33, 65, 129, 257, 513}
		cases = append(cases, cs{Variant: "rsa2048", Sizes: []int{3}, Pattern: "alt1", Seed: seed})
	}
	for _, n := range rsaSizes {
		for _, p := range []string{"zero", "one", "alt0", "alt1"} {
			cases = append(cases, cs{Variant: "rsa", Sizes: []int{n}, Pattern: p, Seed: seed})
		}
	}
	cases = append(cases, cs{Variant: "rsa", Sizes: []int{2, 3}, Pattern: "alt1", Seed: seed})

	ctx.Note(fmt.Sprintf("case list: %d cases; IKNP label and packed-bit forms for every n in 1..%d", len(cases), maxN))
	for i, k := range cases {
		if !ctx.Mine(i) {
			continue
		}
		if ctx.Expired() {
			return
		}
		runCase(ctx, k)
		if i%5000 == 0 {
			ctx.Sample(k)
		}
	}
}

func replay(ctx *runner.Ctx, raw json.RawMessage) {
	var k cs
	if err := json.Unmarshal(raw, &k); err != nil {
		panic(err)
	}
	runCase(ctx, k)
}

func main() {
	runner.Main(runner.Spec{
		ID:    "C06",
		Level: "exploration",
		Rule: "explicit list: IKNP extension (label form, malicious label form, packed-bit form) for EVERY batch size 1..N x Delta bit0 in {0,1} x choice vectors {all-0, all-1, alternating both phases, every single-1 position for small n, LFSR}; 2- and 3-batch histories on one instance over sizes {1,8,63,64,65,512,513}; COT/ROT (semi-honest, malicious, shared re-init) over an ideal base OT; Chou-Orlandi and its pure helpers on 4 curves; RSA-1024; result buffers that are not fresh (every bit set on entry) for every variant; randomness sources with short reads. " +
			"distinct_nontrivial = distinct (variant, n mod 8, n mod 64, chunk count, partial chunk, pattern) classes that ran to a checked result",
		Assumptions: []string{
			"typed in-memory message link (memio) instead of p2p.Conn: the byte-stream layer is C11's subject",
			"ideal base OT for the IKNP-level enumeration; real Chou-Orlandi base on a size subset",
			"result buffers of the packed-bit form are zeroed by the caller (the code ORs bits in)",
		},
		Work:           work,
		Replay:         replay,
		QuickBudget:    80 * time.Second,
		ThoroughBudget: 20 * time.Minute,
	})
}
