// C01 — garbled evaluation equals plain evaluation, for every small circuit.
package main

import (
	"encoding/json"
	"errors"
	"fmt"
	"io"
	"math/big"
	"runtime"
	"runtime/debug"
	"strconv"
	"strings"
	"time"

	"github.com/markkurossi/mpc/circuit"
	"github.com/markkurossi/mpc/ot"

	"verif/bitsim"
	"verif/circgen"
	"verif/drbg"
	"verif/runner"
)

type cs struct {
	D      circgen.Desc `json:"circuit"`
	KeyLen int          `json:"keylen"`
	Seed   uint64       `json:"seed"`
	SBits  int          `json:"sbits"` // forced permute bits of the input wires
	Input  int          `json:"input"` // -1: all inputs
	Reuse  bool         `json:"reuse"` // garble, release, garble again before checking
	Hist   string       `json:"hist,omitempty"`
	// Gen, if set, names a large generated circuit instead of spelling it out in D:
	// "chain:<OP>:<n>" (n gates of one kind in a chain over 2 inputs) or "mix:<n>" (the five kinds in turn)
	Gen string `json:"gen,omitempty"`
	// Chunk > 0: the randomness source returns at most Chunk bytes per Read (short reads); input permute bits are
	// then whatever the stream gives
	Chunk int `json:"chunk,omitempty"`
}

func genDesc(gen string) circgen.Desc {
	parts := strings.Split(gen, ":")
	n, _ := strconv.Atoi(parts[len(parts)-1])
	ops := make([]circuit.Operation, n)
	for i := range ops {
		if parts[0] == "mix" {
			ops[i] = circgen.Ops[(i+i/7)%5]
		} else {
			for _, o := range circgen.Ops {
				if o.String() == parts[1] {
					ops[i] = o
				}
			}
		}
	}
	return circgen.Chain(2, ops, 2)
}

var rowsByOp = map[circuit.Operation]int{circuit.XOR: 0, circuit.XNOR: 0, circuit.AND: 2, circuit.OR: 3, circuit.INV: 1}

// one garbling, checked on all (or one) input assignment.
func runCase(ctx *runner.Ctx, k cs, c *circuit.Circuit) {
	if k.Gen != "" && len(k.D.Gates) == 0 {
		k.D = genDesc(k.Gen)
		defer func() { k.D = circgen.Desc{} }()
	}
	nin := k.D.NumIn()
	if c == nil {
		c = k.D.Build()
	}
	rd := drbg.NewChunked(k.Seed, k.Chunk)
	rd.Hook = func(call int, p []byte) {
		if k.Chunk > 0 {
			return
		}
		// call 0 produces R, calls 1..nin the L0 of the input wires.
		if call >= 1 && call <= nin && len(p) == 16 {
			if k.SBits>>(call-1)&1 == 1 {
				p[0] |= 0x80
			} else {
				p[0] &= 0x7f
			}
		}
	}
	key := make([]byte, k.KeyLen)
	for i := range key {
		key[i] = byte(7*i + int(k.Seed) + 1)
	}
	fail := func(site, what string) {
		kk := k
		name := k.D.String()
		if k.Gen != "" {
			kk.D = circgen.Desc{}
			name = k.Gen
		}
		ctx.Violate("garble."+site, what+" :: "+name, kk)
	}
	g, err := c.Garble(rd, key)
	if err != nil {
		fail("garble-error", err.Error())
		return
	}
	if k.Reuse {
		g.Release()
		g.Release()
		rd2 := drbg.NewChunked(k.Seed+1000, k.Chunk)
		rd2.Hook = rd.Hook
		g, err = c.Garble(rd2, key)
		if err != nil {
			fail("garble-error", err.Error())
			return
		}
	}
	defer g.Release()
	if !g.R.S() {
		fail("R.S", "global offset has permute bit 0")
	}
	for w := 0; w < c.NumWires; w++ {
		x := g.Wires[w].L0
		x.Xor(g.Wires[w].L1)
		if !x.Equal(g.R) {
			fail("wire-offset", fmt.Sprintf("wire %d: L0^L1 != R", w))
			return
		}
	}
	for i := range c.Gates {
		if len(g.Gates[i]) != rowsByOp[c.Gates[i].Op] {
			fail("rows."+c.Gates[i].Op.String(), fmt.Sprintf("gate %d has %d rows", i, len(g.Gates[i])))
			return
		}
	}
	// permute-bit coverage of gate inputs
	for i := range c.Gates {
		if k.Gen != "" {
			break
		}
		gt := &c.Gates[i]
		sa := g.Wires[gt.Input0].L0.S()
		sb := false
		if gt.Op != circuit.INV {
			sb = g.Wires[gt.Input1].L0.S()
		}
		ctx.Nontrivial(fmt.Sprintf("perm/%s/pos%d/%v/%v", gt.Op, i, sa, sb))
	}

	lo, hi := 0, 1<<nin
	if k.Input >= 0 {
		lo, hi = k.Input, k.Input+1
	}
	in := make([]bool, nin)
	wires := make([]ot.Label, c.NumWires)
	args := bitsim.FlatArgs(c)
	for x := lo; x < hi; x++ {
		for i := range in {
			in[i] = x>>i&1 == 1
		}
		ref, err := bitsim.Eval(c, in)
		if err != nil {
			panic(err)
		}
		for i := range wires {
			wires[i] = ot.Label{}
		}
		for i := 0; i < nin; i++ {
			wires[i] = circuit.LabelForBit(g.Wires[i], in[i])
		}
		ctx.Eval(1)
		if ref[c.NumWires-1] {
			ctx.Outcome("ok/last-output-wire=1")
		} else {
			ctx.Outcome("ok/last-output-wire=0")
		}
		if err := c.Eval(key, wires, g.Gates); err != nil {
			fail("eval-error", err.Error())
			return
		}
		for w := nin; w < c.NumWires; w++ {
			if !wires[w].Equal(circuit.LabelForBit(g.Wires[w], ref[w])) {
				op := c.Gates[w-nin].Op
				other := wires[w].Equal(circuit.LabelForBit(g.Wires[w], !ref[w]))
				fail("label."+op.String(), fmt.Sprintf("input %b: wire %d (gate %s) evaluates to %s (is the other label: %v), want label of bit %v",
					x, w, op, wires[w], other, ref[w]))
				return
			}
		}
		for w := c.NumWires - c.Outputs.Size(); w < c.NumWires; w++ {
			bit, err := circuit.BitFromLabel(g.Wires[w], wires[w])
			if err != nil || bit != ref[w] {
				fail("decode", fmt.Sprintf("input %b: output wire %d decodes to %v,%v want %v", x, w, bit, err, ref[w]))
				return
			}
		}
		// the library's own plain evaluator
		var vals []*big.Int
		off := 0
		for _, a := range args {
			v := new(big.Int)
			for b := 0; b < int(a.Type.Bits); b++ {
				if in[off] {
					v.SetBit(v, b, 1)
				}
				off++
			}
			vals = append(vals, v)
		}
		got, err := c.Compute(vals)
		if err != nil {
			fail("compute-error", err.Error())
			return
		}
		want := bitsim.Outputs(c, ref)
		for i := range want {
			if got[i].Cmp(want[i]) != 0 {
				fail("compute", fmt.Sprintf("input %b: Compute output %d = %s, truth table says %s", x, i, got[i], want[i]))
				return
			}
		}
	}
}

func work(ctx *runner.Ctx) {
	type cfg struct{ nin, g int }
	var cfgs []cfg
	if ctx.Quick() {
		cfgs = []cfg{{1, 1}, {1, 2}, {2, 1}, {2, 2}, {1, 3}, {3, 1}, {2, 3}, {3, 2}, {1, 4}, {3, 3}}
	} else {
		cfgs = []cfg{{1, 1}, {1, 2}, {2, 1}, {2, 2}, {1, 3}, {3, 1}, {2, 3}, {3, 2}, {1, 4}, {3, 3}, {2, 4}, {4, 2}, {4, 3}}
	}
	seeds := []uint64{uint64(ctx.Seed), uint64(ctx.Seed) + 1}
	keylens := []int{16, 24, 32}
	idx := 0
	for _, cf := range cfgs {
		complete := true
		circgen.EnumGates(cf.nin, cf.g, func(gates []circgen.G) bool {
			idx++
			if !ctx.Mine(idx) {
				return true
			}
			if ctx.Expired() {
				complete = false
				return false
			}
			for nout := 1; nout <= 2 && nout <= cf.g; nout++ {
				d := circgen.Desc{In: []int{cf.nin}, Out: []int{nout}, Gates: append([]circgen.G(nil), gates...)}
				c := d.Build()
				ctx.NontrivialN(1)
				for sb := 0; sb < 1<<cf.nin; sb++ {
					// key sizes rotate with the seed so each circuit sees all three
					for si, seed := range seeds {
						if ctx.Quick() && cf.g >= 3 && si > 0 {
							continue
						}
						for ki, kl := range keylens {
							if (ctx.Quick() || cf.g >= 4) && ki != (idx+sb+si)%3 {
								continue
							}
							k := cs{D: d, KeyLen: kl, Seed: seed, SBits: sb, Input: -1}
							runCase(ctx, k, c)
							if idx%50000 == 1 && sb == 0 {
								ctx.Sample(k)
							}
						}
					}
				}
			}
			return true
		})
		if complete {
			ctx.Note(fmt.Sprintf("complete: all %d gate lists with n_in=%d G=%d, outputs=last 1..2 wires, all inputs, all input permute-bit combinations", circgen.Count(cf.nin, cf.g), cf.nin, cf.g))
		} else {
			ctx.Note(fmt.Sprintf("cut by deadline inside n_in=%d G=%d", cf.nin, cf.g))
			break
		}
	}
	families(ctx)
	histories(ctx)
}

// deterministic families beyond the exhaustive size.
func families(ctx *runner.Ctx) {
	var descs []circgen.Desc
	// every op sequence of length <= 5 (quick 4) as a chain over 2 inputs
	maxLen := 5
	if ctx.Quick() {
		maxLen = 4
	}
	for l := 4; l <= maxLen; l++ {
		n := 1
		for i := 0; i < l; i++ {
			n *= 5
		}
		for x := 0; x < n; x++ {
			ops := make([]circuit.Operation, l)
			v := x
			for i := range ops {
				ops[i] = circgen.Ops[v%5]
				v /= 5
			}
			descs = append(descs, circgen.Chain(2, ops, 1))
		}
	}
	for _, op := range circgen.Ops {
		ops := make([]circuit.Operation, 64)
		for i := range ops {
			ops[i] = op
		}
		descs = append(descs, circgen.Chain(3, ops, 2))
		descs = append(descs, circgen.Star(op, 16))
		// alternate with every other op: zero-row gates between table gates
		for _, op2 := range circgen.Ops {
			ops := make([]circuit.Operation, 24)
			for i := range ops {
				if i%2 == 0 {
					ops[i] = op
				} else {
					ops[i] = op2
				}
			}
			descs = append(descs, circgen.Chain(2, ops, 3))
		}
	}
	for i, d := range descs {
		if !ctx.Mine(i) {
			continue
		}
		if ctx.Expired() {
			return
		}
		c := d.Build()
		ctx.NontrivialN(1)
		nin := d.NumIn()
		for sb := 0; sb < 1<<nin; sb++ {
			for _, kl := range []int{16, 24, 32} {
				for seed := uint64(0); seed < 2; seed++ {
					runCase(ctx, cs{D: d, KeyLen: kl, Seed: uint64(ctx.Seed) + seed, SBits: sb, Input: -1, Reuse: seed == 1}, c)
				}
				if sb == 0 && kl == 16 {
					// a randomness source that returns short reads
					for _, ch := range []int{1, 5, 16, 17, 100} {
						runCase(ctx, cs{D: d, KeyLen: kl, Seed: uint64(ctx.Seed) + uint64(ch), Input: -1, Chunk: ch}, c)
					}
				}
			}
		}
	}
	// large circuits: the gate counter and the tweaks pass 2^16 (and 2^17 for AND gates, which use two tweaks)
	var gens []string
	for _, op := range circgen.Ops {
		gens = append(gens, fmt.Sprintf("chain:%s:70000", op))
	}
	gens = append(gens, "mix:70000", "mix:140000")
	for i, gname := range gens {
		if !ctx.Mine(i) || ctx.Expired() {
			continue
		}
		d := genDesc(gname)
		c := d.Build()
		ctx.NontrivialN(1)
		for _, kl := range []int{16, 32} {
			for sb := 0; sb < 4; sb++ {
				runCase(ctx, cs{D: d, Gen: gname, KeyLen: kl, Seed: uint64(ctx.Seed) + uint64(sb), SBits: sb, Input: -1}, c)
			}
		}
	}
	ctx.Note(fmt.Sprintf("families: %d circuits (op-sequence chains, 64-gate chains per op, fan-out-16 stars, alternating chains), incl. garble-release-garble reuse; plus 7 circuits of 70000-140000 gates (gate counter and tweaks beyond 2^16 / 2^17)", len(descs)))
}

func replay(ctx *runner.Ctx, raw json.RawMessage) {
	var k cs
	if err := json.Unmarshal(raw, &k); err != nil {
		panic(err)
	}
	if k.Hist != "" {
		runHist(ctx, k)
		return
	}
	runCase(ctx, k, nil)
}

type failingReader struct {
	r      io.Reader
	calls  int
	failAt int
}

func (f *failingReader) Read(p []byte) (int, error) {
	f.calls++
	if f.calls >= f.failAt {
		return 0, errors.New("injected randomness failure")
	}
	return f.r.Read(p)
}

type live struct {
	g   *circuit.Garbled
	key []byte
}

// histAlphabet: G a/b = Garble with key A/B written into ONE shared key buffer; F = Garble with key A in a
// fresh buffer; X = Garble whose randomness source fails on its 2nd read (must return an error);
// r/R = Release oldest/newest live garbling (twice: Release is idempotent); e/E = evaluate oldest/newest
// live garbling on every input and compare every wire with the truth table; 1/2/3 = Garble with the first
// 16/24/32 bytes of ONE master key (keys of different AES sizes of which the shorter is a prefix of the longer:
// a key schedule or key copy carried over in the recycled scratch and compared by prefix shows here; seed C01-9).
var histAlphabet = []byte("abFXrReE123")

// runHist executes one operation history on one circuit value, single-threaded.
func runHist(ctx *runner.Ctx, k cs) {
	old := runtime.GOMAXPROCS(1)
	gc := debug.SetGCPercent(-1)
	defer func() {
		debug.SetGCPercent(gc)
		runtime.GOMAXPROCS(old)
	}()
	c := k.D.Build()
	nin := k.D.NumIn()
	shared := make([]byte, k.KeyLen)
	fill := func(buf []byte, v byte) {
		for i := range buf {
			buf[i] = byte(7*i+1) ^ v
		}
	}
	var lives []*live
	fail := func(site, what string) {
		ctx.Violate("history."+site, what+" :: history "+k.Hist+" on "+k.D.String(), k)
	}
	seed := k.Seed
	check := func(l *live, which string) bool {
		in := make([]bool, nin)
		wires := make([]ot.Label, c.NumWires)
		for x := 0; x < 1<<nin; x++ {
			for i := range in {
				in[i] = x>>i&1 == 1
			}
			ref, _ := bitsim.Eval(c, in)
			for i := range wires {
				wires[i] = ot.Label{}
			}
			if len(l.g.Wires) != c.NumWires {
				fail("live-garbling-lost", which+" garbling lost its wires while still unreleased")
				return false
			}
			for i := 0; i < nin; i++ {
				wires[i] = circuit.LabelForBit(l.g.Wires[i], in[i])
			}
			ctx.Eval(1)
			if err := c.Eval(l.key, wires, l.g.Gates); err != nil {
				fail("eval-error", which+": "+err.Error())
				return false
			}
			for w := nin; w < c.NumWires; w++ {
				if !wires[w].Equal(circuit.LabelForBit(l.g.Wires[w], ref[w])) {
					fail("label", fmt.Sprintf("%s live garbling: input %b wire %d evaluates to a wrong label", which, x, w))
					return false
				}
			}
		}
		return true
	}
	for pos, op := range []byte(k.Hist) {
		switch op {
		case 'a', 'b', 'F':
			seed++
			var key []byte
			if op == 'F' {
				key = make([]byte, k.KeyLen)
				fill(key, 0)
			} else {
				key = shared
				fill(key, map[byte]byte{'a': 0, 'b': 0x5a}[op])
			}
			g, err := c.Garble(drbg.New(seed), key)
			if err != nil {
				fail("garble-error", err.Error())
				return
			}
			// the evaluator side keeps its own copy of the key, as in the protocol
			lives = append(lives, &live{g: g, key: append([]byte(nil), key...)})
		case '1', '2', '3':
			seed++
			master := make([]byte, 32)
			fill(master, 0x33)
			key := master[:map[byte]int{'1': 16, '2': 24, '3': 32}[op]]
			g, err := c.Garble(drbg.New(seed), key)
			if err != nil {
				fail("garble-error", err.Error())
				return
			}
			lives = append(lives, &live{g: g, key: append([]byte(nil), key...)})
		case 'X':
			seed++
			fr := &failingReader{r: drbg.New(seed), failAt: 2}
			if _, err := c.Garble(fr, shared[:k.KeyLen]); err == nil {
				fail("error-not-reported", "Garble succeeded although its randomness source failed")
				return
			}
		case 'r', 'R':
			if len(lives) == 0 {
				continue
			}
			i := 0
			if op == 'R' {
				i = len(lives) - 1
			}
			lives[i].g.Release()
			lives[i].g.Release()
			lives = append(lives[:i], lives[i+1:]...)
		case 'e', 'E':
			if len(lives) == 0 {
				continue
			}
			i, which := 0, "oldest"
			if op == 'E' {
				i, which = len(lives)-1, "newest"
			}
			if !check(lives[i], fmt.Sprintf("step %d: %s", pos, which)) {
				return
			}
		}
	}
	// every garbling still live must still be valid
	for i, l := range lives {
		if !check(l, fmt.Sprintf("end: live #%d", i)) {
			return
		}
	}
	ctx.Outcome(fmt.Sprintf("history-ok/live-at-end=%d", len(lives)))
}

func histories(ctx *runner.Ctx) {
	descs := []circgen.Desc{
		{In: []int{2}, Out: []int{1}, Gates: []circgen.G{{2, 0, 1}, {3, 0, 2}, {4, 3, 0}}},
		{In: []int{2}, Out: []int{2}, Gates: []circgen.G{{0, 0, 1}, {1, 0, 2}}},
	}
	maxLen := 5
	if ctx.Quick() {
		maxLen = 4
	}
	idx := 0
	n := len(histAlphabet)
	for l := 1; l <= maxLen; l++ {
		total := 1
		for i := 0; i < l; i++ {
			total *= n
		}
		for x := 0; x < total; x++ {
			h := make([]byte, l)
			v := x
			garbles := 0
			for i := range h {
				h[i] = histAlphabet[v%n]
				v /= n
				if h[i] == 'a' || h[i] == 'b' || h[i] == 'F' || h[i] == '1' || h[i] == '2' || h[i] == '3' {
					garbles++
				}
			}
			if garbles == 0 {
				continue
			}
			for di, d := range descs {
				idx++
				if !ctx.Mine(idx) {
					continue
				}
				if ctx.Expired() {
					return
				}
				k := cs{D: d, KeyLen: []int{16, 24, 32}[(x+di)%3], Seed: uint64(ctx.Seed) + uint64(x)*16, Hist: string(h), Input: -1}
				runHist(ctx, k)
				ctx.NontrivialN(1)
				if idx%20000 == 0 {
					ctx.Sample(k)
				}
			}
		}
	}
	ctx.Note(fmt.Sprintf("histories: every sequence of <= %d operations over {Garble keyA/keyB in one shared buffer, Garble fresh buffer, Garble with the 16/24/32-byte prefixes of one master key, Garble with failing randomness, Release oldest/newest (twice), Eval oldest/newest} with >= 1 garble, on 2 circuits", maxLen))
}

func main() {
	runner.Main(runner.Spec{
		ID:    "C01",
		Level: "exploration",
		Rule: "odometer over every gate list (op in XOR,XNOR,AND,OR,INV; inputs any earlier wires incl. the same wire twice) for the stated (n_in,G) bounds x outputs = last 1..2 wires x every input assignment x every combination of input permute bits x AES key lengths x DRBG seeds; " +
			"distinct_nontrivial = distinct circuits (each has >=1 gate) + distinct (op, gate position, S(a.L0), S(b.L0)) permute-bit combinations observed on gate inputs; evaluations = garbled evaluations, each compared wire by wire with an independent truth-table evaluator",
		Assumptions: []string{
			"label randomness is covered for the enumerated DRBG seeds only; permute bits of internal wires are hash outputs and are measured, not forced",
			"circuits beyond the exhaustive gate bound are covered only through the named families",
		},
		Work:           work,
		Replay:         replay,
		QuickBudget:    70 * time.Second,
		ThoroughBudget: 20 * time.Minute,
	})
}
