// C01 — garbled evaluation equals plain evaluation, for every small circuit.
package main

import (
	"encoding/json"
	"fmt"
	"math/big"
	"time"

	"github.com/markkurossi/mpc/circuit"
	"github.com/markkurossi/mpc/ot"

	"verif/bitsim"
	"verif/circgen"
	"verif/drbg"
	"verif/runner"
)

type cs struct {
	D      circgen.Desc `json:"circuit"`
	KeyLen int          `json:"keylen"`
	Seed   uint64       `json:"seed"`
	SBits  int          `json:"sbits"` // forced permute bits of the input wires
	Input  int          `json:"input"` // -1: all inputs
	Reuse  bool         `json:"reuse"` // garble, release, garble again before checking
}

var rowsByOp = map[circuit.Operation]int{circuit.XOR: 0, circuit.XNOR: 0, circuit.AND: 2, circuit.OR: 3, circuit.INV: 1}

// one garbling, checked on all (or one) input assignment.
func runCase(ctx *runner.Ctx, k cs, c *circuit.Circuit) {
	nin := k.D.NumIn()
	if c == nil {
		c = k.D.Build()
	}
	rd := drbg.New(k.Seed)
	rd.Hook = func(call int, p []byte) {
		// call 0 produces R, calls 1..nin the L0 of the input wires.
		if call >= 1 && call <= nin && len(p) == 16 {
			if k.SBits>>(call-1)&1 == 1 {
				p[0] |= 0x80
			} else {
				p[0] &= 0x7f
			}
		}
	}
	key := make([]byte, k.KeyLen)
	for i := range key {
		key[i] = byte(7*i + int(k.Seed) + 1)
	}
	fail := func(site, what string) {
		ctx.Violate("garble."+site, what+" :: "+k.D.String(), k)
	}
	g, err := c.Garble(rd, key)
	if err != nil {
		fail("garble-error", err.Error())
		return
	}
	if k.Reuse {
		g.Release()
		g.Release()
		rd2 := drbg.New(k.Seed + 1000)
		rd2.Hook = rd.Hook
		g, err = c.Garble(rd2, key)
		if err != nil {
			fail("garble-error", err.Error())
			return
		}
	}
	defer g.Release()
	if !g.R.S() {
		fail("R.S", "global offset has permute bit 0")
	}
	for w := 0; w < c.NumWires; w++ {
		x := g.Wires[w].L0
		x.Xor(g.Wires[w].L1)
		if !x.Equal(g.R) {
			fail("wire-offset", fmt.Sprintf("wire %d: L0^L1 != R", w))
			return
		}
	}
	for i := range c.Gates {
		if len(g.Gates[i]) != rowsByOp[c.Gates[i].Op] {
			fail("rows."+c.Gates[i].Op.String(), fmt.Sprintf("gate %d has %d rows", i, len(g.Gates[i])))
			return
		}
	}
	// permute-bit coverage of gate inputs
	for i := range c.Gates {
		gt := &c.Gates[i]
		sa := g.Wires[gt.Input0].L0.S()
		sb := false
		if gt.Op != circuit.INV {
			sb = g.Wires[gt.Input1].L0.S()
		}
		ctx.Nontrivial(fmt.Sprintf("perm/%s/pos%d/%v/%v", gt.Op, i, sa, sb))
	}

	lo, hi := 0, 1<<nin
	if k.Input >= 0 {
		lo, hi = k.Input, k.Input+1
	}
	in := make([]bool, nin)
	wires := make([]ot.Label, c.NumWires)
	args := bitsim.FlatArgs(c)
	for x := lo; x < hi; x++ {
		for i := range in {
			in[i] = x>>i&1 == 1
		}
		ref, err := bitsim.Eval(c, in)
		if err != nil {
			panic(err)
		}
		for i := range wires {
			wires[i] = ot.Label{}
		}
		for i := 0; i < nin; i++ {
			wires[i] = circuit.LabelForBit(g.Wires[i], in[i])
		}
		ctx.Eval(1)
		if ref[c.NumWires-1] {
			ctx.Outcome("ok/last-output-wire=1")
		} else {
			ctx.Outcome("ok/last-output-wire=0")
		}
		if err := c.Eval(key, wires, g.Gates); err != nil {
			fail("eval-error", err.Error())
			return
		}
		for w := nin; w < c.NumWires; w++ {
			if !wires[w].Equal(circuit.LabelForBit(g.Wires[w], ref[w])) {
				op := c.Gates[w-nin].Op
				other := wires[w].Equal(circuit.LabelForBit(g.Wires[w], !ref[w]))
				fail("label."+op.String(), fmt.Sprintf("input %b: wire %d (gate %s) evaluates to %s (is the other label: %v), want label of bit %v",
					x, w, op, wires[w], other, ref[w]))
				return
			}
		}
		for w := c.NumWires - c.Outputs.Size(); w < c.NumWires; w++ {
			bit, err := circuit.BitFromLabel(g.Wires[w], wires[w])
			if err != nil || bit != ref[w] {
				fail("decode", fmt.Sprintf("input %b: output wire %d decodes to %v,%v want %v", x, w, bit, err, ref[w]))
				return
			}
		}
		// the library's own plain evaluator
		var vals []*big.Int
		off := 0
		for _, a := range args {
			v := new(big.Int)
			for b := 0; b < int(a.Type.Bits); b++ {
				if in[off] {
					v.SetBit(v, b, 1)
				}
				off++
			}
			vals = append(vals, v)
		}
		got, err := c.Compute(vals)
		if err != nil {
			fail("compute-error", err.Error())
			return
		}
		want := bitsim.Outputs(c, ref)
		for i := range want {
			if got[i].Cmp(want[i]) != 0 {
				fail("compute", fmt.Sprintf("input %b: Compute output %d = %s, truth table says %s", x, i, got[i], want[i]))
				return
			}
		}
	}
}

func work(ctx *runner.Ctx) {
	type cfg struct{ nin, g int }
	var cfgs []cfg
	if ctx.Quick() {
		cfgs = []cfg{{1, 1}, {1, 2}, {2, 1}, {2, 2}, {1, 3}, {3, 1}, {2, 3}, {3, 2}, {1, 4}, {3, 3}}
	} else {
		cfgs = []cfg{{1, 1}, {1, 2}, {2, 1}, {2, 2}, {1, 3}, {3, 1}, {2, 3}, {3, 2}, {1, 4}, {3, 3}, {2, 4}, {4, 2}, {4, 3}}
	}
	seeds := []uint64{uint64(ctx.Seed), uint64(ctx.Seed) + 1}
	keylens := []int{16, 24, 32}
	idx := 0
	for _, cf := range cfgs {
		complete := true
		circgen.EnumGates(cf.nin, cf.g, func(gates []circgen.G) bool {
			idx++
			if !ctx.Mine(idx) {
				return true
			}
			if idx&0xff == 0 && ctx.Expired() {
				complete = false
				return false
			}
			for nout := 1; nout <= 2 && nout <= cf.g; nout++ {
				d := circgen.Desc{In: []int{cf.nin}, Out: []int{nout}, Gates: append([]circgen.G(nil), gates...)}
				c := d.Build()
				ctx.NontrivialN(1)
				for sb := 0; sb < 1<<cf.nin; sb++ {
					// key sizes rotate with the seed so each circuit sees all three
					for si, seed := range seeds {
						if ctx.Quick() && cf.g >= 3 && si > 0 {
							continue
						}
						for ki, kl := range keylens {
							if (ctx.Quick() || cf.g >= 4) && ki != (idx+sb+si)%3 {
								continue
							}
							k := cs{D: d, KeyLen: kl, Seed: seed, SBits: sb, Input: -1}
							runCase(ctx, k, c)
							if idx%50000 == 1 && sb == 0 {
								ctx.Sample(k)
							}
						}
					}
				}
			}
			return true
		})
		if complete {
			ctx.Note(fmt.Sprintf("complete: all %d gate lists with n_in=%d G=%d, outputs=last 1..2 wires, all inputs, all input permute-bit combinations", circgen.Count(cf.nin, cf.g), cf.nin, cf.g))
		} else {
			ctx.Note(fmt.Sprintf("cut by deadline inside n_in=%d G=%d", cf.nin, cf.g))
			break
		}
	}
	families(ctx)
}

// deterministic families beyond the exhaustive size.
func families(ctx *runner.Ctx) {
	var descs []circgen.Desc
	// every op sequence of length <= 5 (quick 4) as a chain over 2 inputs
	maxLen := 5
	if ctx.Quick() {
		maxLen = 4
	}
	for l := 4; l <= maxLen; l++ {
		n := 1
		for i := 0; i < l; i++ {
			n *= 5
		}
		for x := 0; x < n; x++ {
			ops := make([]circuit.Operation, l)
			v := x
			for i := range ops {
				ops[i] = circgen.Ops[v%5]
				v /= 5
			}
			descs = append(descs, circgen.Chain(2, ops, 1))
		}
	}
	for _, op := range circgen.Ops {
		ops := make([]circuit.Operation, 64)
		for i := range ops {
			ops[i] = op
		}
		descs = append(descs, circgen.Chain(3, ops, 2))
		descs = append(descs, circgen.Star(op, 16))
		// alternate with every other op: zero-row gates between table gates
		for _, op2 := range circgen.Ops {
			ops := make([]circuit.Operation, 24)
			for i := range ops {
				if i%2 == 0 {
					ops[i] = op
				} else {
					ops[i] = op2
				}
			}
			descs = append(descs, circgen.Chain(2, ops, 3))
		}
	}
	for i, d := range descs {
		if !ctx.Mine(i) {
			continue
		}
		if ctx.Expired() {
			return
		}
		c := d.Build()
		ctx.NontrivialN(1)
		nin := d.NumIn()
		for sb := 0; sb < 1<<nin; sb++ {
			for _, kl := range []int{16, 24, 32} {
				for seed := uint64(0); seed < 2; seed++ {
					runCase(ctx, cs{D: d, KeyLen: kl, Seed: uint64(ctx.Seed) + seed, SBits: sb, Input: -1, Reuse: seed == 1}, c)
				}
			}
		}
	}
	ctx.Note(fmt.Sprintf("families: %d circuits (op-sequence chains, 64-gate chains per op, fan-out-16 stars, alternating chains), incl. garble-release-garble reuse", len(descs)))
}

func replay(ctx *runner.Ctx, raw json.RawMessage) {
	var k cs
	if err := json.Unmarshal(raw, &k); err != nil {
		panic(err)
	}
	runCase(ctx, k, nil)
}

func main() {
	runner.Main(runner.Spec{
		ID:    "C01",
		Level: "exploration",
		Rule: "odometer over every gate list (op in XOR,XNOR,AND,OR,INV; inputs any earlier wires incl. the same wire twice) for the stated (n_in,G) bounds x outputs = last 1..2 wires x every input assignment x every combination of input permute bits x AES key lengths x DRBG seeds; " +
			"distinct_nontrivial = distinct circuits (each has >=1 gate) + distinct (op, gate position, S(a.L0), S(b.L0)) permute-bit combinations observed on gate inputs; evaluations = garbled evaluations, each compared wire by wire with an independent truth-table evaluator",
		Assumptions: []string{
			"label randomness is covered for the enumerated DRBG seeds only; permute bits of internal wires are hash outputs and are measured, not forced",
			"circuits beyond the exhaustive gate bound are covered only through the named families",
		},
		Work:           work,
		Replay:         replay,
		QuickBudget:    70 * time.Second,
		ThoroughBudget: 20 * time.Minute,
	})
}
