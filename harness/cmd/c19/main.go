// C19 — the peer-to-peer mesh always forms completely and consistently.
// The real p2p.Network (Create/Join/Connect/Close) runs on the cooperative
// scheduler over an in-memory network; every interleaving within the
// preemption bound (and every order of pending accepts within the deviation
// bound) is executed.
package main

import (
	"encoding/json"
	"fmt"
	"os"
	"sort"
	"strings"
	"time"

	"github.com/markkurossi/mpc/p2p"
	"github.com/markkurossi/mpc/zverif/csched"
	"github.com/markkurossi/mpc/zverif/vnet"

	"verif/mpcl"
	"verif/runner"
)

type cs struct {
	N      int   `json:"parties"`
	C      int   `json:"conns"`
	Order  []int `json:"order"` // order in which the party threads are created (= default start priority)
	P      int   `json:"p"`
	E      int   `json:"e"`
	F      int   `json:"f,omitempty"`
	Slow   []int `json:"slow,omitempty"` // parties whose threads run only when nothing else can (baseline speeds)
	Fast   []int `json:"fast,omitempty"` // parties whose threads run before everybody else's
	Prefix []int `json:"prefix,omitempty"`
	// LeaderLate: the leader's Create is not ordered before the other parties: it happens on the leader's own
	// thread, so that a party may call Join before the leader listens
	LeaderLate bool `json:"leader_late,omitempty"`
	// Delay: virtual seconds party i waits between Join/Create and Connect (a slow starter); virtual time advances
	// only when no thread can run, so a delay interacts with deadlines and timers of the code under test only
	Delay map[int]int `json:"delay,omitempty"`
	// U: unbounded exploration with sleep sets (every Mazurkiewicz trace and every accept order)
	U bool `json:"unbounded,omitempty"`
}

// options gives the scheduler options of a case: baseline "speeds" change the
// default choice among the runnable threads, they do not restrict the search.
func options(k cs) csched.Options {
	o := csched.Options{HashStates: true}
	if len(k.Slow) > 0 || len(k.Fast) > 0 {
		o.Priority = func(name string) int {
			var id int
			if n, _ := fmt.Sscanf(name, "party%d", &id); n != 1 {
				return 50
			}
			for _, x := range k.Slow {
				if x == id {
					return 0
				}
			}
			for _, x := range k.Fast {
				if x == id {
					return 100
				}
			}
			return 50
		}
	}
	return o
}

type party struct {
	id        int
	err       error
	connectOK bool
	tableAt   string // problem with the peer table when Connect returned
	pingErr   string
	closeErr  error
	done      bool
}

type world struct {
	ps []*party
}

func addr(i int) string { return fmt.Sprintf("party%d:9000", i) }

// checkTable verifies the peer table of one party.
func checkTable(nw *p2p.Network, self, n, c int) string {
	if len(nw.Peers) != n {
		var ids []int
		for _, p := range nw.Peers {
			ids = append(ids, p.ID)
		}
		return fmt.Sprintf("party %d knows %d parties %v, want %d", self, len(nw.Peers), ids, n)
	}
	seen := map[*p2p.Conn]bool{}
	for j := 0; j < n; j++ {
		p := nw.Peers[j]
		if p.ID != j {
			return fmt.Sprintf("party %d: Peers[%d].ID = %d", self, j, p.ID)
		}
		if j == self {
			continue
		}
		if len(p.Conns) != c {
			return fmt.Sprintf("party %d has %d connections to party %d, want %d", self, len(p.Conns), j, c)
		}
		for k, conn := range p.Conns {
			if conn == nil {
				return fmt.Sprintf("party %d: connection %d to party %d is missing", self, k, j)
			}
			if seen[conn] {
				return fmt.Sprintf("party %d: connection %d to party %d is a duplicate", self, k, j)
			}
			seen[conn] = true
		}
	}
	return ""
}

func system(k cs, w *world) func() {
	return func() {
		vnet.Reset()
		w.ps = make([]*party, k.N)
		for i := range w.ps {
			w.ps[i] = &party{id: i}
		}
		// the leader listens first, as in real use; everything else is concurrent
		var leader *p2p.Network
		if !k.LeaderLate {
			var err error
			leader, err = p2p.Create(addr(0), k.N, k.C)
			if err != nil {
				w.ps[0].err = err
				return
			}
		}
		run := func(i int) func() {
			return func() {
				p := w.ps[i]
				var nw *p2p.Network
				if i == 0 && k.LeaderLate {
					var err error
					nw, err = p2p.Create(addr(0), k.N, k.C)
					if err != nil {
						p.err = fmt.Errorf("Create: %v", err)
						p.done = true
						return
					}
				} else if i == 0 {
					nw = leader
				} else {
					var err error
					nw, err = p2p.Join(addr(0), addr(i), i, k.C)
					if err != nil {
						p.err = fmt.Errorf("Join: %v", err)
						p.done = true
						return
					}
				}
				if d := k.Delay[i]; d > 0 {
					fired := false
					csched.AddTimer(int64(d)*1e9, func() { fired = true })
					csched.SchedPoint("sleep", 0, func() bool { return fired })
				}
				if err := nw.Connect(); err != nil {
					p.err = fmt.Errorf("Connect: %v", err)
					nw.Close()
					p.done = true
					return
				}
				p.connectOK = true
				// the caller starts using the table now
				p.tableAt = checkTable(nw, i, k.N, k.C)
				if p.tableAt != "" {
					nw.Close()
					p.done = true
					return
				}
				// k-th connection here is the k-th connection there
				for j := 0; j < k.N; j++ {
					if j == i {
						continue
					}
					for c, conn := range nw.Peers[j].Conns {
						for _, v := range []int{i, j, c} {
							if err := conn.SendUint32(v); err != nil && p.pingErr == "" {
								p.pingErr = fmt.Sprintf("send to %d/%d: %v", j, c, err)
							}
						}
						if err := conn.Flush(); err != nil && p.pingErr == "" {
							p.pingErr = fmt.Sprintf("flush to %d/%d: %v", j, c, err)
						}
					}
				}
				for j := 0; j < k.N && p.pingErr == ""; j++ {
					if j == i {
						continue
					}
					for c, conn := range nw.Peers[j].Conns {
						var got [3]int
						for x := range got {
							v, err := conn.ReceiveUint32()
							if err != nil {
								p.pingErr = fmt.Sprintf("receive from %d/%d: %v", j, c, err)
								break
							}
							got[x] = v
						}
						if p.pingErr == "" && got != [3]int{j, i, c} {
							p.pingErr = fmt.Sprintf("party %d slot (%d,%d) delivered the token of (from=%d,to=%d,conn=%d): cross-wired", i, j, c, got[0], got[1], got[2])
						}
					}
				}
				p.closeErr = nw.Close()
				p.done = true
			}
		}
		for _, i := range k.Order {
			csched.GoNamed(fmt.Sprintf("party%d", i), run(i))
		}
	}
}

func judge(k cs, w *world, r *csched.Result) (string, string) {
	switch r.Outcome {
	case "ok":
	case "stuck":
		return "HARNESS", r.Detail
	case "deadlock":
		if k.LeaderLate {
			for _, p := range w.ps {
				if p.err != nil && strings.Contains(p.err.Error(), "Join:") {
					return "join-before-leader", fmt.Sprintf("party %d called Join before the leader was listening: %v; the others wait for it forever", p.id, p.err)
				}
			}
		}
		// say what the parties saw
		var s []string
		for _, p := range w.ps {
			s = append(s, fmt.Sprintf("party %d: connect-returned=%v err=%v", p.id, p.connectOK, p.err))
		}
		return "never-terminates", fmt.Sprintf("connection setup deadlocks (%v); %s", s, r.Detail)
	default:
		return r.Outcome, r.Detail
	}
	for _, p := range w.ps {
		if p.err != nil {
			if k.LeaderLate && strings.Contains(p.err.Error(), "Join:") {
				return "join-before-leader", fmt.Sprintf("party %d called Join before the leader was listening: %v (Join dials the leader once, there is no retry)", p.id, p.err)
			}
			return "setup-error", fmt.Sprintf("party %d: %v", p.id, p.err)
		}
		if p.tableAt != "" {
			return "table-incomplete-at-connect-return", p.tableAt
		}
		if p.pingErr != "" {
			return "ping", p.pingErr
		}
	}
	if n := vnet.PendingUnaccepted(); n != 0 {
		return "unaccepted", fmt.Sprintf("%d dialed connections were never accepted", n)
	}
	return "", ""
}

func report(ctx *runner.Ctx, k cs, kind, what string, r *csched.Result) {
	ctx.Violate(kind, fmt.Sprintf("%s :: parties=%d conns=%d start-order=%v slow=%v fast=%v schedule=%v", what, k.N, k.C, k.Order, k.Slow, k.Fast, r.Choices), k)
}

func runCaseSharded(ctx *runner.Ctx, k cs, shard, nshards int) {
	if k.Prefix != nil {
		w := &world{}
		o := options(k)
		o.HashStates = false
		r := csched.Run(k.Prefix, o, system(k, w))
		ctx.Eval(1)
		if kind, what := judge(k, w, r); kind != "" {
			report(ctx, k, kind, what, r)
		}
		return
	}
	x := &csched.Explorer{PBound: k.P, EBound: k.E, FBound: k.F, Shard: shard, NShards: nshards,
		Opts: options(k), Stop: ctx.Expired}
	var w *world
	explore := x.Explore
	if k.U {
		explore = func(system func(), visit func(r *csched.Result, p, e int) bool) {
			x.ExploreUnbounded(system, func(r *csched.Result) bool { return visit(r, -1, -1) })
		}
	}
	explore(func() {
		w = &world{}
		system(k, w)()
	}, func(r *csched.Result, p, e int) bool {
		ctx.Eval(1)
		for _, h := range r.States {
			ctx.State(h)
		}
		kind, what := judge(k, w, r)
		if kind == "HARNESS" {
			panic("harness: " + what)
		}
		if kind != "" {
			kk := k
			kk.Prefix = append([]int{}, r.Choices...)
			report(ctx, kk, kind, fmt.Sprintf("%s [preemptions=%d accept-order deviations=%d]", what, p, e), r)
			return false
		}
		if k.U {
			ctx.Outcome(fmt.Sprintf("mesh-ok/unbounded/n=%d,c=%d", k.N, k.C))
		} else {
			ctx.Outcome(fmt.Sprintf("mesh-ok/n=%d,c=%d", k.N, k.C))
		}
		return true
	})
	if ctx.Replay {
		fmt.Fprintf(os.Stderr, "n=%d c=%d P=%d E=%d F=%d U=%v: %d executions, %d sleep-blocked, %d transitions, max points %d truncated=%v\n", k.N, k.C, k.P, k.E, k.F, k.U, x.Executions, x.SleepBlocked, x.Transitions, x.MaxPoints, x.Truncated)
	}
	if k.U {
		if shard == 0 {
			ctx.Count("unbounded_systems", 1)
		}
		ctx.Count("unbounded_executions", x.Executions)
		ctx.Count("unbounded_sleep_blocked", x.SleepBlocked)
		if x.Truncated {
			ctx.Count("unbounded_systems_cut", 1)
		}
	}
	ctx.Count("executions", x.Executions)
	ctx.Count("transitions", x.Transitions)
	ctx.Max("max_choice_points_per_execution", int64(x.MaxPoints))
	if x.Truncated {
		ctx.Incomplete(fmt.Sprintf("exploration of n=%d c=%d P=%d cut (deadline or queue cap)", k.N, k.C, k.P))
	} else if shard == 0 {
		ctx.NontrivialN(1)
	}
}

func ident(n int) []int {
	r := make([]int, n)
	for i := range r {
		r[i] = i
	}
	return r
}

func perms(n int) [][]int {
	var res [][]int
	a := make([]int, n)
	for i := range a {
		a[i] = i
	}
	var rec func(i int)
	rec = func(i int) {
		if i == n {
			res = append(res, append([]int(nil), a...))
			return
		}
		for j := i; j < n; j++ {
			a[i], a[j] = a[j], a[i]
			rec(i + 1)
			a[i], a[j] = a[j], a[i]
		}
	}
	rec(0)
	sort.Slice(res, func(i, j int) bool { return fmt.Sprint(res[i]) < fmt.Sprint(res[j]) })
	return res
}

func work(ctx *runner.Ctx) {
	mpcl.Quiet()
	if err := csched.SelfTest(); err != nil {
		panic(err)
	}
	type cfg struct{ n, c, p, e, f int }
	var cfgs []cfg
	if ctx.Quick() {
		cfgs = []cfg{{2, 1, 2, 1, 2}, {2, 2, 2, 0, 1}, {2, 3, 1, 1, 1}, {3, 1, 1, 0, 2}, {3, 2, 1, 0, 1}, {4, 1, 1, 0, 1}, {4, 2, 0, 1, 1}, {5, 1, 0, 0, 2}}
	} else {
		cfgs = []cfg{{2, 1, 3, 1, 2}, {2, 2, 2, 1, 2}, {2, 3, 2, 0, 1}, {2, 4, 1, 1, 1}, {3, 1, 2, 0, 1}, {3, 1, 1, 1, 2}, {3, 2, 1, 1, 1}, {3, 3, 1, 0, 1},
			{4, 1, 1, 0, 2}, {4, 2, 1, 0, 1}, {5, 1, 1, 0, 1}, {5, 4, 0, 1, 1}, {6, 1, 1, 0, 1}, {6, 4, 0, 0, 2}}
	}
	var cases []cs
	for _, c := range cfgs {
		ps := perms(c.n)
		if c.n >= 4 && (ctx.Quick() || c.n >= 5) {
			// start orders: identity, reverse and the rotations
			var sel [][]int
			for r := 0; r < c.n; r++ {
				o := make([]int, c.n)
				for i := range o {
					o[i] = (i + r) % c.n
				}
				sel = append(sel, o)
			}
			rev := make([]int, c.n)
			for i := range rev {
				rev[i] = c.n - 1 - i
			}
			ps = append(sel, rev)
		}
		for _, o := range ps {
			cases = append(cases, cs{N: c.n, C: c.c, Order: o, P: c.p, E: c.e, F: c.f})
		}
	}
	// baseline speeds: one party slow or fast relative to the others, identity start order
	type spd struct{ n, c, p, e, f int }
	speeds := []spd{{3, 4, 0, 1, 1}, {3, 2, 1, 0, 1}, {4, 4, 0, 0, 1}}
	if !ctx.Quick() {
		speeds = []spd{{3, 4, 1, 1, 1}, {3, 5, 0, 1, 2}, {3, 2, 1, 1, 2}, {4, 4, 0, 1, 2}, {4, 5, 0, 0, 1}, {5, 4, 0, 0, 1}}
	}
	for _, c := range speeds {
		id := make([]int, c.n)
		for i := range id {
			id[i] = i
		}
		for i := 0; i < c.n; i++ {
			cases = append(cases, cs{N: c.n, C: c.c, Order: id, P: c.p, E: c.e, F: c.f, Slow: []int{i}})
			cases = append(cases, cs{N: c.n, C: c.c, Order: id, P: c.p, E: c.e, F: c.f, Fast: []int{i}})
			for j := 0; j < c.n; j++ {
				if j != i {
					cases = append(cases, cs{N: c.n, C: c.c, Order: id, P: c.p, E: c.e, F: c.f, Slow: []int{i}, Fast: []int{j}})
				}
			}
		}
	}
	// slow starters: one party waits 1 s / 10 s / 1 h (virtual) between Join and Connect
	for _, n := range []int{2, 3} {
		for i := 0; i < n; i++ {
			for _, d := range []int{1, 10, 3600} {
				if ctx.Quick() && d == 1 {
					continue
				}
				cases = append(cases, cs{N: n, C: 1, Order: ident(n), P: 0, E: 0, F: 1, Delay: map[int]int{i: d}})
			}
		}
	}
	// start orders in which a party may call Join before the leader listens
	for _, o := range [][]int{{1, 0}, {0, 1}} {
		cases = append(cases, cs{N: 2, C: 1, Order: o, P: 1, E: 0, F: 2, LeaderLate: true})
	}
	cases = append(cases, cs{N: 3, C: 1, Order: []int{2, 1, 0}, P: 0, E: 0, F: 1, LeaderLate: true})
	ctx.Note(fmt.Sprintf("case list: %d systems (parties x connections x start order), each explored to its bound; every worker explores its share of each system's subtrees", len(cases)))
	for i, k := range cases {
		if ctx.Expired() {
			return
		}
		runCaseSharded(ctx, k, ctx.Shard, ctx.NShards)
		if i%5 == 0 && ctx.Shard == 0 {
			ctx.Sample(k)
		}
	}
}

func replay(ctx *runner.Ctx, raw json.RawMessage) {
	var k cs
	if err := json.Unmarshal(raw, &k); err != nil {
		panic(err)
	}
	mpcl.Quiet()
	runCaseSharded(ctx, k, 0, 1)
}

func main() {
	runner.Main(runner.Spec{
		ID:    "C19",
		Level: "model_checking",
		Rule: "stateless model checking of the real p2p.Network mesh setup: for each (number of parties, connections per pair, start order of the party threads) EVERY interleaving of party threads, accept goroutines and Conn writer goroutines with <= P preemptions and <= E deviations in which pending connection Accept returns; oracle at the moment each party's Connect returns (peer table complete: n parties, c distinct non-nil connections per pair) and then a token exchange (i,j,k) on every slot, no unaccepted connection, no deadlock. " +
			"states = distinct abstract scheduler states; transitions = scheduling steps; traces_validated_against_impl = complete executions of the implementation",
		Assumptions: []string{
			"p2p sources are rewritten at check time onto the scheduler; Dial completes at once against a listening address (TCP backlog) and is refused otherwise; the leader listens before any party starts",
			"code between two synchronisation operations runs atomically",
		},
		Work:           work,
		Replay:         replay,
		QuickBudget:    80 * time.Second,
		ThoroughBudget: 20 * time.Minute,
	})
}
