// C17 — a circuit value is safe to share between goroutines.
// The circuit package (sync.Pool scratch reuse, lazily created pool behind an
// atomic pointer) runs on the cooperative scheduler; every interleaving within
// the preemption bound and every legal sync.Pool answer within the deviation
// bound is executed. A separate free-running -race pass looks for data races.
package main

import (
	"encoding/json"
	"errors"
	"fmt"
	"io"
	"math/big"
	"os"
	"os/exec"
	"strings"
	"time"
	"unsafe"

	"github.com/markkurossi/mpc/circuit"
	"github.com/markkurossi/mpc/env"
	"github.com/markkurossi/mpc/ot"
	"github.com/markkurossi/mpc/p2p"
	"github.com/markkurossi/mpc/zverif/csched"
	"github.com/markkurossi/mpc/zverif/vnet"

	"verif/bitsim"
	"verif/circgen"
	"verif/drbg"
	"verif/idealot"
	"verif/runner"
)

type cs struct {
	Circ     int      `json:"circuit"`
	Programs []string `json:"programs"` // one per thread: G garble, g garble with failing randomness, E eval+check newest, R release newest, r release newest twice, d release the most recently released garbling once more (stale handle), D drop the newest garbling's handle without releasing it and keep using its wires and tables (finalizers may run), K refill the thread's key buffer in place, C compute+check, S a whole Garbler/Evaluator session on the shared circuit
	F        int      `json:"f,omitempty"`
	P        int      `json:"p"`
	E        int      `json:"e"`
	Prefix   []int    `json:"prefix,omitempty"`
	Race     bool     `json:"race,omitempty"`
	// U: unbounded exploration with sleep sets (every Mazurkiewicz trace, every pool answer) instead of P/E/F bounds
	U bool `json:"unbounded,omitempty"`
	// Split: a read of more than one label may return just the first 16 bytes (environment deviation)
	Split bool `json:"split,omitempty"`
	// Aff: session affinity in the default order (the threads of the running thread's session first), so
	// that one deviation switches to the other session and lets it run until it cannot continue
	Aff bool `json:"affinity,omitempty"`
}

func sessionOf(name string) string {
	i := 1
	for i < len(name) && name[i] >= '0' && name[i] <= '9' {
		i++
	}
	return name[:i]
}

func (k cs) opts() csched.Options {
	o := csched.Options{}
	if k.Aff {
		o.Affinity = func(running, cand string) bool { return sessionOf(running) == sessionOf(cand) }
	}
	return o
}

var circuits = []circgen.Desc{
	{In: []int{2}, Out: []int{1}, Gates: []circgen.G{{2, 0, 1}, {2, 2, 0}}},            // AND-only
	{In: []int{2}, Out: []int{2}, Gates: []circgen.G{{3, 0, 1}, {4, 2, 0}, {4, 3, 0}}}, // OR + INV
	{In: []int{2}, Out: []int{1}, Gates: []circgen.G{{0, 0, 1}, {1, 2, 0}}},            // free-XOR only, no tables
	{In: []int{1, 1}, Out: []int{1}, Gates: []circgen.G{{2, 0, 1}}},                    // two-party AND (sessions)
	{In: []int{1, 1}, Out: []int{2}, Gates: []circgen.G{{2, 0, 1}, {0, 0, 1}}},         // two-party AND, XOR (sessions)
}

// sessionCircuits are the indexes of the two-party circuits.
var sessionCircuits = []int{3, 4}

type failingReader struct {
	r     io.Reader
	calls int
}

func (f *failingReader) Read(p []byte) (int, error) {
	f.calls++
	if f.calls >= 2 {
		return 0, errors.New("injected randomness failure")
	}
	return f.r.Read(p)
}

type live struct {
	g     *circuit.Garbled
	key   []byte
	owner int
	// the caller's own copies of the garbling's slices (what it goes on using after it dropped the handle)
	wires []ot.Wire
	gates [][]ot.Label
}

func (l *live) w() []ot.Wire {
	if l.g == nil {
		return l.wires
	}
	return l.g.Wires
}

func (l *live) gt() [][]ot.Label {
	if l.g == nil {
		return l.gates
	}
	return l.g.Gates
}

type world struct {
	c     *circuit.Circuit
	lives []*live
	fails []string
	hobj  int
}

// hpoint: in sleep-set mode the registry of live garblings (w.lives) is a scheduler object of its own: a thread
// touches it only inside a transition labelled with that object (after Garble returned / before Release is
// called), so that operations on the registry are dependent on each other and on nothing else. In the bounded
// modes the harness yields after every step instead.
func (w *world) hpoint() {
	if csched.InSleepMode() {
		csched.SchedPoint("registry", w.hobj, nil)
	}
}

func (w *world) fail(format string, a ...interface{}) {
	w.fails = append(w.fails, fmt.Sprintf(format, a...))
}

// distinctScratch: no two live garblings may share their backing arrays.
func (w *world) distinctScratch() {
	seen := map[unsafe.Pointer]int{}
	for _, l := range w.lives {
		if len(l.w()) == 0 {
			continue
		}
		p := unsafe.Pointer(&l.w()[0])
		if o, ok := seen[p]; ok {
			w.fail("shared-scratch: two live garblings (threads %d and %d) share one scratch buffer", o, l.owner)
		}
		seen[p] = l.owner
	}
}

func (w *world) checkEval(l *live, tid int, what string) {
	c := w.c
	nin := c.Inputs.Size()
	in := make([]bool, nin)
	wires := make([]ot.Label, c.NumWires)
	for x := 0; x < 1<<nin; x++ {
		for i := range in {
			in[i] = x>>i&1 == 1
		}
		ref, _ := bitsim.Eval(c, in)
		if len(l.w()) != c.NumWires {
			w.fail("wrong-result: thread %d %s: live garbling lost its wires", tid, what)
			return
		}
		for i := range wires {
			wires[i] = ot.Label{}
		}
		for i := 0; i < nin; i++ {
			wires[i] = circuit.LabelForBit(l.w()[i], in[i])
		}
		if err := c.Eval(l.key, wires, l.gt()); err != nil {
			w.fail("wrong-result: thread %d %s: Eval error %v", tid, what, err)
			return
		}
		for wi := nin; wi < c.NumWires; wi++ {
			if !wires[wi].Equal(circuit.LabelForBit(l.w()[wi], ref[wi])) {
				w.fail("wrong-result: thread %d %s: input %b wire %d evaluates to a wrong label (not what the call returns when run alone)", tid, what, x, wi)
				return
			}
		}
	}
}

func (w *world) checkCompute(tid int) {
	c := w.c
	nin := c.Inputs.Size()
	for x := 0; x < 1<<nin; x++ {
		in := make([]bool, nin)
		for i := range in {
			in[i] = x>>i&1 == 1
		}
		ref, _ := bitsim.Eval(c, in)
		var args []*big.Int
		off := 0
		for _, a := range c.Inputs {
			n := int(a.Type.Bits)
			args = append(args, big.NewInt(int64(x>>off&(1<<n-1))))
			off += n
		}
		got, err := c.Compute(args)
		if err != nil {
			w.fail("wrong-result: thread %d Compute: %v", tid, err)
			return
		}
		want := bitsim.Outputs(c, ref)
		for i := range want {
			if got[i].Cmp(want[i]) != 0 {
				w.fail("wrong-result: thread %d Compute(%b) = %v want %v", tid, x, got, want)
				return
			}
		}
	}
}

// session runs circuit.Garbler (in the calling thread) against circuit.Evaluator
// (in a thread of its own) on the shared circuit, for every input pair in turn,
// over an in-memory link and the ideal OT; both must return the plain result.
func (w *world) session(tid int, x int) {
	c := w.c
	n0, n1 := int(c.Inputs[0].Type.Bits), int(c.Inputs[1].Type.Bits)
	gin := big.NewInt(int64(x & (1<<n0 - 1)))
	ein := big.NewInt(int64(x >> n0 & (1<<n1 - 1)))
	in := make([]bool, n0+n1)
	for i := range in {
		in[i] = x>>i&1 == 1
	}
	ref, _ := bitsim.Eval(c, in)
	want := bitsim.Outputs(c, ref)
	a, b := vnet.Pipe(fmt.Sprintf("G%d", tid), fmt.Sprintf("E%d", tid))
	done := csched.MakeChan[int](1)
	var eout []*big.Int
	var eerr error
	csched.GoNamed(fmt.Sprintf("T%de", tid), func() {
		conn := p2p.NewConn(b)
		eout, eerr = circuit.Evaluator(conn, idealot.New(), c, ein, false)
		conn.Close()
		done.Send(1)
	})
	conn := p2p.NewConn(a)
	cfg := &env.Config{Rand: drbg.New(uint64(7000 + 10*tid + x))}
	gout, gerr := circuit.Garbler(cfg, conn, idealot.New(), c, gin, false)
	conn.Close()
	done.Recv()
	if gerr != nil || eerr != nil {
		w.fail("wrong-result: thread %d session(%b): garbler error %v, evaluator error %v", tid, x, gerr, eerr)
		return
	}
	for i := range want {
		if i >= len(gout) || i >= len(eout) || gout[i].Cmp(want[i]) != 0 || eout[i].Cmp(want[i]) != 0 {
			w.fail("wrong-result: thread %d session(%b): garbler got %v, evaluator got %v, plain result %v", tid, x, gout, eout, want)
			return
		}
	}
}

func (w *world) thread(tid int, prog string) func() {
	return func() {
		var mine []*live
		var released []*circuit.Garbled
		key := make([]byte, 16)
		for i := range key {
			key[i] = byte(17*tid + i + 1)
		}
		seed := uint64(1000 * (tid + 1))
		for pos, op := range prog {
			switch op {
			case 'G':
				seed++
				g, err := w.c.Garble(drbg.New(seed), key)
				w.hpoint()
				if err != nil {
					w.fail("wrong-result: thread %d Garble: %v", tid, err)
					return
				}
				// the garbling is judged with the key value it was made with (the caller may refill its buffer)
				l := &live{g: g, key: append([]byte(nil), key...), owner: tid}
				mine = append(mine, l)
				w.lives = append(w.lives, l)
				if csched.InSleepMode() {
					w.distinctScratch()
				}
			case 'g':
				seed++
				if _, err := w.c.Garble(&failingReader{r: drbg.New(seed)}, key); err == nil {
					w.fail("wrong-result: thread %d Garble succeeded although its randomness failed", tid)
				}
			case 'E':
				if len(mine) > 0 {
					w.checkEval(mine[len(mine)-1], tid, fmt.Sprintf("step %d", pos))
				}
			case 'R', 'r':
				if len(mine) > 0 {
					l := mine[len(mine)-1]
					mine = mine[:len(mine)-1]
					w.hpoint()
					for i, x := range w.lives {
						if x == l {
							w.lives = append(w.lives[:i], w.lives[i+1:]...)
							break
						}
					}
					if l.g != nil {
						l.g.Release()
						if op == 'r' {
							l.g.Release()
						}
						released = append(released, l.g)
					}
				}
			case 'D':
				// the caller drops the handle of its newest garbling without releasing it and goes on using the
				// wires and tables it holds (a garbling stays valid until it is released); a finalizer attached
				// to the handle, if any, may run from now on at any time
				if len(mine) > 0 {
					l := mine[len(mine)-1]
					if l.g != nil {
						l.wires, l.gates = l.g.Wires, l.g.Gates
						g := l.g
						l.g = nil
						csched.Drop(g)
					}
				}
			case 'd':
				// a late second Release through a stale handle: others may have garbled in between
				if len(released) > 0 {
					released[len(released)-1].Release()
				}
			case 'K':
				// the caller refills its key buffer in place: later garblings use a new key in the same array
				for i := range key {
					key[i] ^= 0x5a
				}
			case 'C':
				w.checkCompute(tid)
			case 'S':
				w.session(tid, 3-tid%2)
			case 's':
				w.session(tid, 1+tid%2)
			}
			if !csched.InSleepMode() {
				w.distinctScratch()
				csched.Yield()
			}
		}
		// a garbling stays valid until it is released: check what is still live at the end
		for _, l := range mine {
			w.checkEval(l, tid, "end")
		}
	}
}

func system(k cs, w *world) func() {
	return func() {
		w.c = circuits[k.Circ].Build()
		vnet.Reset()
		vnet.ReadAlts = nil
		if k.Split {
			vnet.ReadAlts = func(nread int64, n, max int) []int {
				if n > 16 {
					return []int{n, 16}
				}
				return nil
			}
		}
		w.hobj = csched.NewObj(nil)
		for i, p := range k.Programs {
			csched.GoNamed(fmt.Sprintf("T%d", i), w.thread(i, p))
		}
	}
}

func judge(w *world, r *csched.Result) (string, string) {
	switch r.Outcome {
	case "ok":
	case "stuck":
		return "HARNESS", r.Detail
	default:
		return r.Outcome, r.Detail
	}
	if len(w.fails) > 0 {
		kind := strings.SplitN(w.fails[0], ":", 2)[0]
		return kind, w.fails[0]
	}
	return "", ""
}

func runCaseSharded(ctx *runner.Ctx, k cs, shard, nshards int) {
	if k.Race {
		runRace(ctx, k)
		return
	}
	report := func(kk cs, kind, what string, r *csched.Result) {
		ctx.Violate(kind, fmt.Sprintf("%s :: circuit %s programs %v schedule=%v", what, circuits[k.Circ].String(), k.Programs, r.Choices), kk)
	}
	if k.Prefix != nil {
		w := &world{}
		r := csched.Run(k.Prefix, k.opts(), system(k, w))
		ctx.Eval(1)
		if kind, what := judge(w, r); kind != "" {
			report(k, kind, what, r)
		}
		return
	}
	x := &csched.Explorer{PBound: k.P, EBound: k.E, FBound: k.F, Shard: shard, NShards: nshards, Opts: k.opts(), Stop: ctx.Expired}
	x.Opts.HashStates = true
	var w *world
	explore := x.Explore
	if k.U {
		explore = func(system func(), visit func(r *csched.Result, p, e int) bool) {
			x.ExploreUnbounded(system, func(r *csched.Result) bool { return visit(r, -1, -1) })
		}
	}
	explore(func() {
		w = &world{}
		system(k, w)()
	}, func(r *csched.Result, p, e int) bool {
		ctx.Eval(1)
		for _, h := range r.States {
			ctx.State(h)
		}
		kind, what := judge(w, r)
		if kind == "HARNESS" {
			panic("harness: " + what)
		}
		if kind != "" {
			kk := k
			kk.Prefix = append([]int{}, r.Choices...)
			report(kk, kind, fmt.Sprintf("%s [preemptions=%d pool-answer deviations=%d]", what, p, e), r)
			return false
		}
		if k.U {
			ctx.Outcome(fmt.Sprintf("ok/unbounded/threads=%d", len(k.Programs)))
		} else {
			ctx.Outcome(fmt.Sprintf("ok/threads=%d", len(k.Programs)))
		}
		return true
	})
	if ctx.Replay {
		fmt.Fprintf(os.Stderr, "explored: executions=%d sleep-blocked=%d transitions=%d truncated=%v\n", x.Executions, x.SleepBlocked, x.Transitions, x.Truncated)
	}
	if k.U {
		if shard == 0 {
			ctx.Count("unbounded_systems", 1)
		}
		ctx.Count("unbounded_executions", x.Executions)
		ctx.Count("unbounded_sleep_blocked", x.SleepBlocked)
		if x.Truncated {
			ctx.Count("unbounded_systems_cut", 1)
		}
	}
	ctx.Count("executions", x.Executions)
	ctx.Count("transitions", x.Transitions)
	ctx.Max("max_choice_points_per_execution", int64(x.MaxPoints))
	if x.Truncated {
		ctx.Incomplete("exploration of a system was cut (deadline or queue cap)")
	} else if shard == 0 {
		ctx.NontrivialN(1)
	}
}

// runRace runs the same thread bodies free on unmodified code under the race detector.
func runRace(ctx *runner.Ctx, k cs) {
	count := "60"
	if !ctx.Quick() {
		count = "600"
	}
	args := []string{"test", "-race", "-vet=off", "-count=" + count}
	args = append(args, runner.RaceDeadlineArg(ctx))
	if runner.RepoDir != "/repo" {
		// scratch run against another checkout: the module file ./check generated for it
		args = append(args, "-modfile="+os.Getenv("VERIF_WORK")+"/go.mod")
	}
	cmd := exec.Command("go", append(args, "./racepass/")...)
	cmd.Dir = "/verif/harness"
	cmd.Env = append(os.Environ(), "GOFLAGS=-mod=mod", "GOPROXY=off")
	out, err := cmd.CombinedOutput()
	ctx.Eval(1)
	s := string(out)
	switch {
	case strings.Contains(s, "WARNING: DATA RACE"):
		i := strings.Index(s, "WARNING: DATA RACE")
		end := i + 1500
		if end > len(s) {
			end = len(s)
		}
		ctx.Violate("data-race", "race detector report in the free-running pass:\n"+s[i:end], k)
	case err != nil && runner.RaceDeadlineHit(ctx, "shared-circuit bodies", s):
	case err != nil && strings.Contains(s, "--- FAIL"):
		ctx.Violate("wrong-result.free-running", "free-running pass failed:\n"+tail(s, 1500), k)
	case err != nil:
		panic("race pass could not run: " + tail(s, 1500))
	default:
		ctx.Outcome("race-pass-clean/count=" + count)
		ctx.NontrivialN(1)
	}
}

func tail(s string, n int) string {
	if len(s) > n {
		return s[len(s)-n:]
	}
	return s
}

func work(ctx *runner.Ctx) {
	if err := csched.SelfTest(); err != nil {
		panic(err)
	}
	progs2 := []string{"GER", "GRGE", "GErr", "C", "gGER", "GGERR", "GREG", "GRdGE", "GRKGE", "GDGE"}
	progs3 := []string{"GER", "GRGE", "C", "gGE", "GRd", "GERKGE", "GDG"}
	if ctx.Quick() {
		progs3 = []string{"GER", "GRGE", "C", "gGE", "GDG"}
	}
	var cases []cs
	// whole protocol sessions sharing the circuit with each other and with direct users
	for _, ci := range sessionCircuits {
		for _, ps := range [][]string{{"S", "S"}, {"S", "GER"}, {"Ss", "S"}, {"S", "s", "C"}, {"S", "S", "GRGE"}} {
			p, e, f := 2, 1, 2
			if ctx.Quick() {
				p, f = 1, 1
			}
			if ctx.Quick() && len(ps) > 2 && ci != sessionCircuits[0] {
				continue
			}
			cases = append(cases, cs{Circ: ci, Programs: ps, P: p, E: e, F: f})
			if ps[0] == "S" && (ps[1] == "S" || !ctx.Quick()) {
				// the sessions as blocks: one deviation moves to the other session for as long as it can run,
				// and a read may stop at a label boundary
				cases = append(cases, cs{Circ: ci, Programs: ps, P: p, E: e, F: f, Split: true, Aff: true})
			}
		}
	}
	for ci := range circuits[:3] {
		for _, a := range progs2 {
			for _, b := range progs2 {
				p, e := 4, 3
				if ctx.Quick() {
					p, e = 3, 2
				}
				cases = append(cases, cs{Circ: ci, Programs: []string{a, b}, P: p, E: e})
			}
		}
		for _, a := range progs3 {
			for _, b := range progs3 {
				for _, c := range progs3 {
					p, e := 3, 2
					if ctx.Quick() {
						p, e = 2, 1
					}
					cases = append(cases, cs{Circ: ci, Programs: []string{a, b, c}, P: p, E: e})
				}
			}
		}
	}
	// unbounded exploration (sleep sets): every interleaving up to Mazurkiewicz equivalence and every pool answer
	var ucases, uheavy []cs
	uprogs := []string{"GER", "GRGE", "GErr", "C", "GDGE"}
	ucircs := []int{0, 1}
	if !ctx.Quick() {
		uprogs = progs2
		ucircs = []int{0, 1, 2}
	}
	for _, ci := range ucircs {
		for _, a := range uprogs {
			for _, b := range uprogs {
				// pairs with four or more garblings have 10^6 executions and more: every worker takes a share of
				// such a system (thorough only); the lighter ones are dealt whole, one per worker
				if strings.Count(a+b, "G")+strings.Count(a+b, "g") >= 4 {
					if !ctx.Quick() && ci == 0 {
						uheavy = append(uheavy, cs{Circ: ci, Programs: []string{a, b}, U: true})
					}
					continue
				}
				ucases = append(ucases, cs{Circ: ci, Programs: []string{a, b}, U: true})
			}
		}
	}
	// three threads: each system is split over all workers
	u3 := [][]string{{"GER", "GER", "C"}}
	if !ctx.Quick() {
		u3 = [][]string{{"GER", "GER", "C"}, {"GER", "GER", "GER"}, {"GER", "GRGE", "C"}, {"gGE", "GER", "GRd"}, {"GRGE", "GER", "GER"}}
	}
	for _, ps := range u3 {
		uheavy = append(uheavy, cs{Circ: 0, Programs: ps, U: true})
	}
	ctx.Note(fmt.Sprintf("case list: %d systems explored within bounds + %d systems explored without bounds (sleep sets), plus the free-running -race pass", len(cases), len(ucases)+len(uheavy)))
	if ctx.Shard == 0 {
		if err := csched.SleepSelfTest(); err != nil {
			panic(err)
		}
		runRace(ctx, cs{Race: true})
	}
	for i, k := range ucases {
		if !ctx.Mine(i) {
			continue
		}
		if ctx.Expired() {
			return
		}
		runCaseSharded(ctx, k, 0, 1)
		if i%60 == 0 {
			ctx.Sample(k)
		}
	}
	for _, k := range uheavy {
		if ctx.Expired() {
			return
		}
		runCaseSharded(ctx, k, ctx.Shard, ctx.NShards)
	}
	for i, k := range cases {
		if !ctx.Mine(i) {
			continue
		}
		if ctx.Expired() {
			return
		}
		runCaseSharded(ctx, k, 0, 1)
		if i%40 == 0 {
			ctx.Sample(k)
		}
	}
}

func replay(ctx *runner.Ctx, raw json.RawMessage) {
	var k cs
	if err := json.Unmarshal(raw, &k); err != nil {
		panic(err)
	}
	runCaseSharded(ctx, k, 0, 1)
}

func main() {
	runner.Main(runner.Spec{
		ID:    "C17",
		Level: "model_checking",
		Rule: "stateless model checking of the real circuit package (scratch sync.Pool behind a lazily set atomic pointer) under a controlled scheduler: T=2 threads x all pairs of 7 programs over {Garble, Garble with failing randomness, Eval+check, Release, double Release, Compute+check} and T=3 threads x all triples of 4 programs, on 3 circuits; EVERY interleaving with <= P preemptions and <= E deviations of what sync.Pool.Get returns (any pooled item or a fresh one); oracle: each Eval decodes on every input to the truth table using that garbling's wires, garblings still live at the end are still valid, no two live garblings share a scratch, no panic/deadlock. UNBOUNDED part: the two-thread systems over 6 (thorough 10) programs on 2 (3) circuits and 1 (5) three-thread systems are explored without preemption or deviation bounds with sleep sets (at least one interleaving of every Mazurkiewicz trace x every pool answer; counters unbounded_*); operation D drops a handle without releasing it and keeps using its slices (finalizers, if the code registers any, become scheduler threads). Plus a separate free-running `go test -race` pass of the same bodies on unmodified code. " +
			"states = distinct abstract scheduler states; transitions = scheduling steps; traces_validated_against_impl = complete executions",
		Assumptions: []string{
			"circuit is rewritten at check time: sync.Pool and atomic.Pointer become scheduler operations; the harness yields between a thread's steps; code between two synchronisation operations runs atomically",
			"the -race pass samples schedules (it cannot be exhaustive); atomicity and ordering are what the exhaustive part decides",
		},
		Work:           work,
		Replay:         replay,
		QuickBudget:    80 * time.Second,
		ThoroughBudget: 20 * time.Minute,
	})
}
