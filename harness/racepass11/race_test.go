// Package racepass11 runs p2p.Conn free, on unmodified code, for the race detector: both directions of a link at
// once (each side a sending and a receiving goroutine on one Conn, as in the duplex systems of the C11 driver), over
// the synchronous in-memory pipe and over loopback TCP, with payloads that cycle all write buffers. Memory accesses
// between two synchronisation operations are invisible to the cooperative scheduler; this pass is sampled (the
// Go scheduler picks the interleavings) and declared as such in the evidence.
package racepass11

import (
	"bytes"
	"fmt"
	"io"
	"net"
	"sync"
	"testing"

	"github.com/markkurossi/mpc/ot"
	"github.com/markkurossi/mpc/p2p"
)

type item struct {
	kind int // 0 byte 1 u16 2 u32 3 data 4 string 5 label 6 sizes
	n    int
	fl   bool
}

func script(seed, count int, big bool) []item {
	x := uint32(seed*2654435761 + 12345)
	next := func(m int) int {
		x ^= x << 13
		x ^= x >> 17
		x ^= x << 5
		return int(x % uint32(m))
	}
	sizes := []int{0, 1, 15, 16, 17, 255, 4096, 65535, 65536, 65537, 70000}
	if big {
		sizes = append(sizes, 1<<20-1, 1<<20, 1<<20+1, 3<<20)
	}
	var s []item
	for i := 0; i < count; i++ {
		it := item{kind: next(7), fl: next(3) == 0}
		switch it.kind {
		case 3, 4:
			it.n = sizes[next(len(sizes))]
		case 6:
			it.n = next(5)
		default:
			it.n = next(1 << 16)
		}
		s = append(s, it)
	}
	return s
}

func pattern(n, salt int) []byte {
	b := make([]byte, n)
	for i := range b {
		b[i] = byte(i*31 + salt)
	}
	return b
}

func send(c *p2p.Conn, s []item, salt int) error {
	for i, it := range s {
		var err error
		switch it.kind {
		case 0:
			err = c.SendByte(byte(it.n))
		case 1:
			err = c.SendUint16(it.n)
		case 2:
			err = c.SendUint32(it.n * 65537 & 0x7fffffff)
		case 3:
			err = c.SendData(pattern(it.n, salt+i))
		case 4:
			err = c.SendString(string(pattern(it.n, salt+i)))
		case 5:
			var ld ot.LabelData
			err = c.SendLabel(ot.Label{D0: uint64(it.n)*0x9e3779b97f4a7c15 + uint64(salt), D1: uint64(i)}, &ld)
		case 6:
			sz := make([]int, it.n)
			for j := range sz {
				sz[j] = j*1000 + i
			}
			err = c.SendInputSizes(sz)
		}
		if err != nil {
			return fmt.Errorf("send %d: %v", i, err)
		}
		if it.fl {
			if err := c.Flush(); err != nil {
				return fmt.Errorf("flush %d: %v", i, err)
			}
		}
	}
	return c.Flush()
}

func recv(c *p2p.Conn, s []item, salt int) error {
	for i, it := range s {
		switch it.kind {
		case 0:
			v, err := c.ReceiveByte()
			if err != nil || v != byte(it.n) {
				return fmt.Errorf("item %d byte: %v %v want %v", i, v, err, byte(it.n))
			}
		case 1:
			v, err := c.ReceiveUint16()
			if err != nil || v != it.n&0xffff {
				return fmt.Errorf("item %d u16: %v %v", i, v, err)
			}
		case 2:
			v, err := c.ReceiveUint32()
			if err != nil || v != it.n*65537&0x7fffffff {
				return fmt.Errorf("item %d u32: %v %v", i, v, err)
			}
		case 3:
			v, err := c.ReceiveData()
			if err != nil || !bytes.Equal(v, pattern(it.n, salt+i)) {
				return fmt.Errorf("item %d data(%d): len %d err %v", i, it.n, len(v), err)
			}
		case 4:
			v, err := c.ReceiveString()
			if err != nil || v != string(pattern(it.n, salt+i)) {
				return fmt.Errorf("item %d string(%d): len %d err %v", i, it.n, len(v), err)
			}
		case 5:
			var l ot.Label
			var ld ot.LabelData
			err := c.ReceiveLabel(&l, &ld)
			want := ot.Label{D0: uint64(it.n)*0x9e3779b97f4a7c15 + uint64(salt), D1: uint64(i)}
			if err != nil || !l.Equal(want) {
				return fmt.Errorf("item %d label: %v %v", i, l, err)
			}
		case 6:
			v, err := c.ReceiveInputSizes()
			if err != nil || len(v) != it.n {
				return fmt.Errorf("item %d sizes: %v %v", i, v, err)
			}
			for j := range v {
				if v[j] != j*1000+i {
					return fmt.Errorf("item %d sizes: %v", i, v)
				}
			}
		}
	}
	return nil
}

func duplex(t *testing.T, a, b *p2p.Conn, seed int, big bool) {
	sa, sb := script(seed, 60, big), script(seed+1000, 60, big)
	var wg sync.WaitGroup
	errs := make([]error, 4)
	wg.Add(4)
	go func() { defer wg.Done(); errs[0] = send(a, sa, 1) }()
	go func() { defer wg.Done(); errs[1] = recv(b, sa, 1) }()
	go func() { defer wg.Done(); errs[2] = send(b, sb, 2) }()
	go func() { defer wg.Done(); errs[3] = recv(a, sb, 2) }()
	wg.Wait()
	for i, e := range errs {
		if e != nil {
			t.Errorf("seed %d role %d: %v", seed, i, e)
		}
	}
	var sent [2]uint64
	sent[0], sent[1] = a.Stats.Sent.Load(), b.Stats.Sent.Load()
	if a.Stats.Recvd.Load() != sent[1] || b.Stats.Recvd.Load() != sent[0] {
		t.Errorf("seed %d: counters: a sent %d recvd %d, b sent %d recvd %d", seed, sent[0], a.Stats.Recvd.Load(), sent[1], b.Stats.Recvd.Load())
	}
	done := make(chan error, 2)
	go func() { done <- a.Close() }()
	go func() { done <- b.Close() }()
	<-done
	<-done
}

func TestDuplexPipe(t *testing.T) {
	n := 6
	if testing.Short() {
		n = 2
	}
	for seed := 0; seed < n; seed++ {
		a, b := p2p.Pipe()
		duplex(t, a, b, seed, seed%3 == 0)
	}
}

type oneByte struct{ io.ReadWriter }

func (o oneByte) Read(p []byte) (int, error) {
	if len(p) > 7 {
		p = p[:7]
	}
	return o.ReadWriter.Read(p)
}

func (o oneByte) Close() error {
	if c, ok := o.ReadWriter.(io.Closer); ok {
		return c.Close()
	}
	return nil
}

func TestDuplexTCP(t *testing.T) {
	l, err := net.Listen("tcp", "127.0.0.1:0")
	if err != nil {
		t.Skipf("no loopback TCP: %v", err)
	}
	defer l.Close()
	n := 4
	if testing.Short() {
		n = 2
	}
	for seed := 0; seed < n; seed++ {
		ch := make(chan net.Conn, 1)
		go func() {
			c, err := l.Accept()
			if err != nil {
				ch <- nil
				return
			}
			ch <- c
		}()
		ca, err := net.Dial("tcp", l.Addr().String())
		if err != nil {
			t.Skipf("no loopback TCP: %v", err)
		}
		cb := <-ch
		if cb == nil {
			t.Skip("no loopback TCP: accept failed")
		}
		var ra io.ReadWriter = ca
		if seed%2 == 1 {
			ra = oneByte{ca} // short reads on one side
		}
		duplex(t, p2p.NewConn(ra), p2p.NewConn(cb), 100+seed, seed == 0)
	}
}
