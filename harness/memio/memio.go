// Package memio is an in-memory, typed, message-oriented implementation of
// ot.IO with exact deadlock detection (no wall-clock oracle), transcript
// recording and a mutation hook. It is used where the OT layer is the
// subject (the byte-stream layer is C11's subject).
package memio

import (
	"errors"
	"fmt"
	"io"
	"sync"

	"github.com/markkurossi/mpc/ot"
)

// ErrDeadlock is returned when both ends wait for each other.
var ErrDeadlock = errors.New("memio: deadlock (both parties waiting)")

// Msg is a recorded message.
type Msg struct {
	Kind byte // 'b' byte, 'u' uint32, 'd' data, 'l' label
	Data []byte
}

type shared struct {
	mu   sync.Mutex
	cond *sync.Cond
	dead bool
}

// End is one end of a duplex message link.
type End struct {
	sh      *shared
	peer    *End
	q       []Msg
	waiting bool
	closed  bool
	// Sent records every message handed to Send* (before mutation).
	Sent []Msg
	// Mutate, if set, may alter the idx-th message sent from this end.
	Mutate func(idx int, m *Msg)
	// BytesSent counts payload bytes.
	BytesSent int
}

var _ ot.IO = &End{}

// NewPair creates a connected pair.
func NewPair() (*End, *End) {
	sh := &shared{}
	sh.cond = sync.NewCond(&sh.mu)
	a := &End{sh: sh}
	b := &End{sh: sh}
	a.peer, b.peer = b, a
	return a, b
}

func (e *End) send(kind byte, data []byte) error {
	m := Msg{Kind: kind, Data: append([]byte(nil), data...)}
	e.sh.mu.Lock()
	defer e.sh.mu.Unlock()
	if e.closed {
		return io.ErrClosedPipe
	}
	idx := len(e.Sent)
	e.Sent = append(e.Sent, Msg{Kind: kind, Data: append([]byte(nil), data...)})
	e.BytesSent += len(data)
	if e.Mutate != nil {
		e.Mutate(idx, &m)
	}
	e.peer.q = append(e.peer.q, m)
	e.sh.cond.Broadcast()
	return nil
}

func (e *End) recv(kind byte) ([]byte, error) {
	e.sh.mu.Lock()
	defer e.sh.mu.Unlock()
	for len(e.q) == 0 {
		if e.sh.dead {
			return nil, ErrDeadlock
		}
		if e.peer.closed {
			return nil, io.EOF
		}
		if e.peer.waiting && len(e.peer.q) == 0 {
			e.sh.dead = true
			e.sh.cond.Broadcast()
			return nil, ErrDeadlock
		}
		e.waiting = true
		e.sh.cond.Wait()
		e.waiting = false
	}
	m := e.q[0]
	e.q = e.q[1:]
	if m.Kind != kind {
		return nil, fmt.Errorf("memio: expected message kind %c, got %c (len %d)", kind, m.Kind, len(m.Data))
	}
	return m.Data, nil
}

// Close closes this end; the peer sees EOF after draining.
func (e *End) Close() error {
	e.sh.mu.Lock()
	e.closed = true
	e.sh.cond.Broadcast()
	e.sh.mu.Unlock()
	return nil
}

// SendByte implements ot.IO.
func (e *End) SendByte(val byte) error { return e.send('b', []byte{val}) }

// SendUint32 implements ot.IO.
func (e *End) SendUint32(val int) error {
	return e.send('u', []byte{byte(val >> 24), byte(val >> 16), byte(val >> 8), byte(val)})
}

// SendData implements ot.IO.
func (e *End) SendData(val []byte) error { return e.send('d', val) }

// SendLabel implements ot.IO.
func (e *End) SendLabel(val ot.Label, data *ot.LabelData) error {
	return e.send('l', val.Bytes(data))
}

// Flush implements ot.IO.
func (e *End) Flush() error { return nil }

// ReceiveByte implements ot.IO.
func (e *End) ReceiveByte() (byte, error) {
	d, err := e.recv('b')
	if err != nil {
		return 0, err
	}
	if len(d) != 1 {
		return 0, fmt.Errorf("memio: short byte")
	}
	return d[0], nil
}

// ReceiveUint32 implements ot.IO.
func (e *End) ReceiveUint32() (int, error) {
	d, err := e.recv('u')
	if err != nil {
		return 0, err
	}
	if len(d) != 4 {
		return 0, fmt.Errorf("memio: short uint32")
	}
	return int(uint32(d[0])<<24 | uint32(d[1])<<16 | uint32(d[2])<<8 | uint32(d[3])), nil
}

// ReceiveData implements ot.IO.
func (e *End) ReceiveData() ([]byte, error) { return e.recv('d') }

// ReceiveLabel implements ot.IO.
func (e *End) ReceiveLabel(val *ot.Label, data *ot.LabelData) error {
	d, err := e.recv('l')
	if err != nil {
		return err
	}
	if len(d) != 16 {
		return fmt.Errorf("memio: short label")
	}
	copy(data[:], d)
	val.SetData(data)
	return nil
}

// Run2 runs the two parties on their own goroutines; each end is closed
// when its party returns. Panics are turned into errors.
func Run2(a, b *End, fa, fb func(*End) error) (errA, errB error) {
	var wg sync.WaitGroup
	wg.Add(2)
	run := func(e *End, f func(*End) error, out *error) {
		defer wg.Done()
		defer e.Close()
		defer func() {
			if r := recover(); r != nil {
				*out = fmt.Errorf("panic: %v", r)
			}
		}()
		*out = f(e)
	}
	go run(a, fa, &errA)
	go run(b, fb, &errB)
	wg.Wait()
	return
}

// Inject appends already-recorded messages to this end's receive queue.
func (e *End) Inject(msgs []Msg) {
	e.sh.mu.Lock()
	for _, m := range msgs {
		e.q = append(e.q, Msg{Kind: m.Kind, Data: m.Data})
	}
	e.sh.cond.Broadcast()
	e.sh.mu.Unlock()
}
