// Package valpha provides the boundary-value alphabets enumerated by the
// data-domain checks.
package valpha

import (
	"math/big"
	"sort"
)

// Unsigned returns the boundary alphabet of w-bit unsigned values, each
// reduced mod 2^w, sorted and de-duplicated.
func Unsigned(w int) []*big.Int {
	one := big.NewInt(1)
	mod := new(big.Int).Lsh(one, uint(w))
	set := map[string]*big.Int{}
	add := func(v *big.Int) {
		v = new(big.Int).Mod(v, mod)
		set[v.String()] = v
	}
	add(big.NewInt(0))
	add(big.NewInt(1))
	add(big.NewInt(2))
	add(big.NewInt(3))
	add(big.NewInt(-1))
	add(big.NewInt(-2))
	for _, k := range []int{w / 2, w - 2, w - 1, 7, 8, 31, 32, 63, 64} {
		if k < 0 || k >= w {
			continue
		}
		p := new(big.Int).Lsh(one, uint(k))
		add(p)
		add(new(big.Int).Add(p, one))
		add(new(big.Int).Sub(p, one))
		add(new(big.Int).Neg(p))
	}
	// 0x55.. and 0xAA..
	a := new(big.Int)
	for i := 0; i < w; i += 2 {
		a.SetBit(a, i, 1)
	}
	add(a)
	add(new(big.Int).Lsh(a, 1))
	var res []*big.Int
	for _, v := range set {
		res = append(res, v)
	}
	sort.Slice(res, func(i, j int) bool { return res[i].Cmp(res[j]) < 0 })
	return res
}

// Walk returns Unsigned(w) plus every single-bit value.
func Walk(w int) []*big.Int {
	res := Unsigned(w)
	seen := map[string]bool{}
	for _, v := range res {
		seen[v.String()] = true
	}
	for i := 0; i < w; i++ {
		v := new(big.Int).Lsh(big.NewInt(1), uint(i))
		if !seen[v.String()] {
			res = append(res, v)
		}
	}
	return res
}

// ToSigned interprets a w-bit pattern as two's complement.
func ToSigned(v *big.Int, w int) *big.Int {
	if v.Bit(w-1) == 1 {
		return new(big.Int).Sub(v, new(big.Int).Lsh(big.NewInt(1), uint(w)))
	}
	return new(big.Int).Set(v)
}

// Wrap reduces v modulo 2^w to the unsigned pattern.
func Wrap(v *big.Int, w int) *big.Int {
	return new(big.Int).Mod(v, new(big.Int).Lsh(big.NewInt(1), uint(w)))
}

// Class names the boundary class of a w-bit pattern (for violation keys).
func Class(v *big.Int, w int, signed bool) string {
	max := new(big.Int).Sub(new(big.Int).Lsh(big.NewInt(1), uint(w)), big.NewInt(1))
	switch {
	case v.Sign() == 0:
		return "zero"
	case v.Cmp(big.NewInt(1)) == 0 && w > 1:
		return "one"
	case v.Cmp(max) == 0:
		if signed {
			return "minus-one"
		}
		return "max"
	}
	top := v.Bit(w-1) == 1
	if signed {
		if top && v.BitLen() == w && new(big.Int).And(v, new(big.Int).Rsh(max, 1)).Sign() == 0 {
			return "min"
		}
		if top {
			return "negative"
		}
		if v.Cmp(new(big.Int).Rsh(max, 1)) == 0 {
			return "max"
		}
		return "positive"
	}
	if top {
		return "top-bit-set"
	}
	return "small"
}

// Widths is the width alphabet W of the design (switch widths).
var Widths = []int{1, 2, 3, 7, 8, 9, 16, 31, 32, 33, 63, 64, 65, 127, 128, 129, 130}
