// Package idealot is the ideal OT functionality as an ot.OT: the sender
// hands both labels over the (in-memory) link and the receiver keeps the
// chosen one. It is used where OT is not the subject, and it observes both
// labels of every transferred wire (C04).
package idealot

import (
	"github.com/markkurossi/mpc/ot"
)

// OT implements ot.OT.
type OT struct {
	io ot.IO
	// Seen collects every wire passed to Send.
	Seen []ot.Wire
	// Flags collects every choice passed to Receive.
	Flags []bool
}

var _ ot.OT = &OT{}

// New creates an ideal OT.
func New() *OT { return &OT{} }

// InitSender implements ot.OT.
// InitSender implements ot.OT. Like every real OT of the library it flushes
// the connection (the garbler relies on that to push the circuit out).
func (o *OT) InitSender(io ot.IO) error { o.io = io; return io.Flush() }

// InitReceiver implements ot.OT.
func (o *OT) InitReceiver(io ot.IO) error { o.io = io; return nil }

// Send implements ot.OT.
func (o *OT) Send(wires []ot.Wire) error {
	var ld ot.LabelData
	for _, w := range wires {
		o.Seen = append(o.Seen, w)
		if err := o.io.SendLabel(w.L0, &ld); err != nil {
			return err
		}
		if err := o.io.SendLabel(w.L1, &ld); err != nil {
			return err
		}
	}
	return o.io.Flush()
}

// Receive implements ot.OT.
func (o *OT) Receive(flags []bool, result []ot.Label) error {
	var ld ot.LabelData
	for i, f := range flags {
		o.Flags = append(o.Flags, f)
		var l0, l1 ot.Label
		if err := o.io.ReceiveLabel(&l0, &ld); err != nil {
			return err
		}
		if err := o.io.ReceiveLabel(&l1, &ld); err != nil {
			return err
		}
		if f {
			result[i] = l1
		} else {
			result[i] = l0
		}
	}
	return nil
}
