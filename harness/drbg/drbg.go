// Package drbg is the deterministic randomness source handed to the code
// under test (AES-128-CTR keyed by a seed).
package drbg

import (
	"crypto/aes"
	"crypto/cipher"
	"encoding/binary"
)

// Reader is a deterministic io.Reader.
type Reader struct {
	s cipher.Stream
	// Hook, if set, may patch each produced chunk (n-th Read call, buffer).
	Hook func(call int, p []byte)
	call int
	N    int64
}

// New creates a reader for a seed.
func New(seed uint64) *Reader {
	var key [16]byte
	binary.LittleEndian.PutUint64(key[:], seed)
	copy(key[8:], "verifdrb")
	blk, err := aes.NewCipher(key[:])
	if err != nil {
		panic(err)
	}
	var iv [16]byte
	return &Reader{s: cipher.NewCTR(blk, iv[:])}
}

func (r *Reader) Read(p []byte) (int, error) {
	for i := range p {
		p[i] = 0
	}
	r.s.XORKeyStream(p, p)
	if r.Hook != nil {
		r.Hook(r.call, p)
	}
	r.call++
	r.N += int64(len(p))
	return len(p), nil
}

// Uint64 returns the next 64 bits.
func (r *Reader) Uint64() uint64 {
	var b [8]byte
	r.Read(b[:])
	return binary.LittleEndian.Uint64(b[:])
}

// Intn returns a value in [0,n).
func (r *Reader) Intn(n int) int {
	return int(r.Uint64() % uint64(n))
}
