// Package drbg is the deterministic randomness source handed to the code
// under test (AES-128-CTR keyed by a seed).
package drbg

import (
	"crypto/aes"
	"crypto/cipher"
	"encoding/binary"
)

// Reader is a deterministic io.Reader.
type Reader struct {
	s cipher.Stream
	// Hook, if set, may patch each produced chunk (n-th Read call, buffer).
	Hook func(call int, p []byte)
	call int
	N    int64
	// MaxChunk > 0: a Read returns at most MaxChunk bytes (a short read without error, which the io.Reader
	// contract allows: e.g. a bufio.Reader over the system's randomness source does it)
	MaxChunk int
}

// NewChunked creates a reader for a seed that returns at most max bytes per Read (max <= 0: no limit).
func NewChunked(seed uint64, max int) *Reader {
	r := New(seed)
	r.MaxChunk = max
	return r
}

// New creates a reader for a seed.
func New(seed uint64) *Reader {
	var key [16]byte
	binary.LittleEndian.PutUint64(key[:], seed)
	copy(key[8:], "verifdrb")
	blk, err := aes.NewCipher(key[:])
	if err != nil {
		panic(err)
	}
	var iv [16]byte
	return &Reader{s: cipher.NewCTR(blk, iv[:])}
}

func (r *Reader) Read(p []byte) (int, error) {
	if r.MaxChunk > 0 && len(p) > r.MaxChunk {
		p = p[:r.MaxChunk]
	}
	for i := range p {
		p[i] = 0
	}
	r.s.XORKeyStream(p, p)
	if r.Hook != nil {
		r.Hook(r.call, p)
	}
	r.call++
	r.N += int64(len(p))
	return len(p), nil
}

// Uint64 returns the next 64 bits.
func (r *Reader) Uint64() uint64 {
	var b [8]byte
	r.Read(b[:])
	return binary.LittleEndian.Uint64(b[:])
}

// Intn returns a value in [0,n).
func (r *Reader) Intn(n int) int {
	return int(r.Uint64() % uint64(n))
}
