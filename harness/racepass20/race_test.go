// Package racepass20 runs several independent VOLE sessions (own pipe, own Sender/Receiver, own base OT) at the same
// time in one process, free, on unmodified code under the race detector. The C20 driver runs one session at a time;
// state shared between sessions (a package-level scratch buffer, a shared pool) shows only here. Sampled schedules.
package racepass20

import (
	"crypto/rand"
	"fmt"
	"math/big"
	"sync"
	"testing"

	"github.com/markkurossi/mpc/ot"
	"github.com/markkurossi/mpc/p2p"
	"github.com/markkurossi/mpc/vole"
)

type session struct {
	s *vole.Sender
	r *vole.Receiver
}

func newSession() (*session, error) {
	c0, c1 := p2p.Pipe()
	var ses session
	var e0, e1 error
	var wg sync.WaitGroup
	wg.Add(2)
	go func() {
		defer wg.Done()
		ses.s, e0 = vole.NewSender(ot.NewCO(rand.Reader), c0, rand.Reader)
	}()
	go func() {
		defer wg.Done()
		ses.r, e1 = vole.NewReceiver(ot.NewCO(rand.Reader), c1, rand.Reader)
	}()
	wg.Wait()
	if e0 != nil || e1 != nil {
		return nil, fmt.Errorf("setup: %v / %v", e0, e1)
	}
	return &ses, nil
}

func (ses *session) mul(xs, ys []*big.Int, p *big.Int) error {
	var rs, us []*big.Int
	var e0, e1 error
	var wg sync.WaitGroup
	wg.Add(2)
	go func() {
		defer wg.Done()
		rs, e0 = ses.s.Mul(xs, p)
	}()
	go func() {
		defer wg.Done()
		us, e1 = ses.r.Mul(ys, p)
	}()
	wg.Wait()
	if e0 != nil || e1 != nil {
		return fmt.Errorf("Mul: %v / %v", e0, e1)
	}
	if len(rs) != len(xs) || len(us) != len(xs) {
		return fmt.Errorf("lengths: rs=%d us=%d want %d", len(rs), len(us), len(xs))
	}
	for i := range xs {
		l := new(big.Int).Sub(us[i], rs[i])
		l.Mod(l, p)
		w := new(big.Int).Mul(xs[i], ys[i])
		w.Mod(w, p)
		if l.Cmp(w) != 0 {
			return fmt.Errorf("element %d: u-r=%x, x*y=%x", i, l, w)
		}
	}
	return nil
}

func TestConcurrentSessions(t *testing.T) {
	p, _ := new(big.Int).SetString("ffffffff00000001000000000000000000000000ffffffffffffffffffffffff", 16)
	nsess, rounds := 4, 6
	if testing.Short() {
		rounds = 3
	}
	var wg sync.WaitGroup
	for k := 0; k < nsess; k++ {
		wg.Add(1)
		go func(k int) {
			defer wg.Done()
			ses, err := newSession()
			if err != nil {
				t.Errorf("session %d: %v", k, err)
				return
			}
			for r := 0; r < rounds; r++ {
				n := 1 + (k+3*r)%9
				xs, ys := make([]*big.Int, n), make([]*big.Int, n)
				for i := range xs {
					xs[i] = new(big.Int).Exp(big.NewInt(int64(3+k)), big.NewInt(int64(200+17*i+r)), p)
					ys[i] = new(big.Int).Exp(big.NewInt(int64(5+r)), big.NewInt(int64(190+13*i+k)), p)
					if (i+r)%4 == 0 {
						ys[i] = big.NewInt(int64(i)) // short values: leading zero bytes in the encoding
					}
				}
				if err := ses.mul(xs, ys, p); err != nil {
					t.Errorf("session %d round %d: %v", k, r, err)
					return
				}
			}
		}(k)
	}
	wg.Wait()
}
