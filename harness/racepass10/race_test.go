// Package racepass10 runs complete GMW sessions free, on unmodified code over loopback TCP, for the race detector:
// the triple pool is filled by offline goroutines while the parties' main threads consume it, and memory accesses
// between two synchronisation operations are invisible to the cooperative scheduler of the C10 driver.
package racepass10

import (
	"fmt"
	"math/big"
	"net"
	"sync"
	"testing"

	"github.com/markkurossi/mpc/compiler"
	"github.com/markkurossi/mpc/compiler/utils"
	"github.com/markkurossi/mpc/gmw"
)

func freeAddr(t *testing.T) string {
	l, err := net.Listen("tcp", "127.0.0.1:0")
	if err != nil {
		t.Skipf("no loopback TCP: %v", err)
	}
	defer l.Close()
	return l.Addr().String()
}

func session(t *testing.T, n int, src string, inputs []int64, f func(in []int64) int64, bits uint) {
	params := utils.NewParams()
	params.Target = utils.TargetGMW
	defer params.Close()
	circ, _, err := compiler.New(params).Compile(src, nil)
	if err != nil {
		t.Fatalf("compile: %v", err)
	}
	circ.AssignLevels(utils.TargetGMW)
	addrs := make([]string, n)
	for i := range addrs {
		addrs[i] = freeAddr(t)
	}
	leader, err := gmw.CreateNetwork(addrs[0], n)
	if err != nil {
		t.Skipf("cannot listen on %s: %v", addrs[0], err)
	}
	var wg sync.WaitGroup
	errs := make([]error, n)
	outs := make([][]*big.Int, 2*n)
	for i := 0; i < n; i++ {
		wg.Add(1)
		go func(i int) {
			defer wg.Done()
			nw := leader
			if i != 0 {
				var err error
				nw, err = gmw.JoinNetwork(addrs[0], addrs[i], i)
				if err != nil {
					errs[i] = fmt.Errorf("join: %v", err)
					return
				}
			}
			if err := nw.Connect([]int{int(circ.Inputs[i].Type.Bits)}); err != nil {
				errs[i] = fmt.Errorf("connect: %v", err)
				return
			}
			defer nw.Close()
			// consume triples while the offline goroutines are still filling the pool
			for _, cnt := range []int{1, 65, 700} {
				tr := new(gmw.Triples)
				nw.Pool.Get(cnt, tr)
			}
			// many small requests while the pool is being filled and refilled (its arrays grow and shift)
			tr := new(gmw.Triples)
			for j := 0; j < 600; j++ {
				tr.Clear()
				nw.Pool.Get(64+j%130, tr)
			}
			for run := 0; run < 2; run++ {
				out, err := nw.Run(big.NewInt(inputs[i]+int64(run)), circ, false)
				if err != nil {
					errs[i] = fmt.Errorf("run %d: %v", run, err)
					return
				}
				outs[2*i+run] = out
			}
		}(i)
	}
	wg.Wait()
	for i, err := range errs {
		if err != nil {
			t.Fatalf("party %d: %v", i, err)
		}
	}
	mask := int64(1)<<bits - 1
	for run := 0; run < 2; run++ {
		in := make([]int64, n)
		for i := range in {
			in[i] = inputs[i] + int64(run)
		}
		want := f(in) & mask
		for i := 0; i < n; i++ {
			o := outs[2*i+run]
			if len(o) != 1 || o[0].Int64() != want {
				t.Errorf("party %d run %d: output %v, plain evaluation %d", i, run, o, want)
			}
		}
	}
}

func TestSessions(t *testing.T) {
	session(t, 2, "package main\n\nfunc main(a, b uint16) uint16 {\n\treturn a*b + (a & b)\n}\n", []int64{300, 77},
		func(in []int64) int64 { return in[0]*in[1] + (in[0] & in[1]) }, 16)
	if testing.Short() {
		return
	}
	session(t, 3, "package main\n\nfunc main(a, b, c uint16) uint16 {\n\treturn a*b + c*a\n}\n", []int64{300, 77, 12345},
		func(in []int64) int64 { return in[0]*in[1] + in[2]*in[0] }, 16)
}
