// Package mpclgen enumerates MPCL programs family by family from the typed AST of
// verif/refsem. It is shared by C03 (compiled circuit vs reference interpreter) and C05
// (streaming mode vs whole-circuit mode).
package mpclgen

import (
	"math/big"
	. "verif/refsem"
)

// Gen is one generated program with its family name.
type Gen struct {
	Fam string
	P   *Program
}

func one(t Type) Expr { return Const{T: t, V: 1} }

func mainFn(params []Param, results []Type, body []Stmt) Func {
	return Func{Name: "main", Params: params, Results: results, Body: body}
}

func ab(t Type) []Param { return []Param{{Name: "a", T: t}, {Name: "b", T: t}} }

var arith = []string{"+", "-", "*", "&", "|", "^"}
var cmps = []string{"<", "<=", ">", ">=", "==", "!="}

// FamExpr: every operator x operand shape for one type.
func FamExpr(t Type, emit func(Gen)) {
	a, b := Var{Name: "a"}, Var{Name: "b"}
	ret := func(fam string, rt Type, e Expr) {
		emit(Gen{fam, &Program{Funcs: []Func{mainFn(ab(t), []Type{rt}, []Stmt{Return{X: []Expr{e}}})}}})
	}
	consts := []int64{0, 1, 2}
	if t.W >= 4 {
		consts = append(consts, 7)
	}
	for _, op := range arith {
		ret("expr-binary", t, Bin{Op: op, L: a, R: b})
		ret("expr-binary", t, Bin{Op: op, L: b, R: a})
		ret("expr-binary", t, Bin{Op: op, L: a, R: a})
		for _, c := range consts {
			if t.W == 1 && c > 1 {
				continue
			}
			ret("expr-const-operand", t, Bin{Op: op, L: a, R: Const{T: t, V: c}})
			ret("expr-const-operand", t, Bin{Op: op, L: Const{T: t, V: c}, R: b})
		}
		// constants at the sizes where the compiler changes representation or strategy: powers of two (strength
		// reduction), 32/64-bit boundaries, values wider than 64 bits, all ones
		for _, c := range wideConsts(t) {
			ret("expr-wide-const-operand", t, Bin{Op: op, L: a, R: BigConst{T: t, V: c}})
			ret("expr-wide-const-operand", t, Bin{Op: op, L: BigConst{T: t, V: c}, R: b})
		}
		for _, op2 := range arith {
			ret("expr-nested", t, Bin{Op: op2, L: Bin{Op: op, L: a, R: b}, R: a})
			ret("expr-nested", t, Bin{Op: op2, L: b, R: Bin{Op: op, L: a, R: b}})
		}
	}
	// division and modulo with a divisor forced non-zero
	nz := Bin{Op: "|", L: b, R: one(t)}
	for _, op := range []string{"/", "%"} {
		ret("expr-div", t, Bin{Op: op, L: a, R: nz})
		ret("expr-div", t, Bin{Op: op, L: Bin{Op: "-", L: a, R: b}, R: nz})
		ret("expr-div", t, Bin{Op: "+", L: Bin{Op: op, L: a, R: nz}, R: b})
	}
	for _, op := range cmps {
		ret("expr-compare", BoolT, Bin{Op: op, L: a, R: b})
		ret("expr-compare", BoolT, Bin{Op: op, L: a, R: one(t)})
		ret("expr-compare", BoolT, Bin{Op: op, L: Bin{Op: "+", L: a, R: b}, R: b})
		for _, op2 := range cmps[:3] {
			ret("expr-bool", BoolT, Bin{Op: "&&", L: Bin{Op: op, L: a, R: b}, R: Bin{Op: op2, L: b, R: one(t)}})
			ret("expr-bool", BoolT, Bin{Op: "||", L: Not{X: Bin{Op: op, L: a, R: b}}, R: Bin{Op: op2, L: a, R: one(t)}})
		}
	}
	// constant shifts
	for _, c := range []int64{0, 1, int64(t.W / 2), int64(t.W - 1)} {
		if c >= int64(t.W) || c < 0 {
			continue
		}
		ret("expr-shift", t, Bin{Op: "<<", L: a, R: Lit{V: c}})
		ret("expr-shift", t, Bin{Op: ">>", L: a, R: Lit{V: c}})
		ret("expr-shift", t, Bin{Op: "^", L: Bin{Op: ">>", L: Bin{Op: "+", L: a, R: b}, R: Lit{V: c}}, R: b})
	}
	// shift counts of the operand's width and beyond (Go: 0, or all sign bits for >> on a negative signed value;
	// testsuite/lang/lshift64.mpcl and rshift64.mpcl pin the non-negative case)
	seen := map[int64]bool{}
	for _, c := range []int64{int64(t.W), int64(t.W) + 1, 2 * int64(t.W), 64, 130} {
		if c < int64(t.W) || seen[c] {
			continue
		}
		seen[c] = true
		ret("expr-shift-wide-count", t, Bin{Op: "<<", L: a, R: Lit{V: c}})
		ret("expr-shift-wide-count", t, Bin{Op: ">>", L: a, R: Lit{V: c}})
		ret("expr-shift-wide-count", t, Bin{Op: "+", L: Bin{Op: ">>", L: Bin{Op: "-", L: a, R: b}, R: Lit{V: c}}, R: b})
	}
}

// litClass names the size class of a literal (the compiler stores constants in 32 or 64 bits).
func litClass(v int64) string {
	switch {
	case v < 0 && v >= -(1<<31):
		return "neg32"
	case v < 0:
		return "neg64"
	case v < 1<<31:
		return "small"
	case v < 1<<32:
		return "bit31"
	}
	return "wide"
}

// wideConsts: non-negative constants representable in t beyond the small ones.
func wideConsts(t Type) []*big.Int {
	vw := t.W
	if t.Signed {
		vw--
	}
	if vw < 4 {
		return nil
	}
	seen := map[string]bool{}
	var out []*big.Int
	add := func(v *big.Int) {
		if v.Sign() <= 0 || v.BitLen() > vw || v.BitLen() <= 3 || seen[v.String()] {
			return
		}
		seen[v.String()] = true
		out = append(out, v)
	}
	pow := func(k int) *big.Int { return new(big.Int).Lsh(big.NewInt(1), uint(k)) }
	for _, k := range []int{vw - 1, vw / 2, 31, 32, 33, 63, 64, 65} {
		if k < vw {
			add(pow(k))
		}
	}
	add(new(big.Int).Sub(pow(vw), big.NewInt(1)))   // all ones
	add(new(big.Int).Add(pow(64), big.NewInt(4)))   // low 64 bits: a single bit
	add(new(big.Int).Add(pow(vw-1), pow(vw/2)))     // two bits
	add(new(big.Int).Sub(pow(32), big.NewInt(1)))   // 0xffffffff
	add(new(big.Int).Add(pow(65), pow(64)))         // low 64 bits zero, two high bits
	add(new(big.Int).Mul(pow(vw/2), big.NewInt(3))) // 3 * 2^k
	return out
}

// FamCast: widening / narrowing / reinterpreting casts between t and u (same signedness unless same width).
func FamCast(t, u Type, emit func(Gen)) {
	a, b := Var{Name: "a"}, Var{Name: "b"}
	ret := func(rt Type, e Expr) {
		emit(Gen{"cast", &Program{Funcs: []Func{mainFn(ab(t), []Type{rt}, []Stmt{Return{X: []Expr{e}}})}}})
	}
	ret(u, Cast{T: u, X: a})
	ret(u, Bin{Op: "+", L: Cast{T: u, X: a}, R: Cast{T: u, X: b}})
	ret(u, Cast{T: u, X: Bin{Op: "+", L: a, R: b}})
	ret(u, Cast{T: u, X: Bin{Op: "*", L: a, R: b}})
	ret(t, Cast{T: t, X: Cast{T: u, X: a}})
	ret(t, Bin{Op: "-", L: Cast{T: t, X: Bin{Op: "+", L: Cast{T: u, X: a}, R: Cast{T: u, X: b}}}, R: b})
	ret(BoolT, Bin{Op: "<", L: Cast{T: u, X: a}, R: Cast{T: u, X: b}})
}

// FamIf: if/else skeletons over two variables with assignment, shadowing, early return and nesting.
func FamIf(t Type, emit func(Gen)) {
	a, b, x, y := Var{Name: "a"}, Var{Name: "b"}, Var{Name: "x"}, Var{Name: "y"}
	bodies := [][]Stmt{
		{Assign{Name: "x", X: Bin{Op: "+", L: x, R: y}}},
		{Assign{Name: "y", X: Bin{Op: "^", L: y, R: a}}},
		{VarInit{Name: "x", T: t, X: Bin{Op: "+", L: y, R: one(t)}}, Assign{Name: "y", X: x}}, // shadowing declaration
		{Return{X: []Expr{y, x}}},
		{},
		{If{Cond: Bin{Op: ">", L: x, R: y}, Then: []Stmt{Assign{Name: "x", X: Bin{Op: "-", L: x, R: y}}}, Else: []Stmt{Assign{Name: "y", X: Bin{Op: "-", L: y, R: x}}}}},
		{If{Cond: Bin{Op: "==", L: a, R: b}, Then: []Stmt{Return{X: []Expr{a, b}}}}, Assign{Name: "x", X: Bin{Op: "*", L: x, R: y}}},
		{Assign{Name: "x", X: y}, Assign{Name: "y", X: Bin{Op: "+", L: x, R: one(t)}}},
	}
	conds := []Expr{
		Bin{Op: "<", L: a, R: b},
		Bin{Op: "==", L: a, R: b},
		Bin{Op: "==", L: Bin{Op: "&", L: a, R: one(t)}, R: one(t)},
	}
	posts := [][]Stmt{
		{},
		{Assign{Name: "x", X: Bin{Op: "*", L: x, R: y}}},
		{Assign{Name: "y", X: x}},
	}
	for _, c := range conds {
		for ti, th := range bodies {
			for ei := -1; ei < len(bodies); ei++ {
				for _, po := range posts {
					var el []Stmt
					if ei >= 0 {
						el = bodies[ei]
						if len(el) == 0 {
							el = []Stmt{}
						}
					}
					if ei == ti && ti == 4 {
						continue
					}
					body := []Stmt{Define{Name: "x", X: a}, Define{Name: "y", X: b}, If{Cond: c, Then: th, Else: el}}
					body = append(body, po...)
					body = append(body, Return{X: []Expr{x, y}})
					fam := "if-else"
					if ti == 2 || ei == 2 {
						// a var declaration inside a branch that shadows an outer variable (Go: block scope)
						fam = "if-else-branch-shadow"
					}
					emit(Gen{fam, &Program{Funcs: []Func{mainFn(ab(t), []Type{t, t}, body)}}})
				}
			}
		}
	}
}

// FamIfNest: several ifs, sequential and nested, whose conditions are drawn from bare
// bool variables (arguments and a local) and comparisons, so that one condition value is
// reused by different ifs; every branch assigns the same one or two variables.
func FamIfNest(t Type, emit func(Gen)) {
	famIfNest(t, false, emit)
	famIfNest(t, true, emit)
}

// famIfNest: with local set, c and d are bool locals derived from a and b (a two-argument
// main, as the two-party protocols need) instead of bool arguments.
func famIfNest(t Type, local bool, emit func(Gen)) {
	a, b, x, y := Var{Name: "a"}, Var{Name: "b"}, Var{Name: "x"}, Var{Name: "y"}
	conds := []Expr{Var{Name: "c"}, Var{Name: "d"}, Var{Name: "p"}, Bin{Op: "==", L: a, R: b}, Not{X: Var{Name: "c"}}}
	params := []Param{{Name: "a", T: t}, {Name: "b", T: t}, {Name: "c", T: BoolT}, {Name: "d", T: BoolT}}
	k := func(v int64) Expr { return Const{T: t, V: v & (1<<uint(min(t.W, 3)) - 1)} }
	// slot(i, alt): the i-th assignment; alt spreads the slots over x and y
	slot := func(i int, alt bool) []Stmt {
		name, v := "x", x
		if alt && i%2 == 1 {
			name, v = "y", y
		}
		switch i % 3 {
		case 0:
			return []Stmt{Assign{Name: name, X: Bin{Op: "+", L: v, R: k(int64(i + 1))}}}
		case 1:
			return []Stmt{Assign{Name: name, X: Bin{Op: "^", L: a, R: k(int64(i + 2))}}}
		}
		return []Stmt{Assign{Name: name, X: Bin{Op: "-", L: b, R: v}}}
	}
	for _, alt := range []bool{false, true} {
		for i1, c1 := range conds {
			for i2, c2 := range conds {
				for i3, c3 := range conds {
					if i1 >= 3 && i2 >= 3 && i3 >= 3 {
						continue
					}
					shapes := [][]Stmt{
						// if c1 {..} else {..}; if c2 { if c3 {..} else {..} }
						{If{Cond: c1, Then: slot(0, alt), Else: slot(1, alt)}, If{Cond: c2, Then: []Stmt{If{Cond: c3, Then: slot(2, alt), Else: slot(3, alt)}}}},
						// if c1 { if c2 {..} else {..} } else { if c3 {..} else {..} }
						{If{Cond: c1, Then: []Stmt{If{Cond: c2, Then: slot(0, alt), Else: slot(1, alt)}}, Else: []Stmt{If{Cond: c3, Then: slot(2, alt), Else: slot(3, alt)}}}},
						// three ifs in a row, the middle one without else
						{If{Cond: c1, Then: slot(0, alt), Else: slot(3, alt)}, If{Cond: c2, Then: slot(1, alt)}, If{Cond: c3, Then: slot(2, alt), Else: slot(4, alt)}},
						// if c1 { if c2 {..}; .. } else { .. }; if c3 {..}
						{If{Cond: c1, Then: append([]Stmt{If{Cond: c2, Then: slot(0, alt)}}, slot(1, alt)...), Else: slot(2, alt)}, If{Cond: c3, Then: slot(3, alt)}},
					}
					for _, sh := range shapes {
						body := []Stmt{Define{Name: "x", X: a}, Define{Name: "y", X: b}, Define{Name: "p", X: Bin{Op: "<", L: a, R: b}}}
						fam, ps := "if-nest", params
						if local {
							fam, ps = "if-nest-local", ab(t)
							body = append(body,
								Define{Name: "c", X: Bin{Op: "==", L: Bin{Op: "&", L: a, R: one(t)}, R: one(t)}},
								Define{Name: "d", X: Bin{Op: "==", L: Bin{Op: "&", L: b, R: one(t)}, R: one(t)}})
						}
						body = append(body, sh...)
						body = append(body, Return{X: []Expr{x, y}})
						emit(Gen{fam, &Program{Funcs: []Func{mainFn(ps, []Type{t, t}, body)}}})
					}
				}
			}
		}
	}
}

// FamLoop: unrolled loops with 0..4 iterations.
func FamLoop(t Type, emit func(Gen)) {
	a, b, acc, i := Var{Name: "a"}, Var{Name: "b"}, Var{Name: "acc"}, Var{Name: "i"}
	ti := Cast{T: t, X: i}
	bodies := [][]Stmt{
		{Assign{Name: "acc", X: Bin{Op: "+", L: acc, R: b}}},
		{Assign{Name: "acc", X: Bin{Op: "+", L: acc, R: ti}}},
		{Assign{Name: "acc", X: Bin{Op: "^", L: Bin{Op: "<<", L: acc, R: Lit{V: 1}}, R: b}}},
		{If{Cond: Bin{Op: "==", L: Bin{Op: "&", L: Bin{Op: ">>", L: b, R: i}, R: one(t)}, R: one(t)}, Then: []Stmt{Assign{Name: "acc", X: Bin{Op: "+", L: acc, R: a}}}}},
		{If{Cond: Bin{Op: ">", L: acc, R: b}, Then: []Stmt{Return{X: []Expr{acc}}}}, Assign{Name: "acc", X: Bin{Op: "+", L: acc, R: Bin{Op: "+", L: a, R: one(t)}}}},
		{VarInit{Name: "t", T: t, X: Bin{Op: "*", L: acc, R: a}}, Assign{Name: "acc", X: Bin{Op: "-", L: Var{Name: "t"}, R: ti}}},
		{If{Cond: Bin{Op: "<", L: a, R: b}, Then: []Stmt{Assign{Name: "acc", X: Bin{Op: "+", L: acc, R: one(t)}}}, Else: []Stmt{Assign{Name: "acc", X: Bin{Op: "-", L: acc, R: ti}}}}},
	}
	// a loop variable named like an outer variable (Go: the loop's own variable, the outer one is untouched)
	for n := int64(0); n <= 3; n++ {
		body := []Stmt{Define{Name: "i", X: a}, Define{Name: "acc", X: b}, For{Var: "i", From: 0, To: n, Body: bodies[1]}, Return{X: []Expr{Bin{Op: "+", L: Var{Name: "i"}, R: acc}}}}
		emit(Gen{"loop-var-shadow", &Program{Funcs: []Func{mainFn(ab(t), []Type{t}, body)}}})
	}
	for n := int64(0); n <= 4; n++ {
		for from := int64(0); from <= 1 && from <= n; from++ {
			for bi, bd := range bodies {
				if bi == 3 && n > int64(t.W) {
					continue
				}
				for _, init := range []Stmt{Define{Name: "acc", X: a}, VarDecl{Name: "acc", T: t}} {
					body := []Stmt{init, For{Var: "i", From: from, To: n, Body: bd}, Return{X: []Expr{acc}}}
					emit(Gen{"loop", &Program{Funcs: []Func{mainFn(ab(t), []Type{t}, body)}}})
				}
			}
		}
	}
}

// FamNestedLoop: loops inside loops, the inner body using both loop variables, an early return and an array.
func FamNestedLoop(t Type, emit func(Gen)) {
	a, b, acc := Var{Name: "a"}, Var{Name: "b"}, Var{Name: "acc"}
	ci, cj := Cast{T: t, X: Var{Name: "i"}}, Cast{T: t, X: Var{Name: "j"}}
	at := t
	at.N = 3
	inner := [][]Stmt{
		{Assign{Name: "acc", X: Bin{Op: "+", L: acc, R: Bin{Op: "*", L: Bin{Op: "+", L: a, R: ci}, R: Bin{Op: "^", L: b, R: cj}}}}},
		{If{Cond: Bin{Op: "<", L: Bin{Op: "+", L: acc, R: cj}, R: b}, Then: []Stmt{Assign{Name: "acc", X: Bin{Op: "+", L: acc, R: a}}}, Else: []Stmt{Assign{Name: "acc", X: Bin{Op: "-", L: acc, R: ci}}}}},
		{If{Cond: Bin{Op: "==", L: acc, R: b}, Then: []Stmt{Return{X: []Expr{Bin{Op: "+", L: acc, R: ci}}}}}, Assign{Name: "acc", X: Bin{Op: "+", L: Bin{Op: "<<", L: acc, R: Lit{V: 1}}, R: cj}}},
		{Assign{Name: "arr", Idx: Var{Name: "j"}, X: Bin{Op: "+", L: Index{A: Var{Name: "arr"}, Idx: Var{Name: "j"}}, R: Bin{Op: "+", L: acc, R: ci}}}, Assign{Name: "acc", X: Bin{Op: "^", L: acc, R: Index{A: Var{Name: "arr"}, Idx: Var{Name: "i"}}}}},
	}
	for ni := int64(1); ni <= 3; ni++ {
		for nj := int64(0); nj <= 3; nj++ {
			for bi, bd := range inner {
				if bi == 3 && (ni > 3 || nj > 3) {
					continue
				}
				body := []Stmt{Define{Name: "acc", X: a}, VarDecl{Name: "arr", T: at},
					For{Var: "i", From: 0, To: ni, Body: []Stmt{
						For{Var: "j", From: 0, To: nj, Body: bd},
						Assign{Name: "acc", X: Bin{Op: "+", L: acc, R: Bin{Op: "+", L: ci, R: Index{A: Var{Name: "arr"}, Idx: Lit{V: 0}}}}}}},
					Return{X: []Expr{acc}}}
				emit(Gen{"loop-nested", &Program{Funcs: []Func{mainFn(ab(t), []Type{t}, body)}}})
			}
		}
	}
}

// FamArray: arrays with constant, loop-variable and in-range dynamic indices; copies; arrays as arguments.
func FamArray(t Type, emit func(Gen)) {
	a, b := Var{Name: "a"}, Var{Name: "b"}
	for n := 1; n <= 4; n++ {
		at := t
		at.N = n
		arr := Var{Name: "arr"}
		for i0 := 0; i0 < n; i0++ {
			for i1 := 0; i1 < n; i1++ {
				for j := 0; j < n; j++ {
					if n == 4 && (i0+i1+j)%3 != 0 {
						continue
					}
					body := []Stmt{
						VarDecl{Name: "arr", T: at},
						Assign{Name: "arr", Idx: Lit{V: int64(i0)}, X: a},
						Assign{Name: "arr", Idx: Lit{V: int64(i1)}, X: Bin{Op: "+", L: b, R: Index{A: arr, Idx: Lit{V: int64(i0)}}}},
						Define{Name: "cp", X: arr},
						Assign{Name: "arr", Idx: Lit{V: int64(j)}, X: Bin{Op: "^", L: a, R: b}},
						Return{X: []Expr{Bin{Op: "+", L: Index{A: arr, Idx: Lit{V: int64(j)}}, R: Index{A: Var{Name: "cp"}, Idx: Lit{V: int64(i1)}}}}},
					}
					emit(Gen{"array-const-index", &Program{Funcs: []Func{mainFn(ab(t), []Type{t}, body)}}})
				}
			}
		}
		// filled in a loop, summed in a loop
		body := []Stmt{
			VarDecl{Name: "arr", T: at},
			For{Var: "i", From: 0, To: int64(n), Body: []Stmt{Assign{Name: "arr", Idx: Var{Name: "i"}, X: Bin{Op: "+", L: a, R: Cast{T: t, X: Var{Name: "i"}}}}}},
			VarDecl{Name: "s", T: t},
			For{Var: "i", From: 0, To: int64(n), Body: []Stmt{Assign{Name: "s", X: Bin{Op: "+", L: Var{Name: "s"}, R: Bin{Op: "*", L: Index{A: arr, Idx: Var{Name: "i"}}, R: b}}}}},
			Return{X: []Expr{Var{Name: "s"}}},
		}
		emit(Gen{"array-loop-index", &Program{Funcs: []Func{mainFn(ab(t), []Type{t}, body)}}})
		// array argument, dynamic in-range index (length a power of two, index masked)
		if (n == 2 || n == 4) && t.W >= 2 && !t.Signed {
			mask := Const{T: t, V: int64(n - 1)}
			body := []Stmt{Return{X: []Expr{Bin{Op: "+", L: Index{A: Var{Name: "v"}, Idx: Bin{Op: "&", L: b, R: mask}}, R: Index{A: Var{Name: "v"}, Idx: Lit{V: 0}}}}}}
			emit(Gen{"array-dynamic-index", &Program{Funcs: []Func{mainFn([]Param{{Name: "v", T: at}, {Name: "b", T: t}}, []Type{t}, body)}}})
		}
	}
}

// FamStruct: struct fields, copies and struct arguments.
func FamStruct(t, u Type, emit func(Gen)) {
	a, b := Var{Name: "a"}, Var{Name: "b"}
	st := Type{Name: "P", Fields: []Type{t, u, t}, Names: []string{"x", "y", "z"}}
	p, q := Var{Name: "p"}, Var{Name: "q"}
	for variant := 0; variant < 4; variant++ {
		body := []Stmt{
			VarDecl{Name: "p", T: st},
			Assign{Name: "p", Field: "x", X: a},
			Assign{Name: "p", Field: "y", X: Cast{T: u, X: b}},
		}
		switch variant {
		case 0:
			body = append(body, Define{Name: "q", X: p}, Assign{Name: "p", Field: "z", X: Bin{Op: "+", L: a, R: b}})
		case 1:
			body = append(body, Assign{Name: "p", Field: "z", X: Bin{Op: "*", L: a, R: b}}, Define{Name: "q", X: p}, Assign{Name: "p", Field: "x", X: b})
		case 2:
			body = append(body, Define{Name: "q", X: p}, If{Cond: Bin{Op: "<", L: a, R: b}, Then: []Stmt{Assign{Name: "q", Field: "x", X: b}}, Else: []Stmt{Assign{Name: "p", Field: "z", X: a}}})
		case 3:
			body = append(body, Define{Name: "q", X: p}, Assign{Name: "q", Field: "z", X: Bin{Op: "-", L: Field{X: p, Name: "x"}, R: b}}, Assign{Name: "p", X: q})
		}
		body = append(body, Return{X: []Expr{Bin{Op: "+", L: Field{X: q, Name: "x"}, R: Field{X: p, Name: "z"}}, Field{X: p, Name: "y"}, Field{X: q, Name: "z"}}})
		emit(Gen{"struct", &Program{Structs: []Type{st}, Funcs: []Func{mainFn(ab(t), []Type{t, u, t}, body)}}})
	}
	// struct as argument
	body := []Stmt{Return{X: []Expr{Bin{Op: "+", L: Field{X: Var{Name: "s"}, Name: "x"}, R: Bin{Op: "*", L: Field{X: Var{Name: "s"}, Name: "z"}, R: b}}, Field{X: Var{Name: "s"}, Name: "y"}}}}
	emit(Gen{"struct-argument", &Program{Structs: []Type{st}, Funcs: []Func{mainFn([]Param{{Name: "s", T: st}, {Name: "b", T: t}}, []Type{t, u}, body)}}})
}

// FamConstStore: untyped integer literals stored into array elements, struct fields and plain variables that hold
// input-derived values, for element types narrower and wider than the compiler's 32- and 64-bit constant sizes.
func FamConstStore(t Type, emit func(Gen)) {
	a, b := Var{Name: "a"}, Var{Name: "b"}
	vw := t.W
	if t.Signed {
		vw--
	}
	var lits []int64
	for _, v := range []int64{0, 1, 7, 1100, 1<<31 - 1, 1 << 31, 1<<32 - 1, 1 << 40, 1<<62 + 5} {
		if vw >= 63 || v < 1<<uint(vw) {
			lits = append(lits, v)
		}
	}
	at := t
	at.N = 3
	arr := Var{Name: "arr"}
	fill := []Stmt{
		VarDecl{Name: "arr", T: at},
		Assign{Name: "arr", Idx: Lit{V: 0}, X: a},
		Assign{Name: "arr", Idx: Lit{V: 1}, X: b},
		Assign{Name: "arr", Idx: Lit{V: 2}, X: Bin{Op: "^", L: a, R: b}},
	}
	all := Return{X: []Expr{Index{A: arr, Idx: Lit{V: 0}}, Index{A: arr, Idx: Lit{V: 1}}, Index{A: arr, Idx: Lit{V: 2}}}}
	st := Type{Name: "P", Fields: []Type{t, t}, Names: []string{"x", "y"}}
	p := Var{Name: "p"}
	for _, v := range lits {
		c := UConst{T: t, V: v}
		dt := "." + t.Src() + "." + litClass(v)
		for k := int64(0); k < 3; k++ {
			body := append(append([]Stmt{}, fill...), Assign{Name: "arr", Idx: Lit{V: k}, X: c}, all)
			emit(Gen{"const-store-array" + dt, &Program{Funcs: []Func{mainFn(ab(t), []Type{t, t, t}, body)}}})
		}
		// in a loop over all elements but the last
		body := append(append([]Stmt{}, fill...), For{Var: "i", From: 0, To: 2, Body: []Stmt{Assign{Name: "arr", Idx: Var{Name: "i"}, X: c}}}, all)
		emit(Gen{"const-store-array-loop" + dt, &Program{Funcs: []Func{mainFn(ab(t), []Type{t, t, t}, body)}}})
		// under a condition
		body = append(append([]Stmt{}, fill...), If{Cond: Bin{Op: "<", L: a, R: b}, Then: []Stmt{Assign{Name: "arr", Idx: Lit{V: 1}, X: c}}, Else: []Stmt{Assign{Name: "arr", Idx: Lit{V: 0}, X: c}}}, all)
		emit(Gen{"const-store-array-if" + dt, &Program{Funcs: []Func{mainFn(ab(t), []Type{t, t, t}, body)}}})
		for _, f := range []string{"x", "y"} {
			body := []Stmt{
				VarDecl{Name: "p", T: st},
				Assign{Name: "p", Field: "x", X: a},
				Assign{Name: "p", Field: "y", X: b},
				Assign{Name: "p", Field: f, X: c},
				Return{X: []Expr{Field{X: p, Name: "x"}, Field{X: p, Name: "y"}}},
			}
			emit(Gen{"const-store-field" + dt, &Program{Structs: []Type{st}, Funcs: []Func{mainFn(ab(t), []Type{t, t}, body)}}})
		}
		body = []Stmt{Define{Name: "x", X: a}, If{Cond: Bin{Op: "<", L: a, R: b}, Then: []Stmt{Assign{Name: "x", X: c}}}, Return{X: []Expr{Bin{Op: "+", L: Var{Name: "x"}, R: b}}}}
		emit(Gen{"const-store-var" + dt, &Program{Funcs: []Func{mainFn(ab(t), []Type{t}, body)}}})
	}
}

// FamConstFlow: an untyped literal flowing into a typed slot by every other route than a plain store: returned
// from a function, passed as an argument, initialising a declaration, compared with, and as either operand of
// every binary operator (division and modulo with a non-zero literal divisor).
func FamConstFlow(t Type, emit func(Gen)) {
	a, b := Var{Name: "a"}, Var{Name: "b"}
	vw := t.W
	if t.Signed {
		vw--
	}
	var lits []int64
	for _, v := range []int64{1, 7, 1<<31 - 1, 1 << 31, 1<<32 - 1, 1 << 32, 1 << 40, 1<<62 + 5} {
		if vw >= 63 || v < 1<<uint(vw) {
			lits = append(lits, v)
		}
	}
	one1 := func(fam string, rts []Type, fs []Func, body []Stmt) {
		emit(Gen{fam, &Program{Funcs: append(fs, mainFn(ab(t), rts, body))}})
	}
	// one constant value used at two types in one program: a typed constant of a narrower type and the bare literal
	// (or the typed constant of this type) with the narrower type's top bit set
	for _, nt := range []Type{{W: 8}, {W: 8, Signed: true}, {W: 16}} {
		if nt.W >= t.W || (nt.Signed && !t.Signed) {
			// (a signed narrow value cast to a wider unsigned type is a mixed-sign widening: not pinned, not generated)
			continue
		}
		for _, v := range []int64{200, 128, 255, 40000, 100} {
			top := int64(1) << uint(nt.W)
			if v >= top || (nt.Signed && v >= top/2) {
				continue
			}
			if vw < 63 && v >= 1<<uint(vw) {
				continue
			}
			narrow := Bin{Op: "+", L: Cast{T: nt, X: b}, R: Const{T: nt, V: v}}
			for _, order := range [][]Stmt{
				{Define{Name: "c", X: narrow}, Return{X: []Expr{Bin{Op: "+", L: a, R: UConst{T: t, V: v}}, Cast{T: t, X: Var{Name: "c"}}}}},
				{Define{Name: "d", X: Bin{Op: "+", L: a, R: UConst{T: t, V: v}}}, Define{Name: "c", X: narrow}, Return{X: []Expr{Var{Name: "d"}, Cast{T: t, X: Var{Name: "c"}}}}},
				{Define{Name: "c", X: narrow}, Return{X: []Expr{Bin{Op: "+", L: a, R: Const{T: t, V: v}}, Cast{T: t, X: Var{Name: "c"}}}}},
			} {
				emit(Gen{"const-two-types." + t.Src() + "." + nt.Src(), &Program{Funcs: []Func{mainFn(ab(t), []Type{t, t}, order)}}})
			}
		}
	}
	for _, v := range lits {
		c := UConst{T: t, V: v}
		dt := "." + t.Src() + "." + litClass(v)
		g := Func{Name: "g", Params: []Param{{Name: "u", T: t}}, Results: []Type{t}, Body: []Stmt{
			If{Cond: Bin{Op: "<", L: Var{Name: "u"}, R: c}, Then: []Stmt{Return{X: []Expr{c}}}},
			Return{X: []Expr{Var{Name: "u"}}}}}
		h := Func{Name: "h", Params: []Param{{Name: "u", T: t}, {Name: "v", T: t}}, Results: []Type{t}, Body: []Stmt{
			Return{X: []Expr{Bin{Op: "^", L: Bin{Op: "+", L: Var{Name: "u"}, R: Var{Name: "v"}}, R: Var{Name: "v"}}}}}}
		one1("const-flow-return"+dt, []Type{t}, []Func{g}, []Stmt{Return{X: []Expr{Bin{Op: "+", L: Call{Fn: "g", Args: []Expr{a}}, R: b}}}})
		one1("const-flow-argument"+dt, []Type{t}, []Func{h}, []Stmt{Return{X: []Expr{Bin{Op: "+", L: Call{Fn: "h", Args: []Expr{a, c}}, R: Call{Fn: "h", Args: []Expr{c, b}}}}}})
		one1("const-flow-var-init"+dt, []Type{t, t}, nil, []Stmt{VarInit{Name: "x", T: t, X: c}, Define{Name: "y", X: Bin{Op: "+", L: Var{Name: "x"}, R: a}},
			If{Cond: Bin{Op: "<", L: b, R: c}, Then: []Stmt{Assign{Name: "x", X: b}}}, Return{X: []Expr{Var{Name: "x"}, Var{Name: "y"}}}})
		for _, op := range cmps {
			one1("const-flow-compare."+op+dt, []Type{BoolT, BoolT}, nil, []Stmt{Return{X: []Expr{Bin{Op: op, L: a, R: c}, Bin{Op: op, L: c, R: b}}}})
		}
		for _, op := range append(append([]string{}, arith...), "/", "%") {
			one1("const-flow-operand."+op+dt, []Type{t}, nil, []Stmt{Return{X: []Expr{Bin{Op: op, L: a, R: c}}}})
			if op != "/" && op != "%" {
				one1("const-flow-operand."+op+dt, []Type{t}, nil, []Stmt{Return{X: []Expr{Bin{Op: op, L: c, R: b}}}})
			} else {
				one1("const-flow-operand."+op+dt, []Type{t}, nil, []Stmt{Return{X: []Expr{Bin{Op: op, L: c, R: Bin{Op: "|", L: b, R: one(t)}}}}})
			}
		}
	}
}

// FamNegOps: negative literals (signed types), unary minus, compound assignments and ++/--.
func FamNegOps(t Type, emit func(Gen)) {
	a, b, x := Var{Name: "a"}, Var{Name: "b"}, Var{Name: "x"}
	one1 := func(fam string, rts []Type, fs []Func, body []Stmt) {
		emit(Gen{fam, &Program{Funcs: append(fs, mainFn(ab(t), rts, body))}})
	}
	// unary minus on values
	for _, e := range []Expr{Neg{X: a}, Neg{X: Bin{Op: "+", L: a, R: b}}, Bin{Op: "-", L: b, R: Neg{X: a}}, Bin{Op: "*", L: Neg{X: a}, R: b}, Neg{X: Neg{X: a}}} {
		one1("neg-unary", []Type{t}, nil, []Stmt{Return{X: []Expr{e}}})
	}
	one1("neg-unary", []Type{BoolT, BoolT}, nil, []Stmt{Return{X: []Expr{Bin{Op: "<", L: Neg{X: a}, R: b}, Bin{Op: "==", L: Neg{X: a}, R: a}}}})
	// compound assignments
	for _, op := range []string{"+", "-", "*", "&", "|", "^"} {
		one1("op-assign", []Type{t, t}, nil, []Stmt{Define{Name: "x", X: a}, OpAssign{Name: "x", Op: op, X: b}, Define{Name: "y", X: x},
			OpAssign{Name: "x", Op: op, X: UConst{T: t, V: 5 % (1 << uint(min(t.W-1, 3)))}}, If{Cond: Bin{Op: "<", L: a, R: b}, Then: []Stmt{OpAssign{Name: "x", Op: op, X: Var{Name: "y"}}}}, Return{X: []Expr{x, Var{Name: "y"}}}})
	}
	for _, op := range []string{"<<", ">>"} {
		for _, c := range []int64{0, 1, int64(t.W - 1)} {
			if c >= int64(t.W) {
				continue
			}
			one1("op-assign-shift", []Type{t}, nil, []Stmt{Define{Name: "x", X: a}, OpAssign{Name: "x", Op: op, X: Lit{V: c}}, Return{X: []Expr{Bin{Op: "^", L: x, R: b}}}})
		}
	}
	one1("op-assign-div", []Type{t, t}, nil, []Stmt{Define{Name: "x", X: a}, Define{Name: "y", X: a}, OpAssign{Name: "x", Op: "/", X: Bin{Op: "|", L: b, R: one(t)}},
		OpAssign{Name: "y", Op: "%", X: Bin{Op: "|", L: b, R: one(t)}}, Return{X: []Expr{x, Var{Name: "y"}}}})
	one1("inc-dec", []Type{t, t}, nil, []Stmt{Define{Name: "x", X: a}, Define{Name: "y", X: b}, IncDec{Name: "x", Inc: true}, IncDec{Name: "y"},
		If{Cond: Bin{Op: "<", L: x, R: Var{Name: "y"}}, Then: []Stmt{IncDec{Name: "x", Inc: true}}, Else: []Stmt{IncDec{Name: "y"}, IncDec{Name: "y"}}}, Return{X: []Expr{x, Var{Name: "y"}}}})
	if !t.Signed || t.W < 4 {
		return
	}
	// negative literals
	var lits []int64
	for _, v := range []int64{-1, -5, -(1 << 7), -(1<<15 + 3), -(1 << 31), -(1<<31 + 1), -(1 << 40)} {
		if t.W >= 64 || -v <= 1<<uint(t.W-1) {
			lits = append(lits, v)
		}
	}
	for _, v := range lits {
		c := UConst{T: t, V: v}
		dt := "." + t.Src() + "." + litClass(v)
		for _, op := range append(append([]string{}, arith...), "/", "%") {
			one1("neg-literal-operand."+op+dt, []Type{t}, nil, []Stmt{Return{X: []Expr{Bin{Op: op, L: a, R: c}}}})
			if op == "/" || op == "%" {
				one1("neg-literal-operand."+op+dt, []Type{t}, nil, []Stmt{Return{X: []Expr{Bin{Op: op, L: c, R: Bin{Op: "|", L: b, R: one(t)}}}}})
			} else {
				one1("neg-literal-operand."+op+dt, []Type{t}, nil, []Stmt{Return{X: []Expr{Bin{Op: op, L: c, R: b}}}})
			}
		}
		for _, op := range cmps {
			one1("neg-literal-compare."+op+dt, []Type{BoolT, BoolT}, nil, []Stmt{Return{X: []Expr{Bin{Op: op, L: a, R: c}, Bin{Op: op, L: c, R: b}}}})
		}
		one1("neg-literal-store"+dt, []Type{t, t}, nil, []Stmt{Define{Name: "x", X: a}, VarInit{Name: "y", T: t, X: c},
			If{Cond: Bin{Op: "<", L: a, R: b}, Then: []Stmt{Assign{Name: "x", X: c}}, Else: []Stmt{Assign{Name: "y", X: b}}}, Return{X: []Expr{x, Var{Name: "y"}}}})
		g := Func{Name: "g", Params: []Param{{Name: "u", T: t}}, Results: []Type{t}, Body: []Stmt{
			If{Cond: Bin{Op: "<", L: Var{Name: "u"}, R: c}, Then: []Stmt{Return{X: []Expr{c}}}},
			Return{X: []Expr{Var{Name: "u"}}}}}
		one1("neg-literal-return"+dt, []Type{t}, []Func{g}, []Stmt{Return{X: []Expr{Bin{Op: "+", L: Call{Fn: "g", Args: []Expr{a}}, R: Call{Fn: "g", Args: []Expr{c}}}}}})
	}
}

// FamNamedReturn: functions with named results (assigned on some paths only, returned bare or explicitly), and
// loops bounded by len(array).
func FamNamedReturn(t Type, emit func(Gen)) {
	a, b, u, v := Var{Name: "a"}, Var{Name: "b"}, Var{Name: "u"}, Var{Name: "v"}
	h0, h1 := Var{Name: "h0"}, Var{Name: "h1"}
	f := Func{Name: "f", Params: []Param{{Name: "u", T: t}, {Name: "v", T: t}}, Results: []Type{t, t}, ResultNames: []string{"h0", "h1"}, Body: []Stmt{
		Assign{Name: "h0", X: Bin{Op: "+", L: u, R: v}},
		If{Cond: Bin{Op: "<", L: u, R: v}, Then: []Stmt{Assign{Name: "h1", X: u}}},
		Return{}}}
	g := Func{Name: "g", Params: []Param{{Name: "u", T: t}, {Name: "v", T: t}}, Results: []Type{t, BoolT}, ResultNames: []string{"h0", "h1"}, Body: []Stmt{
		If{Cond: Bin{Op: "==", L: u, R: v}, Then: []Stmt{Return{}}},
		Assign{Name: "h0", X: Bin{Op: "^", L: u, R: v}},
		If{Cond: Bin{Op: ">", L: h0, R: v}, Then: []Stmt{Assign{Name: "h1", X: Const{T: BoolT, V: 1}}, Return{X: []Expr{Bin{Op: "+", L: h0, R: one(t)}, h1}}}},
		Return{}}}
	for _, ar := range [][]Expr{{a, b}, {b, a}, {a, a}} {
		emit(Gen{"named-return", &Program{Funcs: []Func{f, mainFn(ab(t), []Type{t, t}, []Stmt{
			MultiAssign{Names: []string{"p", "q"}, Define: true, C: Call{Fn: "f", Args: ar}},
			Return{X: []Expr{Bin{Op: "+", L: Var{Name: "p"}, R: a}, Var{Name: "q"}}}})}}})
		emit(Gen{"named-return", &Program{Funcs: []Func{g, mainFn(ab(t), []Type{t, BoolT}, []Stmt{
			MultiAssign{Names: []string{"p", "q"}, Define: true, C: Call{Fn: "g", Args: ar}},
			Return{X: []Expr{Var{Name: "p"}, Var{Name: "q"}}}})}}})
		emit(Gen{"named-return", &Program{Funcs: []Func{f, mainFn(ab(t), []Type{t, t}, []Stmt{Return{X: []Expr{Call{Fn: "f", Args: ar}}}})}}})
	}
	for n := 1; n <= 4; n++ {
		at := t
		at.N = n
		arr := Var{Name: "arr"}
		body := []Stmt{
			VarDecl{Name: "arr", T: at},
			For{Var: "i", From: 0, To: int64(n), ToLen: "arr", Body: []Stmt{Assign{Name: "arr", Idx: Var{Name: "i"}, X: Bin{Op: "+", L: a, R: Cast{T: t, X: Var{Name: "i"}}}}}},
			VarDecl{Name: "s", T: t},
			For{Var: "i", From: 0, To: int64(n), ToLen: "arr", Body: []Stmt{Assign{Name: "s", X: Bin{Op: "+", L: Var{Name: "s"}, R: Bin{Op: "^", L: Index{A: arr, Idx: Var{Name: "i"}}, R: b}}}}},
			Return{X: []Expr{Var{Name: "s"}}},
		}
		emit(Gen{"len-array", &Program{Funcs: []Func{mainFn(ab(t), []Type{t}, body)}}})
	}
}

// FamNested: aggregates inside aggregates - arrays of arrays, a struct with an array field, an array of structs, a
// struct inside a struct - written through every selector path, copied (value semantics) and passed to a function.
func FamNested(t Type, emit func(Gen)) {
	a, b := Var{Name: "a"}, Var{Name: "b"}
	lit := func(v int64) Expr { return Lit{V: v} }
	ct := func(name string) Expr { return Cast{T: t, X: Var{Name: name}} }
	// 1. array of arrays
	row := t
	row.N = 3
	mt := ArrayOf(2, row)
	m := Var{Name: "m"}
	mij := func(i, j Expr) Expr { return Index{A: Index{A: m, Idx: i}, Idx: j} }
	fillM := []Stmt{VarDecl{Name: "m", T: mt},
		For{Var: "i", From: 0, To: 2, Body: []Stmt{For{Var: "j", From: 0, To: 3, Body: []Stmt{
			Assign{Name: "m", Path: []Sel{{Idx: Var{Name: "i"}}, {Idx: Var{Name: "j"}}}, X: Bin{Op: "+", L: Bin{Op: "+", L: a, R: ct("i")}, R: Bin{Op: "*", L: b, R: ct("j")}}}}}}}}
	for i := int64(0); i < 2; i++ {
		for j := int64(0); j < 3; j++ {
			body := append(append([]Stmt{}, fillM...),
				Assign{Name: "m", Path: []Sel{{Idx: lit(i)}, {Idx: lit(j)}}, X: Bin{Op: "^", L: a, R: b}},
				Define{Name: "r", X: Index{A: m, Idx: lit(i)}},
				Assign{Name: "r", Idx: lit((j + 1) % 3), X: b},
				Return{X: []Expr{mij(lit(i), lit(j)), mij(lit(i), lit((j+1)%3)), Index{A: Var{Name: "r"}, Idx: lit((j + 1) % 3)}, mij(lit(1-i), lit(j))}})
			emit(Gen{"nested-array-of-arrays", &Program{Funcs: []Func{mainFn(ab(t), []Type{t, t, t, t}, body)}}})
		}
	}
	// whole row assigned, then summed
	body := append(append([]Stmt{}, fillM...),
		Assign{Name: "m", Idx: lit(0), X: Index{A: m, Idx: lit(1)}},
		Assign{Name: "m", Path: []Sel{{Idx: lit(1)}, {Idx: lit(2)}}, X: a},
		VarDecl{Name: "s", T: t},
		For{Var: "i", From: 0, To: 2, Body: []Stmt{For{Var: "j", From: 0, To: 3, Body: []Stmt{
			Assign{Name: "s", X: Bin{Op: "+", L: Bin{Op: "<<", L: Var{Name: "s"}, R: Lit{V: 1}}, R: mij(Var{Name: "i"}, Var{Name: "j"})}}}}}},
		Return{X: []Expr{Var{Name: "s"}, mij(lit(0), lit(2))}})
	emit(Gen{"nested-array-of-arrays", &Program{Funcs: []Func{mainFn(ab(t), []Type{t, t}, body)}}})
	// 2. struct with an array field
	vt := t
	vt.N = 3
	qt := Type{Name: "Q", Fields: []Type{t, vt, t}, Names: []string{"k", "v", "z"}}
	q, r := Var{Name: "q"}, Var{Name: "r"}
	qv := func(x Expr, i int64) Expr { return Index{A: Field{X: x, Name: "v"}, Idx: lit(i)} }
	for i := int64(0); i < 3; i++ {
		body := []Stmt{VarDecl{Name: "q", T: qt},
			Assign{Name: "q", Field: "k", X: a}, Assign{Name: "q", Field: "z", X: b},
			Assign{Name: "q", Path: []Sel{{Field: "v"}, {Idx: lit(i)}}, X: Bin{Op: "+", L: a, R: b}},
			Define{Name: "r", X: q},
			Assign{Name: "r", Path: []Sel{{Field: "v"}, {Idx: lit((i + 1) % 3)}}, X: b},
			If{Cond: Bin{Op: "<", L: a, R: b}, Then: []Stmt{Assign{Name: "q", Path: []Sel{{Field: "v"}, {Idx: lit(i)}}, X: a}}, Else: []Stmt{Assign{Name: "r", Field: "z", X: a}}},
			Return{X: []Expr{qv(q, i), qv(r, i), qv(r, (i+1)%3), qv(q, (i+1)%3), Field{X: q, Name: "k"}, Field{X: r, Name: "z"}}}}
		emit(Gen{"nested-struct-array-field", &Program{Structs: []Type{qt}, Funcs: []Func{mainFn(ab(t), []Type{t, t, t, t, t, t}, body)}}})
	}
	// 3. array of structs
	pt := Type{Name: "P", Fields: []Type{t, t}, Names: []string{"x", "y"}}
	pst := ArrayOf(2, pt)
	ps := Var{Name: "ps"}
	pf := func(i int64, f string) Expr { return Field{X: Index{A: ps, Idx: lit(i)}, Name: f} }
	for i := int64(0); i < 2; i++ {
		body := []Stmt{VarDecl{Name: "ps", T: pst},
			Assign{Name: "ps", Path: []Sel{{Idx: lit(i)}, {Field: "x"}}, X: a},
			Assign{Name: "ps", Path: []Sel{{Idx: lit(1 - i)}, {Field: "y"}}, X: b},
			Assign{Name: "ps", Path: []Sel{{Idx: lit(1 - i)}, {Field: "x"}}, X: Bin{Op: "+", L: pf(i, "x"), R: b}},
			Define{Name: "u", X: Index{A: ps, Idx: lit(1 - i)}},
			Assign{Name: "u", Field: "x", X: Bin{Op: "^", L: a, R: b}},
			For{Var: "i", From: 0, To: 2, Body: []Stmt{Assign{Name: "ps", Path: []Sel{{Idx: Var{Name: "i"}}, {Field: "y"}}, X: Bin{Op: "+", L: Field{X: Index{A: ps, Idx: Var{Name: "i"}}, Name: "y"}, R: ct("i")}}}},
			Return{X: []Expr{pf(0, "x"), pf(0, "y"), pf(1, "x"), pf(1, "y"), Field{X: Var{Name: "u"}, Name: "x"}}}}
		emit(Gen{"nested-array-of-structs", &Program{Structs: []Type{pt}, Funcs: []Func{mainFn(ab(t), []Type{t, t, t, t, t}, body)}}})
	}
	// 4. struct inside a struct, passed to a function that modifies its copy
	rt := Type{Name: "R", Fields: []Type{pt, t}, Names: []string{"p", "z"}}
	rp := func(x Expr, f string) Expr { return Field{X: Field{X: x, Name: "p"}, Name: f} }
	f := Func{Name: "f", Params: []Param{{Name: "w", T: rt}, {Name: "k", T: t}}, Results: []Type{t}, Body: []Stmt{
		Assign{Name: "w", Path: []Sel{{Field: "p"}, {Field: "y"}}, X: Bin{Op: "+", L: rp(Var{Name: "w"}, "y"), R: Var{Name: "k"}}},
		Return{X: []Expr{Bin{Op: "^", L: rp(Var{Name: "w"}, "y"), R: Field{X: Var{Name: "w"}, Name: "z"}}}}}}
	body = []Stmt{VarDecl{Name: "r", T: rt},
		Assign{Name: "r", Path: []Sel{{Field: "p"}, {Field: "x"}}, X: a},
		Assign{Name: "r", Field: "z", X: b},
		Assign{Name: "r", Path: []Sel{{Field: "p"}, {Field: "y"}}, X: Bin{Op: "^", L: rp(r, "x"), R: b}},
		Define{Name: "g", X: Call{Fn: "f", Args: []Expr{r, a}}},
		Define{Name: "c", X: Field{X: r, Name: "p"}},
		Assign{Name: "c", Field: "x", X: b},
		Return{X: []Expr{rp(r, "x"), rp(r, "y"), Field{X: r, Name: "z"}, Var{Name: "g"}, Field{X: Var{Name: "c"}, Name: "x"}}}}
	emit(Gen{"nested-struct-in-struct", &Program{Structs: []Type{pt, rt}, Funcs: []Func{f, mainFn(ab(t), []Type{t, t, t, t, t}, body)}}})
}

// FamCompLit: composite literals - two literals of one type with different (and with equal) elements, a literal
// modified after another was made from the same constants, literals copied, passed and indexed.
func FamCompLit(t Type, emit func(Gen)) {
	a, b := Var{Name: "a"}, Var{Name: "b"}
	m := int64(1)<<uint(min(t.W-1, 3)) - 1
	st := Type{Name: "P", Fields: []Type{t, t}, Names: []string{"x", "y"}}
	at := t
	at.N = 3
	p, q := Var{Name: "p"}, Var{Name: "q"}
	sLits := [][2][]int64{{{1 & m, 2 & m}, {3 & m, 4 & m}}, {{1 & m, 2 & m}, {1 & m, 2 & m}}, {{0, m}, {m, 0}}}
	for _, l := range sLits {
		prog := func(body []Stmt, rts []Type) {
			emit(Gen{"composite-literal-struct", &Program{Structs: []Type{st}, Funcs: []Func{mainFn(ab(t), rts, body)}}})
		}
		prog([]Stmt{Define{Name: "p", X: CompLit{T: st, Vals: l[0]}}, Define{Name: "q", X: CompLit{T: st, Vals: l[1]}},
			Return{X: []Expr{Bin{Op: "+", L: Bin{Op: "+", L: Field{X: p, Name: "y"}, R: Field{X: q, Name: "y"}}, R: a}, Bin{Op: "^", L: Field{X: p, Name: "x"}, R: Bin{Op: "+", L: Field{X: q, Name: "x"}, R: b}}}}}, []Type{t, t})
		prog([]Stmt{Define{Name: "p", X: CompLit{T: st, Vals: l[0]}}, Assign{Name: "p", Field: "x", X: a}, Define{Name: "q", X: CompLit{T: st, Vals: l[1]}},
			If{Cond: Bin{Op: "<", L: a, R: b}, Then: []Stmt{Assign{Name: "q", Field: "y", X: b}}},
			Return{X: []Expr{Field{X: p, Name: "x"}, Field{X: p, Name: "y"}, Field{X: q, Name: "x"}, Field{X: q, Name: "y"}}}}, []Type{t, t, t, t})
	}
	// two long array literals that agree in a long prefix and differ in the tail, read by a run-time index
	if t.W >= 7 {
		for _, n := range []int{33, 64} {
			lt := t
			lt.N = n
			var pv, qv []int64
			for i := 0; i < n; i++ {
				v := int64(i*5+1) & m
				pv = append(pv, v)
				if i >= 32 {
					v ^= 1
				}
				qv = append(qv, v)
			}
			mask := int64(63)
			if n == 33 {
				mask = 32
			}
			idx := Bin{Op: "&", L: b, R: UConst{T: t, V: mask}}
			emit(Gen{"composite-literal-long-array", &Program{Funcs: []Func{mainFn(ab(t), []Type{t, t}, []Stmt{
				Define{Name: "p", X: CompLit{T: lt, Vals: pv}}, Define{Name: "q", X: CompLit{T: lt, Vals: qv}},
				Return{X: []Expr{Bin{Op: "+", L: Index{A: p, Idx: idx}, R: a}, Index{A: q, Idx: idx}}}})}}})
		}
	}
	aLits := [][2][]int64{{{1 & m, 2 & m, 3 & m}, {4 & m, 5 & m, 6 & m}}, {{1 & m, 2 & m, 3 & m}, {1 & m, 2 & m, 3 & m}}, {{m, 0, m}, {0, m, 0}}}
	for _, l := range aLits {
		prog := func(body []Stmt, rts []Type) {
			emit(Gen{"composite-literal-array", &Program{Funcs: []Func{mainFn(ab(t), rts, body)}}})
		}
		prog([]Stmt{Define{Name: "p", X: CompLit{T: at, Vals: l[0]}}, Define{Name: "q", X: CompLit{T: at, Vals: l[1]}},
			Return{X: []Expr{Bin{Op: "+", L: Bin{Op: "+", L: Index{A: p, Idx: Lit{V: 1}}, R: Index{A: q, Idx: Lit{V: 1}}}, R: a}, Bin{Op: "^", L: Index{A: p, Idx: Lit{V: 2}}, R: Bin{Op: "+", L: Index{A: q, Idx: Lit{V: 0}}, R: b}}}}}, []Type{t, t})
		prog([]Stmt{Define{Name: "p", X: CompLit{T: at, Vals: l[0]}}, Assign{Name: "p", Idx: Lit{V: 0}, X: a}, Define{Name: "q", X: CompLit{T: at, Vals: l[1]}},
			For{Var: "i", From: 0, To: 3, Body: []Stmt{Assign{Name: "q", Idx: Var{Name: "i"}, X: Bin{Op: "+", L: Index{A: q, Idx: Var{Name: "i"}}, R: Index{A: p, Idx: Var{Name: "i"}}}}}},
			Return{X: []Expr{Index{A: p, Idx: Lit{V: 0}}, Index{A: q, Idx: Lit{V: 0}}, Index{A: q, Idx: Lit{V: 1}}, Index{A: q, Idx: Lit{V: 2}}}}}, []Type{t, t, t, t})
	}
}

// FamCall: helper functions with 1..3 results, arguments aliasing the same variable.
func FamCall(t Type, emit func(Gen)) {
	a, b, u, v := Var{Name: "a"}, Var{Name: "b"}, Var{Name: "u"}, Var{Name: "v"}
	f1 := Func{Name: "f1", Params: []Param{{Name: "u", T: t}, {Name: "v", T: t}}, Results: []Type{t}, Body: []Stmt{
		If{Cond: Bin{Op: "<", L: u, R: v}, Then: []Stmt{Return{X: []Expr{Bin{Op: "-", L: v, R: u}}}}},
		Return{X: []Expr{Bin{Op: "+", L: u, R: v}}}}}
	f2 := Func{Name: "f2", Params: []Param{{Name: "u", T: t}, {Name: "v", T: t}}, Results: []Type{t, t}, Body: []Stmt{
		Assign{Name: "u", X: Bin{Op: "+", L: u, R: v}},
		Return{X: []Expr{u, Bin{Op: "^", L: u, R: v}}}}}
	f3 := Func{Name: "f3", Params: []Param{{Name: "u", T: t}, {Name: "v", T: t}}, Results: []Type{t, BoolT, t}, Body: []Stmt{
		Return{X: []Expr{Bin{Op: "*", L: u, R: v}, Bin{Op: ">", L: u, R: v}, Call{Fn: "f1", Args: []Expr{v, u}}}}}}
	args := [][]Expr{{a, b}, {a, a}, {b, a}, {Bin{Op: "+", L: a, R: b}, a}}
	for _, ar := range args {
		emit(Gen{"call", &Program{Funcs: []Func{f1, mainFn(ab(t), []Type{t}, []Stmt{Return{X: []Expr{Bin{Op: "+", L: Call{Fn: "f1", Args: ar}, R: b}}}})}}})
		emit(Gen{"call", &Program{Funcs: []Func{f2, mainFn(ab(t), []Type{t, t}, []Stmt{
			MultiAssign{Names: []string{"p", "q"}, Define: true, C: Call{Fn: "f2", Args: ar}},
			Return{X: []Expr{Bin{Op: "+", L: Var{Name: "p"}, R: a}, Var{Name: "q"}}}})}}})
		emit(Gen{"call", &Program{Funcs: []Func{f1, f3, mainFn(ab(t), []Type{t, BoolT, t}, []Stmt{
			MultiAssign{Names: []string{"p", "q", "r"}, Define: true, C: Call{Fn: "f3", Args: ar}},
			If{Cond: Var{Name: "q"}, Then: []Stmt{Assign{Name: "p", X: Bin{Op: "+", L: Var{Name: "p"}, R: Var{Name: "r"}}}}},
			Return{X: []Expr{Var{Name: "p"}, Var{Name: "q"}, Var{Name: "r"}}}})}}})
		// results assigned to existing variables, arguments overwritten
		emit(Gen{"call", &Program{Funcs: []Func{f2, mainFn(ab(t), []Type{t, t}, []Stmt{
			Define{Name: "p", X: a}, Define{Name: "q", X: b},
			MultiAssign{Names: []string{"q", "p"}, C: Call{Fn: "f2", Args: ar}},
			Return{X: []Expr{Var{Name: "p"}, Var{Name: "q"}}}})}}})
	}
}

// FamGlobals: package-level constants and variables, shadowed by main's locals and arguments, around an if.
func FamGlobals(t Type, emit func(Gen)) {
	a, b, g := Var{Name: "a"}, Var{Name: "b"}, Var{Name: "g"}
	glob := []Global{{Name: "g", T: t, V: 5 % (1 << uint(min(t.W, 3)))}, {Const: true, Name: "K", T: t, V: 3 % (1 << uint(min(t.W, 2)))}}
	K := Var{Name: "K"}
	ifs := []Stmt{
		If{Cond: Bin{Op: "<", L: a, R: b}, Then: []Stmt{Assign{Name: "g", X: Bin{Op: "+", L: g, R: a}}}, Else: []Stmt{Assign{Name: "g", X: Bin{Op: "-", L: g, R: b}}}},
		If{Cond: Bin{Op: "<", L: a, R: b}, Then: []Stmt{Assign{Name: "g", X: Bin{Op: "+", L: g, R: a}}}},
		If{Cond: Bin{Op: "==", L: a, R: b}, Then: []Stmt{VarInit{Name: "g", T: t, X: b}, Assign{Name: "g", X: Bin{Op: "+", L: g, R: g}}}, Else: []Stmt{Assign{Name: "g", X: Bin{Op: "^", L: g, R: b}}}},
	}
	for si, st := range ifs {
		sfx := ""
		if si == 2 {
			sfx = "-branch-shadow"
		}
		// local shadowing a package-level variable
		emit(Gen{"globals-shadow-local" + sfx, &Program{Globals: glob, Funcs: []Func{mainFn(ab(t), []Type{t}, []Stmt{
			VarInit{Name: "g", T: t, X: Bin{Op: "+", L: a, R: K}}, st, Return{X: []Expr{Bin{Op: "+", L: g, R: b}}}})}}})
		// argument shadowing a package-level variable
		emit(Gen{"globals-shadow-argument" + sfx, &Program{Globals: glob, Funcs: []Func{mainFn([]Param{{Name: "g", T: t}, {Name: "b", T: t}}, []Type{t},
			[]Stmt{Define{Name: "a", X: Bin{Op: "+", L: g, R: K}}, st, Return{X: []Expr{Bin{Op: "+", L: g, R: a}}}})}}})
		// no shadowing: the package-level variable itself is read
		emit(Gen{"globals-read", &Program{Globals: glob, Funcs: []Func{mainFn(ab(t), []Type{t}, []Stmt{
			Define{Name: "h", X: Bin{Op: "+", L: g, R: a}},
			If{Cond: Bin{Op: "<", L: a, R: b}, Then: []Stmt{Assign{Name: "h", X: Bin{Op: "+", L: Var{Name: "h"}, R: K}}}, Else: []Stmt{Assign{Name: "h", X: Bin{Op: "-", L: Var{Name: "h"}, R: g}}}},
			Return{X: []Expr{Bin{Op: "+", L: Var{Name: "h"}, R: g}}}})}}})
	}
}

func min(a, b int) int {
	if a < b {
		return a
	}
	return b
}

// FamMixedCmp: comparisons between operands of one signedness and DIFFERENT widths (the compiler widens the
// narrower operand: by its sign for signed operands).
func FamMixedCmp(t, u Type, emit func(Gen)) {
	a, b := Var{Name: "a"}, Var{Name: "b"}
	params := []Param{{Name: "a", T: t}, {Name: "b", T: u}}
	for _, ops := range [][2]string{{"==", "!="}, {"<", ">="}, {"<=", ">"}} {
		emit(Gen{Fam: "cmp-mixed-width", P: &Program{Funcs: []Func{mainFn(params, []Type{BoolT, BoolT}, []Stmt{
			Return{X: []Expr{Bin{Op: ops[0], L: a, R: b}, Bin{Op: ops[1], L: a, R: b}}},
		})}}})
	}
}

// TypesFor returns the operand types of the expression family.
func TypesFor(quick bool) []Type {
	ws := []int{1, 2, 3, 4, 7, 8, 9, 16, 31, 32, 33, 64, 65, 128}
	if !quick {
		ws = []int{1, 2, 3, 4, 5, 7, 8, 9, 15, 16, 17, 31, 32, 33, 63, 64, 65, 127, 128, 129, 130}
	}
	var ts []Type
	for _, w := range ws {
		ts = append(ts, Uint(w))
		if w > 1 {
			ts = append(ts, Int(w))
		}
	}
	return ts
}

// Statements enumerates the statement-level families (if-else, if-nest, loop, array, call,
// globals, struct) for the given tier.
func Statements(quick bool, emit func(Gen)) {
	stmtTypes := []Type{Uint(3), Int(3), Uint(8)}
	if !quick {
		stmtTypes = []Type{Uint(2), Uint(3), Int(3), Uint(4), Int(4), Uint(8), Int(8), Uint(33), Int(65)}
	}
	for _, t := range stmtTypes {
		FamIf(t, emit)
		FamLoop(t, emit)
		FamNestedLoop(t, emit)
		FamArray(t, emit)
		FamCall(t, emit)
		FamCompLit(t, emit)
		FamNested(t, emit)
		FamNamedReturn(t, emit)
		FamGlobals(t, emit)
	}
	nestTypes := []Type{Uint(3)}
	if !quick {
		nestTypes = []Type{Uint(2), Uint(3), Int(4), Uint(8)}
	}
	for _, t := range nestTypes {
		FamIfNest(t, emit)
	}
	for _, tu := range [][2]Type{{Uint(3), Uint(5)}, {Int(4), Int(2)}, {Uint(8), Uint(3)}} {
		FamStruct(tu[0], tu[1], emit)
	}
	storeTypes := []Type{Uint(8), Uint(33), Uint(64), Int(64)}
	if !quick {
		storeTypes = []Type{Uint(5), Uint(8), Int(16), Uint(32), Uint(33), Int(40), Uint(64), Int(64), Uint(65), Uint(100), Int(128)}
	}
	for _, t := range storeTypes {
		FamConstStore(t, emit)
		FamConstFlow(t, emit)
	}
	mixed := [][2]Type{{Int(3), Int(8)}, {Int(8), Int(3)}, {Int(8), Int(16)}, {Uint(3), Uint(8)}}
	if !quick {
		mixed = append(mixed, [2]Type{Int(16), Int(33)}, [2]Type{Int(33), Int(16)}, [2]Type{Int(33), Int(65)}, [2]Type{Int(64), Int(65)}, [2]Type{Int(65), Int(8)}, [2]Type{Uint(8), Uint(33)}, [2]Type{Uint(65), Uint(64)})
	}
	for _, tu := range mixed {
		FamMixedCmp(tu[0], tu[1], emit)
	}
	negTypes := []Type{Uint(8), Int(8), Int(16), Int(64)}
	if !quick {
		negTypes = []Type{Uint(3), Uint(8), Uint(33), Int(4), Int(8), Int(16), Int(32), Int(33), Int(40), Int(64), Int(65), Int(128)}
	}
	for _, t := range negTypes {
		FamNegOps(t, emit)
	}
}

// Casts enumerates the cast family.
func Casts(quick bool, emit func(Gen)) {
	cw := []int{1, 3, 4, 8, 9, 16, 32, 33, 64, 65}
	for _, signed := range []bool{false, true} {
		for _, w1 := range cw {
			for _, w2 := range cw {
				if w1 == w2 || (signed && (w1 == 1 || w2 == 1)) {
					continue
				}
				if quick && (w1 > 16 && w2 > 16) && (w1+w2)%3 != 0 {
					continue
				}
				FamCast(Type{Signed: signed, W: w1}, Type{Signed: signed, W: w2}, emit)
			}
		}
	}
	for _, w := range []int{4, 8, 33, 64, 65} {
		FamCast(Uint(w), Int(w), emit)
		FamCast(Int(w), Uint(w), emit)
	}
}

// All enumerates every family in the order C03 uses.
func All(quick bool, emit func(Gen)) {
	for _, t := range TypesFor(quick) {
		FamExpr(t, emit)
	}
	Casts(quick, emit)
	Statements(quick, emit)
}
