// Package refsem is the reference semantics of the MPCL subset whose meaning
// is fixed by the documentation (Go semantics) and by the repository's own
// annotated test programs: a small AST, a printer to MPCL source and an
// interpreter over fixed-width bit patterns. Every rule names its source.
package refsem

import (
	"fmt"
	"math/big"
	"strings"
)

// Rules lists the semantic rules and what pins each of them.
var Rules = []string{
	"+ - * wrap modulo 2^w for intN and uintN (Go, per README; testsuite/lang/add.mpcl, sub.mpcl, mult.mpcl)",
	"/ truncates toward zero (Go; testsuite/lang/divi.mpcl, divu.mpcl); divisor non-zero only",
	"% on signed operands is |a| mod |b| (testsuite/lang/modi.mpcl pins -42 % 4 = 2; NewIDivider doc comment); unsigned % as usual (modu.mpcl)",
	"comparisons are signed for intN and unsigned for uintN (testsuite/lang/test_lt.mpcl, test_gt.mpcl, test_le.mpcl, test_ge.mpcl)",
	"<< and >> by constants smaller than the width; >> is arithmetic on intN and logical on uintN (testsuite/lang/rshift0.mpcl, rshift1.mpcl, lshift0.mpcl)",
	"&, |, ^ bitwise; &&, ||, ! on bool (Go)",
	"casts: narrowing truncates, widening of the same signedness sign-/zero-extends, same-width reinterprets (Go); mixed-sign widening is NOT generated (MPCL deviates from Go and nothing pins it)",
	"if/else with early return, block scoping and shadowing by := (Go; testsuite/lang/var*.mpcl, assign2.mpcl)",
	"for i := c0; i < c1; i++ with constant bounds is unrolled (testsuite/lang/for.mpcl)",
	"arrays and structs have value semantics; constant and in-range dynamic indices (Go; testsuite/lang/array.mpcl, composite_lit.mpcl)",
	"functions with several results (Go; testsuite/lang/named_return*.mpcl)",
	"package-level constants and variables, shadowed by locals (Go; testsuite/lang/pkg.mpcl, var.mpcl)",
	"an untyped integer literal takes the type of its context (assignment target, other operand, parameter, result) (Go constants; README 'constants are untyped')",
	"composite literals of structs and arrays with constant elements are values like any other (Go; testsuite/lang/composite_lit.mpcl)",
	"named results are variables initialised to zero and returned by a bare return (Go; testsuite/lang/named_return*.mpcl); len(array) is the declared length (testsuite/lang/len_array.mpcl)",
	"unary minus is 0 - x in the operand's type; x op= e is x = x op e; x++ / x-- add / subtract one (Go)",
}

// Type is a scalar, array or struct type.
type Type struct {
	Bool   bool
	Signed bool
	W      int
	N      int      // array length (0: not an array); element type = scalar part
	Fields []Type   // struct fields (scalars)
	Names  []string // struct field names
	Name   string   // struct type name
	// Of, if set, makes this an array of N elements of type *Of (any type: arrays of arrays, arrays of structs)
	Of *Type
}

// ArrayOf returns the type [n]elem.
func ArrayOf(n int, elem Type) Type { e := elem; return Type{N: n, Of: &e} }

// Bits returns the size in bits.
func (t Type) Bits() int {
	if t.Of != nil {
		return t.N * t.Of.Bits()
	}
	if len(t.Fields) > 0 {
		n := 0
		for _, f := range t.Fields {
			n += f.Bits()
		}
		return n
	}
	w := t.W
	if t.Bool {
		w = 1
	}
	if t.N > 0 {
		return w * t.N
	}
	return w
}

// Elem returns the element type of an array.
func (t Type) Elem() Type {
	if t.Of != nil {
		return *t.Of
	}
	e := t
	e.N = 0
	return e
}

// Src prints the type.
func (t Type) Src() string {
	if t.Of != nil {
		return fmt.Sprintf("[%d]%s", t.N, t.Of.Src())
	}
	if len(t.Fields) > 0 {
		return t.Name
	}
	s := ""
	switch {
	case t.Bool:
		s = "bool"
	case t.Signed:
		s = fmt.Sprintf("int%d", t.W)
	default:
		s = fmt.Sprintf("uint%d", t.W)
	}
	if t.N > 0 {
		return fmt.Sprintf("[%d]%s", t.N, s)
	}
	return s
}

// Int, Uint, Bool construct scalar types.
func Int(w int) Type  { return Type{Signed: true, W: w} }
func Uint(w int) Type { return Type{W: w} }

var BoolT = Type{Bool: true, W: 1}

// Value is a typed value: a bit pattern for scalars, elements otherwise.
type Value struct {
	T     Type
	P     *big.Int
	Elems []Value
}

func (v Value) clone() Value {
	c := Value{T: v.T}
	if v.P != nil {
		c.P = new(big.Int).Set(v.P)
	}
	for _, e := range v.Elems {
		c.Elems = append(c.Elems, e.clone())
	}
	return c
}

// Zero returns the zero value of a type.
func Zero(t Type) Value {
	if t.Of != nil {
		v := Value{T: t}
		for i := 0; i < t.N; i++ {
			v.Elems = append(v.Elems, Zero(*t.Of))
		}
		return v
	}
	if len(t.Fields) > 0 {
		v := Value{T: t}
		for _, f := range t.Fields {
			v.Elems = append(v.Elems, Zero(f))
		}
		return v
	}
	if t.N > 0 {
		v := Value{T: t}
		for i := 0; i < t.N; i++ {
			v.Elems = append(v.Elems, Zero(t.Elem()))
		}
		return v
	}
	return Value{T: t, P: new(big.Int)}
}

// Scalar makes a scalar value from a bit pattern (wrapped to the width).
func Scalar(t Type, p *big.Int) Value {
	return Value{T: t, P: wrap(p, t.Bits())}
}

func wrap(v *big.Int, w int) *big.Int {
	m := new(big.Int).Lsh(big.NewInt(1), uint(w))
	return new(big.Int).Mod(v, m)
}

func (v Value) signed() *big.Int {
	if v.T.Signed && v.P.Bit(v.T.W-1) == 1 {
		return new(big.Int).Sub(v.P, new(big.Int).Lsh(big.NewInt(1), uint(v.T.W)))
	}
	return new(big.Int).Set(v.P)
}

// Flatten packs the value into bits (little-endian, declaration order).
func (v Value) Flatten() *big.Int {
	res := new(big.Int)
	off := 0
	var rec func(x Value)
	rec = func(x Value) {
		if x.P != nil {
			res.Or(res, new(big.Int).Lsh(x.P, uint(off)))
			off += x.T.Bits()
			return
		}
		for _, e := range x.Elems {
			rec(e)
		}
	}
	rec(v)
	return res
}

// Unflatten builds a value of type t from packed bits.
func Unflatten(t Type, bits *big.Int) Value {
	off := 0
	var rec func(t Type) Value
	rec = func(t Type) Value {
		if t.Of != nil {
			v := Value{T: t}
			for i := 0; i < t.N; i++ {
				v.Elems = append(v.Elems, rec(*t.Of))
			}
			return v
		}
		if len(t.Fields) > 0 {
			v := Value{T: t}
			for _, f := range t.Fields {
				v.Elems = append(v.Elems, rec(f))
			}
			return v
		}
		if t.N > 0 {
			v := Value{T: t}
			for i := 0; i < t.N; i++ {
				v.Elems = append(v.Elems, rec(t.Elem()))
			}
			return v
		}
		w := t.Bits()
		p := new(big.Int).Rsh(bits, uint(off))
		off += w
		return Scalar(t, p)
	}
	return rec(t)
}

// ---- environment ----

type scope map[string]*Value

// Env is the interpreter state.
type Env struct {
	scopes []scope
	prog   *Program
	depth  int
}

func (e *Env) push() { e.scopes = append(e.scopes, scope{}) }
func (e *Env) pop()  { e.scopes = e.scopes[:len(e.scopes)-1] }
func (e *Env) declare(name string, v Value) {
	c := v.clone()
	e.scopes[len(e.scopes)-1][name] = &c
}
func (e *Env) lookup(name string) *Value {
	for i := len(e.scopes) - 1; i >= 0; i-- {
		if v, ok := e.scopes[i][name]; ok {
			return v
		}
	}
	panic("refsem: undefined " + name)
}

// ---- expressions ----

// Expr is an expression.
type Expr interface {
	Eval(e *Env) Value
	Src() string
}

// Var reads a variable.
type Var struct{ Name string }

func (x Var) Eval(e *Env) Value { return e.lookup(x.Name).clone() }
func (x Var) Src() string       { return x.Name }

// Const is a typed constant (non-negative, small).
type Const struct {
	T Type
	V int64
}

func (x Const) Eval(e *Env) Value { return Scalar(x.T, big.NewInt(x.V)) }
func (x Const) Src() string {
	if x.T.Bool {
		if x.V != 0 {
			return "true"
		}
		return "false"
	}
	return fmt.Sprintf("%s(%d)", x.T.Src(), x.V)
}

// BigConst is a typed non-negative constant of any size, written T(0x...).
type BigConst struct {
	T Type
	V *big.Int
}

func (x BigConst) Eval(e *Env) Value { return Scalar(x.T, new(big.Int).Set(x.V)) }
func (x BigConst) Src() string       { return fmt.Sprintf("%s(0x%x)", x.T.Src(), x.V) }

// CompLit is a composite literal of a struct or array type with constant scalar elements: P{1, 2}, [3]uint8{1, 2, 3}.
type CompLit struct {
	T    Type
	Vals []int64
}

func (x CompLit) Eval(e *Env) Value {
	v := Zero(x.T)
	for i := range v.Elems {
		if i < len(x.Vals) {
			v.Elems[i] = Scalar(v.Elems[i].T, big.NewInt(x.Vals[i]))
		}
	}
	return v
}
func (x CompLit) Src() string {
	var parts []string
	for _, v := range x.Vals {
		parts = append(parts, fmt.Sprint(v))
	}
	return x.T.Src() + "{" + strings.Join(parts, ", ") + "}"
}

// UConst is an untyped non-negative integer literal written where a value of type T is expected (an assignment
// to, or an operation with, a T): the literal takes that type (language: untyped constants convert to the
// type of the context).
type UConst struct {
	T Type
	V int64
}

func (x UConst) Eval(e *Env) Value { return Scalar(x.T, big.NewInt(x.V)) }
func (x UConst) Src() string       { return fmt.Sprint(x.V) }

// Lit is an untyped small constant (used for shift counts and loop bounds).
type Lit struct{ V int64 }

func (x Lit) Eval(e *Env) Value { return Scalar(Int(32), big.NewInt(x.V)) }
func (x Lit) Src() string       { return fmt.Sprint(x.V) }

// Bin is a binary operation on operands of one type.
type Bin struct {
	Op   string
	L, R Expr
}

func (x Bin) Src() string { return "(" + x.L.Src() + " " + x.Op + " " + x.R.Src() + ")" }

func b2v(b bool) Value {
	if b {
		return Scalar(BoolT, big.NewInt(1))
	}
	return Scalar(BoolT, big.NewInt(0))
}

func (x Bin) Eval(e *Env) Value {
	l := x.L.Eval(e)
	if x.Op == "&&" {
		if l.P.Sign() == 0 {
			return b2v(false)
		}
		return b2v(x.R.Eval(e).P.Sign() != 0)
	}
	if x.Op == "||" {
		if l.P.Sign() != 0 {
			return b2v(true)
		}
		return b2v(x.R.Eval(e).P.Sign() != 0)
	}
	r := x.R.Eval(e)
	t := l.T
	switch x.Op {
	case "+":
		return Scalar(t, new(big.Int).Add(l.P, r.P))
	case "-":
		return Scalar(t, new(big.Int).Sub(l.P, r.P))
	case "*":
		return Scalar(t, new(big.Int).Mul(l.P, r.P))
	case "&":
		return Scalar(t, new(big.Int).And(l.P, r.P))
	case "|":
		return Scalar(t, new(big.Int).Or(l.P, r.P))
	case "^":
		return Scalar(t, new(big.Int).Xor(l.P, r.P))
	case "/":
		if r.P.Sign() == 0 {
			panic("refsem: division by zero")
		}
		return Scalar(t, new(big.Int).Quo(l.signed(), r.signed()))
	case "%":
		if r.P.Sign() == 0 {
			panic("refsem: division by zero")
		}
		if t.Signed {
			return Scalar(t, new(big.Int).Rem(new(big.Int).Abs(l.signed()), new(big.Int).Abs(r.signed())))
		}
		return Scalar(t, new(big.Int).Rem(l.P, r.P))
	case "<<":
		return Scalar(t, new(big.Int).Lsh(l.P, uint(r.P.Int64())))
	case ">>":
		// arithmetic for signed (big.Int.Rsh floors), logical for unsigned
		return Scalar(t, new(big.Int).Rsh(l.signed(), uint(r.P.Int64())))
	case "<":
		return b2v(l.signed().Cmp(r.signed()) < 0)
	case "<=":
		return b2v(l.signed().Cmp(r.signed()) <= 0)
	case ">":
		return b2v(l.signed().Cmp(r.signed()) > 0)
	case ">=":
		return b2v(l.signed().Cmp(r.signed()) >= 0)
	case "==":
		// by value (operands of one signedness and possibly different widths)
		return b2v(l.signed().Cmp(r.signed()) == 0)
	case "!=":
		return b2v(l.signed().Cmp(r.signed()) != 0)
	}
	panic("refsem: op " + x.Op)
}

// Neg is unary minus: 0 - x in the type of x.
type Neg struct{ X Expr }

func (x Neg) Eval(e *Env) Value {
	v := x.X.Eval(e)
	return Scalar(v.T, new(big.Int).Neg(v.P))
}
func (x Neg) Src() string { return "(-" + x.X.Src() + ")" }

// Not is boolean negation.
type Not struct{ X Expr }

func (x Not) Eval(e *Env) Value { return b2v(x.X.Eval(e).P.Sign() == 0) }
func (x Not) Src() string       { return "!" + x.X.Src() }

// Cast converts between integer types.
type Cast struct {
	T Type
	X Expr
}

func (x Cast) Eval(e *Env) Value {
	v := x.X.Eval(e)
	return Scalar(x.T, v.signed()) // sign-/zero-extension by interpreting the source, then wrap
}
func (x Cast) Src() string { return x.T.Src() + "(" + x.X.Src() + ")" }

// Index reads arr[idx].
type Index struct {
	A   Expr
	Idx Expr
}

func (x Index) Eval(e *Env) Value {
	a := x.A.Eval(e)
	i := int(x.Idx.Eval(e).P.Int64())
	if i < 0 || i >= len(a.Elems) {
		panic("refsem: index out of range (generator bug)")
	}
	return a.Elems[i].clone()
}
func (x Index) Src() string { return x.A.Src() + "[" + x.Idx.Src() + "]" }

// Field reads x.f.
type Field struct {
	X    Expr
	Name string
}

func (x Field) Eval(e *Env) Value {
	v := x.X.Eval(e)
	for i, n := range v.T.Names {
		if n == x.Name {
			return v.Elems[i].clone()
		}
	}
	panic("refsem: field " + x.Name)
}
func (x Field) Src() string { return x.X.Src() + "." + x.Name }

// Call calls a function and yields its first result (use MultiAssign for several).
type Call struct {
	Fn   string
	Args []Expr
}

func (x Call) evalAll(e *Env) []Value {
	f := e.prog.fn(x.Fn)
	var args []Value
	for _, a := range x.Args {
		args = append(args, a.Eval(e))
	}
	return e.prog.call(f, args, e.depth+1)
}
func (x Call) Eval(e *Env) Value { return x.evalAll(e)[0] }
func (x Call) Src() string {
	var a []string
	for _, v := range x.Args {
		a = append(a, v.Src())
	}
	return x.Fn + "(" + strings.Join(a, ", ") + ")"
}

// ---- statements ----

// Stmt is a statement; Exec reports whether the function returned.
type Stmt interface {
	Exec(e *Env) (bool, []Value)
	Src(indent string) string
}

// Define is x := e.
type Define struct {
	Name string
	X    Expr
}

func (s Define) Exec(e *Env) (bool, []Value) { e.declare(s.Name, s.X.Eval(e)); return false, nil }
func (s Define) Src(in string) string        { return in + s.Name + " := " + s.X.Src() + "\n" }

// VarInit is var x T = e (the declaration form that shadows in MPCL; := does not).
type VarInit struct {
	Name string
	T    Type
	X    Expr
}

func (s VarInit) Exec(e *Env) (bool, []Value) { e.declare(s.Name, s.X.Eval(e)); return false, nil }
func (s VarInit) Src(in string) string {
	return in + "var " + s.Name + " " + s.T.Src() + " = " + s.X.Src() + "\n"
}

// VarDecl is var x T.
type VarDecl struct {
	Name string
	T    Type
}

func (s VarDecl) Exec(e *Env) (bool, []Value) { e.declare(s.Name, Zero(s.T)); return false, nil }
func (s VarDecl) Src(in string) string        { return in + "var " + s.Name + " " + s.T.Src() + "\n" }

// Assign is lhs = e where lhs is a variable, arr[idx] or x.f.
// Sel is one selector step of an assignment target: [Idx] or .Field.
type Sel struct {
	Idx   Expr
	Field string
}

type Assign struct {
	Name  string
	Idx   Expr   // optional (single step)
	Field string // optional (single step)
	Path  []Sel  // optional: several steps, e.g. m[i][j], ps[1].x, q.v[2] (used instead of Idx/Field)
	X     Expr
}

func (s Assign) steps() []Sel {
	if len(s.Path) > 0 {
		return s.Path
	}
	var p []Sel
	if s.Idx != nil {
		p = append(p, Sel{Idx: s.Idx})
	}
	if s.Field != "" {
		p = append(p, Sel{Field: s.Field})
	}
	return p
}

func (s Assign) Exec(e *Env) (bool, []Value) {
	v := s.X.Eval(e)
	dst := e.lookup(s.Name)
	for _, st := range s.steps() {
		if st.Idx != nil {
			i := int(st.Idx.Eval(e).P.Int64())
			if i < 0 || i >= len(dst.Elems) {
				panic("refsem: index out of range (generator bug)")
			}
			dst = &dst.Elems[i]
			continue
		}
		found := false
		for i, n := range dst.T.Names {
			if n == st.Field {
				dst = &dst.Elems[i]
				found = true
				break
			}
		}
		if !found {
			panic("refsem: field " + st.Field)
		}
	}
	*dst = v.clone()
	return false, nil
}
func (s Assign) Src(in string) string {
	l := s.Name
	for _, st := range s.steps() {
		if st.Idx != nil {
			l += "[" + st.Idx.Src() + "]"
		} else {
			l += "." + st.Field
		}
	}
	return in + l + " = " + s.X.Src() + "\n"
}

// OpAssign is x op= e, IncDec is x++ / x--.
type OpAssign struct {
	Name string
	Op   string
	X    Expr
}

func (s OpAssign) Exec(e *Env) (bool, []Value) {
	dst := e.lookup(s.Name)
	*dst = Bin{Op: s.Op, L: Var{Name: s.Name}, R: s.X}.Eval(e).clone()
	return false, nil
}
func (s OpAssign) Src(in string) string { return in + s.Name + " " + s.Op + "= " + s.X.Src() + "\n" }

// IncDec is x++ (Inc) or x--.
type IncDec struct {
	Name string
	Inc  bool
}

func (s IncDec) Exec(e *Env) (bool, []Value) {
	dst := e.lookup(s.Name)
	d := big.NewInt(1)
	if !s.Inc {
		d = big.NewInt(-1)
	}
	*dst = Scalar(dst.T, new(big.Int).Add(dst.P, d))
	return false, nil
}
func (s IncDec) Src(in string) string {
	if s.Inc {
		return in + s.Name + "++\n"
	}
	return in + s.Name + "--\n"
}

// MultiAssign is a, b := f(...) (define=true) or a, b = f(...).
type MultiAssign struct {
	Names  []string
	Define bool
	C      Call
}

func (s MultiAssign) Exec(e *Env) (bool, []Value) {
	vals := s.C.evalAll(e)
	for i, n := range s.Names {
		if s.Define {
			e.declare(n, vals[i])
		} else {
			*e.lookup(n) = vals[i].clone()
		}
	}
	return false, nil
}
func (s MultiAssign) Src(in string) string {
	op := " = "
	if s.Define {
		op = " := "
	}
	return in + strings.Join(s.Names, ", ") + op + s.C.Src() + "\n"
}

// If is if cond { then } else { else }.
type If struct {
	Cond Expr
	Then []Stmt
	Else []Stmt // nil: no else branch
}

func execBlock(e *Env, b []Stmt) (bool, []Value) {
	e.push()
	defer e.pop()
	for _, s := range b {
		if ret, v := s.Exec(e); ret {
			return true, v
		}
	}
	return false, nil
}

func (s If) Exec(e *Env) (bool, []Value) {
	if s.Cond.Eval(e).P.Sign() != 0 {
		return execBlock(e, s.Then)
	}
	if s.Else != nil {
		return execBlock(e, s.Else)
	}
	return false, nil
}
func srcBlock(in string, b []Stmt) string {
	s := ""
	for _, x := range b {
		s += x.Src(in + "\t")
	}
	return s
}
func (s If) Src(in string) string {
	r := in + "if " + s.Cond.Src() + " {\n" + srcBlock(in, s.Then) + in + "}"
	if s.Else != nil {
		r += " else {\n" + srcBlock(in, s.Else) + in + "}"
	}
	return r + "\n"
}

// For is for i := From; i < To; i++ { body } with constant bounds.
type For struct {
	Var      string
	From, To int64
	Body     []Stmt
	// ToLen, if set, writes the bound as len(<ToLen>); To must be that array's length
	ToLen string
}

func (s For) Exec(e *Env) (bool, []Value) {
	for i := s.From; i < s.To; i++ {
		e.push()
		e.declare(s.Var, Scalar(Int(32), big.NewInt(i)))
		ret, v := execBlock(e, s.Body)
		e.pop()
		if ret {
			return true, v
		}
	}
	return false, nil
}
func (s For) Src(in string) string {
	bound := fmt.Sprint(s.To)
	if s.ToLen != "" {
		bound = "len(" + s.ToLen + ")"
	}
	return fmt.Sprintf("%sfor %s := %d; %s < %s; %s++ {\n%s%s}\n", in, s.Var, s.From, s.Var, bound, s.Var, srcBlock(in, s.Body), in)
}

// Return returns values.
type Return struct{ X []Expr }

func (s Return) Exec(e *Env) (bool, []Value) {
	var v []Value
	for _, x := range s.X {
		if c, ok := x.(Call); ok && len(s.X) == 1 {
			return true, c.evalAll(e)
		}
		v = append(v, x.Eval(e))
	}
	return true, v
}
func (s Return) Src(in string) string {
	var a []string
	for _, x := range s.X {
		a = append(a, x.Src())
	}
	if len(a) == 0 {
		return in + "return\n"
	}
	return in + "return " + strings.Join(a, ", ") + "\n"
}

// ---- program ----

// Param is a function parameter.
type Param struct {
	Name string
	T    Type
}

// Func is a function.
type Func struct {
	Name    string
	Params  []Param
	Results []Type
	Body    []Stmt
	// ResultNames, if set, names the results: they are variables initialised to zero, and a bare return
	// (Return with no expressions) returns their current values.
	ResultNames []string
}

// Global is a package-level constant or variable.
type Global struct {
	Const bool
	Name  string
	T     Type
	V     int64
}

// Program is a main package.
type Program struct {
	Structs []Type
	Globals []Global
	Funcs   []Func // the last one is main
}

func (p *Program) fn(name string) *Func {
	for i := range p.Funcs {
		if p.Funcs[i].Name == name {
			return &p.Funcs[i]
		}
	}
	panic("refsem: no function " + name)
}

func (p *Program) call(f *Func, args []Value, depth int) []Value {
	if depth > 50 {
		panic("refsem: recursion")
	}
	e := &Env{prog: p, depth: depth}
	e.push()
	for _, g := range p.Globals {
		e.declare(g.Name, Scalar(g.T, big.NewInt(g.V)))
	}
	e.push()
	for i, pa := range f.Params {
		e.declare(pa.Name, args[i])
	}
	for i, n := range f.ResultNames {
		e.declare(n, Zero(f.Results[i]))
	}
	ret, vals := execBlock(e, f.Body)
	if !ret {
		panic("refsem: function " + f.Name + " fell off its end")
	}
	if len(vals) == 0 && len(f.ResultNames) > 0 {
		for _, n := range f.ResultNames {
			vals = append(vals, e.lookup(n).clone())
		}
	}
	return vals
}

// Main returns the main function.
func (p *Program) Main() *Func { return &p.Funcs[len(p.Funcs)-1] }

// Run executes main on the argument values.
func (p *Program) Run(args []Value) (res []Value, err error) {
	defer func() {
		if r := recover(); r != nil {
			err = fmt.Errorf("%v", r)
		}
	}()
	return p.call(p.Main(), args, 0), nil
}

// Src prints the program as MPCL source.
func (p *Program) Src() string {
	var b strings.Builder
	b.WriteString("package main\n\n")
	for _, s := range p.Structs {
		b.WriteString("type " + s.Name + " struct {\n")
		for i, f := range s.Fields {
			b.WriteString("\t" + s.Names[i] + " " + f.Src() + "\n")
		}
		b.WriteString("}\n\n")
	}
	for _, g := range p.Globals {
		if g.Const {
			fmt.Fprintf(&b, "const %s = %d\n\n", g.Name, g.V)
		} else {
			fmt.Fprintf(&b, "var %s %s = %d\n\n", g.Name, g.T.Src(), g.V)
		}
	}
	for _, f := range p.Funcs {
		var ps, rs []string
		for _, pa := range f.Params {
			ps = append(ps, pa.Name+" "+pa.T.Src())
		}
		for i, r := range f.Results {
			if len(f.ResultNames) > 0 {
				rs = append(rs, f.ResultNames[i]+" "+r.Src())
			} else {
				rs = append(rs, r.Src())
			}
		}
		res := strings.Join(rs, ", ")
		if len(rs) > 1 || len(f.ResultNames) > 0 {
			res = "(" + res + ")"
		}
		fmt.Fprintf(&b, "func %s(%s) %s {\n%s}\n\n", f.Name, strings.Join(ps, ", "), res, srcBlock("", f.Body))
	}
	return b.String()
}
