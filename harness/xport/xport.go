// Package xport provides in-memory duplex byte-stream links (io.ReadWriter)
// for free-running sessions of the real code: unbounded buffers, blocking
// reads, programmable read fragmentation, transcript recording, in-flight
// corruption, and stall detection (both ends blocked on empty links).
package xport

import (
	"errors"
	"io"
	"sync"
	"time"
)

// ErrStalled is returned from Read when the session is stalled: both ends
// wait for data, nothing is in flight and nothing moved for the grace period.
var ErrStalled = errors.New("xport: session stalled (both parties waiting for data)")

type shared struct {
	mu       sync.Mutex
	cond     *sync.Cond
	stalled  bool
	activity uint64
	grace    time.Duration
}

// End is one end of a link.
type End struct {
	sh      *shared
	peer    *End
	buf     []byte
	waiting bool
	closed  bool

	// Frag, if set, decides how many of the avail buffered bytes a Read into a
	// buffer of size want returns (1..min(avail,want)). off is the stream
	// offset of the first byte.
	Frag func(off int64, avail, want int) int
	// Corrupt, if set, may alter bytes written by this end; off is the stream
	// offset of p[0]. It works on a private copy.
	Corrupt func(off int64, p []byte)
	// Record keeps everything written by this end (before corruption).
	Record bool
	Sent   []byte
	// NWritten / NRead count bytes moved.
	NWritten int64
	NRead    int64
}

// NewPair creates a connected pair. grace > 0 enables stall detection.
func NewPair(grace time.Duration) (*End, *End) {
	sh := &shared{grace: grace}
	sh.cond = sync.NewCond(&sh.mu)
	a := &End{sh: sh}
	b := &End{sh: sh}
	a.peer, b.peer = b, a
	if grace > 0 {
		go sh.watch(a, b)
	}
	return a, b
}

func (sh *shared) watch(a, b *End) {
	var last uint64
	idleSince := time.Now()
	for {
		time.Sleep(sh.grace / 4)
		sh.mu.Lock()
		if a.closed && b.closed || sh.stalled {
			sh.mu.Unlock()
			return
		}
		blocked := a.waiting && b.waiting && len(a.buf) == 0 && len(b.buf) == 0
		if sh.activity != last || !blocked {
			last = sh.activity
			idleSince = time.Now()
		} else if time.Since(idleSince) >= sh.grace {
			sh.stalled = true
			sh.cond.Broadcast()
			sh.mu.Unlock()
			return
		}
		sh.mu.Unlock()
	}
}

// Write implements io.Writer.
func (e *End) Write(p []byte) (int, error) {
	e.sh.mu.Lock()
	defer e.sh.mu.Unlock()
	if e.closed {
		return 0, io.ErrClosedPipe
	}
	if e.peer.closed {
		return 0, io.ErrClosedPipe
	}
	off := e.NWritten
	if e.Record {
		e.Sent = append(e.Sent, p...)
	}
	q := p
	if e.Corrupt != nil {
		q = append([]byte(nil), p...)
		e.Corrupt(off, q)
	}
	e.peer.buf = append(e.peer.buf, q...)
	e.NWritten += int64(len(p))
	e.sh.activity++
	e.sh.cond.Broadcast()
	return len(p), nil
}

// Read implements io.Reader.
func (e *End) Read(p []byte) (int, error) {
	if len(p) == 0 {
		return 0, nil
	}
	e.sh.mu.Lock()
	defer e.sh.mu.Unlock()
	for len(e.buf) == 0 {
		if e.closed {
			return 0, io.ErrClosedPipe
		}
		if e.peer.closed {
			return 0, io.EOF
		}
		if e.sh.stalled {
			return 0, ErrStalled
		}
		e.waiting = true
		e.sh.cond.Wait()
		e.waiting = false
	}
	n := len(e.buf)
	if n > len(p) {
		n = len(p)
	}
	if e.Frag != nil {
		k := e.Frag(e.NRead, n, len(p))
		if k >= 1 && k < n {
			n = k
		}
	}
	copy(p, e.buf[:n])
	e.buf = e.buf[n:]
	e.NRead += int64(n)
	e.sh.activity++
	return n, nil
}

// Close closes this end: the peer reads EOF after draining.
func (e *End) Close() error {
	e.sh.mu.Lock()
	e.closed = true
	e.sh.activity++
	e.sh.cond.Broadcast()
	e.sh.mu.Unlock()
	return nil
}

// Stalled reports whether stall detection fired.
func (e *End) Stalled() bool {
	e.sh.mu.Lock()
	defer e.sh.mu.Unlock()
	return e.sh.stalled
}
