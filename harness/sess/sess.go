// Package sess runs complete two-party sessions of the real code (garbler
// and evaluator over p2p.Conn) under the cooperative scheduler's default
// schedule: deterministic, with exact deadlock ("stall") detection, transcript
// recording, read fragmentation and in-flight corruption.
package sess

import (
	"bytes"
	"fmt"
	"math/big"
	"strings"

	"github.com/markkurossi/mpc/circuit"
	"github.com/markkurossi/mpc/compiler"
	"github.com/markkurossi/mpc/compiler/utils"
	"github.com/markkurossi/mpc/env"
	"github.com/markkurossi/mpc/ot"
	"github.com/markkurossi/mpc/p2p"
	"github.com/markkurossi/mpc/zverif/csched"
	"github.com/markkurossi/mpc/zverif/vnet"
	"github.com/markkurossi/mpc/zverif/vrand"

	"verif/drbg"
	"verif/idealot"
)

// Spy wraps an OT and records the wires handed to Send (both labels: the
// harness, not the peer, sees them).
type Spy struct {
	ot.OT
	Seen []ot.Wire
}

// Send implements ot.OT.
func (s *Spy) Send(wires []ot.Wire) error {
	s.Seen = append(s.Seen, wires...)
	return s.OT.Send(wires)
}

// Opts configures a session.
type Opts struct {
	OT      string // ideal | co | cot | cot-mal | rsa
	Seed    uint64
	Regime  func(off int64, avail, want int) []int // read regime (nil: everything available)
	Corrupt func(dir string, off int64, p []byte)  // may alter the private copy p of a chunk; dir is g2e or e2g
	Record  bool
	Horizon int
	// RandChunk > 0: the randomness sources handed to the code under test return at most RandChunk bytes per Read
	RandChunk int
	// Prefix: scheduler choices to replay (nil: the default schedule)
	Prefix []int
}

// Result is what a session produced.
type Result struct {
	Outcome    string // scheduler outcome: ok | deadlock | panic | horizon ...
	Detail     string
	GErr, EErr error
	GOut, EOut []*big.Int
	GIO, EIO   circuit.IO
	G2E, E2G   []byte
	Seen       []ot.Wire // wires the garbler handed to its OT (both labels)
	Steps      int
	Choices    []int // the scheduler choices of this execution
}

// MkOT builds the OT variant.
func MkOT(kind string, rd *drbg.Reader) ot.OT {
	switch kind {
	case "co":
		return ot.NewCO(rd)
	case "cot":
		return ot.NewCOT(ot.NewCO(rd), rd, false, false)
	case "cot-mal":
		return ot.NewCOT(ot.NewCO(rd), rd, true, false)
	case "cot-ideal":
		return ot.NewCOT(idealot.New(), rd, false, false)
	case "cot-mal-ideal":
		return ot.NewCOT(idealot.New(), rd, true, false)
	case "rsa":
		return ot.NewRSA(rd, 1024)
	}
	return idealot.New()
}

type party func(conn *p2p.Conn, oti ot.OT, r *Result) error

func run(o Opts, garbler, evaluator party) *Result {
	res := &Result{}
	opts := csched.Options{Horizon: o.Horizon}
	if opts.Horizon == 0 {
		opts.Horizon = 20000000
	}
	cr := csched.Run(o.Prefix, opts, system(o, res, garbler, evaluator))
	res.Outcome, res.Detail, res.Steps = cr.Outcome, cr.Detail, cr.Steps
	res.Choices = cr.Choices
	return res
}

// ExploreCircuit runs circuit.Garbler against circuit.Evaluator under EVERY schedule with at most p preemptions and
// f-1 non-default free switches (threads: the two parties and their connections' writer goroutines); visit gets the
// result of each execution and returns false to stop. It reports executions, transitions and whether the search was cut.
func ExploreCircuit(circ *circuit.Circuit, gin, ein *big.Int, o Opts, p, f int, stop func() bool, visit func(r *Result) bool) (int64, int64, bool) {
	x := &csched.Explorer{PBound: p, FBound: f, Opts: csched.Options{Horizon: 20000000}, Stop: stop}
	var res *Result
	x.Explore(func() {
		res = &Result{}
		system(o, res, func(conn *p2p.Conn, oti ot.OT, r *Result) error {
			cfg := &env.Config{Rand: drbg.NewChunked(o.Seed*2+11, o.RandChunk)}
			out, err := circuit.Garbler(cfg, conn, oti, circ, gin, false)
			r.GOut = out
			return err
		}, func(conn *p2p.Conn, oti ot.OT, r *Result) error {
			out, err := circuit.Evaluator(conn, oti, circ, ein, false)
			r.EOut = out
			return err
		})()
	}, func(cr *csched.Result, pp, ee int) bool {
		res.Outcome, res.Detail, res.Steps = cr.Outcome, cr.Detail, cr.Steps
		res.Choices = cr.Choices
		return visit(res)
	})
	return x.Executions, x.Transitions, x.Truncated
}

func system(o Opts, res *Result, garbler, evaluator party) func() {
	return func() {
		vnet.Reset()
		vrand.Seed(o.Seed + 99)
		a, b := vnet.Pipe("G", "E")
		vnet.ReadAlts = o.Regime
		if o.Record || o.Corrupt != nil {
			vnet.WriteHook = func(name string, off int64, p []byte) []byte {
				dir := "g2e"
				if name == "E" {
					dir = "e2g"
				}
				if o.Record {
					if dir == "g2e" {
						res.G2E = append(res.G2E, p...)
					} else {
						res.E2G = append(res.E2G, p...)
					}
				}
				if o.Corrupt != nil {
					q := append([]byte(nil), p...)
					o.Corrupt(dir, off, q)
					return q
				}
				return p
			}
		}
		csched.GoNamed("garbler", func() {
			conn := p2p.NewConn(a)
			spy := &Spy{OT: MkOT(o.OT, drbg.NewChunked(o.Seed*2+1, o.RandChunk))}
			res.GErr = protect(func() error { return garbler(conn, spy, res) })
			res.Seen = spy.Seen
			conn.Close()
		})
		csched.GoNamed("evaluator", func() {
			conn := p2p.NewConn(b)
			res.EErr = protect(func() error { return evaluator(conn, MkOT(o.OT, drbg.NewChunked(o.Seed*2+2, o.RandChunk)), res) })
			conn.Close()
		})
	}
}

// protect turns a panic of the code under test into an error of that party
// (the session continues so that the peer's reaction is observed too).
func protect(f func() error) (err error) {
	defer func() {
		if r := recover(); r != nil {
			if strings.Contains(fmt.Sprintf("%T", r), "abortSignal") {
				panic(r)
			}
			err = fmt.Errorf("PANIC: %v", r)
		}
	}()
	return f()
}

// RunCircuit runs circuit.Garbler against circuit.Evaluator.
func RunCircuit(circ *circuit.Circuit, gin, ein *big.Int, o Opts) *Result {
	return run(o, func(conn *p2p.Conn, oti ot.OT, r *Result) error {
		cfg := &env.Config{Rand: drbg.NewChunked(o.Seed*2+11, o.RandChunk)}
		out, err := circuit.Garbler(cfg, conn, oti, circ, gin, false)
		r.GOut = out
		return err
	}, func(conn *p2p.Conn, oti ot.OT, r *Result) error {
		out, err := circuit.Evaluator(conn, oti, circ, ein, false)
		r.EOut = out
		return err
	})
}

// RunStream runs Compiler.Stream against circuit.StreamEvaluator.
func RunStream(src string, gin, ein []string, sizes [][]int, o Opts) *Result {
	return run(o, func(conn *p2p.Conn, oti ot.OT, r *Result) error {
		params := utils.NewParams()
		params.Config = &env.Config{Rand: drbg.NewChunked(o.Seed*2+11, o.RandChunk)}
		defer params.Close()
		io, out, err := compiler.New(params).Stream(conn, oti, "{data}", bytes.NewReader([]byte(src)), gin, sizes)
		r.GIO, r.GOut = io, out
		return err
	}, func(conn *p2p.Conn, oti ot.OT, r *Result) error {
		io, out, err := circuit.StreamEvaluator(conn, oti, ein, nil, false)
		r.EIO, r.EOut = io, out
		return err
	})
}
