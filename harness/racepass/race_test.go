// Package racepass runs the C17 thread bodies free, on unmodified code, for
// the race detector (cooperative hand-offs would blind it).
package racepass

import (
	"errors"
	"io"
	"math/big"
	"sync"
	"testing"

	"github.com/markkurossi/mpc/circuit"
	"github.com/markkurossi/mpc/env"
	"github.com/markkurossi/mpc/ot"
	"github.com/markkurossi/mpc/p2p"

	"verif/bitsim"
	"verif/circgen"
	"verif/drbg"
	"verif/idealot"
)

type failingReader struct {
	r     io.Reader
	calls int
}

func (f *failingReader) Read(p []byte) (int, error) {
	f.calls++
	if f.calls >= 2 {
		return 0, errors.New("injected")
	}
	return f.r.Read(p)
}

func TestShared(t *testing.T) {
	descs := []circgen.Desc{
		{In: []int{2}, Out: []int{1}, Gates: []circgen.G{{2, 0, 1}, {2, 2, 0}}},
		{In: []int{2}, Out: []int{2}, Gates: []circgen.G{{3, 0, 1}, {4, 2, 0}, {4, 3, 0}}},
	}
	for _, d := range descs {
		c := d.Build()
		var wg sync.WaitGroup
		for tid := 0; tid < 6; tid++ {
			wg.Add(1)
			go func(tid int) {
				defer wg.Done()
				key := make([]byte, 16)
				key[0] = byte(tid)
				for it := 0; it < 20; it++ {
					if tid == 5 {
						c.Garble(&failingReader{r: drbg.New(uint64(it))}, key)
						continue
					}
					if tid == 4 {
						got, err := c.Compute([]*big.Int{big.NewInt(int64(it % 4))})
						if err != nil || len(got) == 0 {
							t.Errorf("compute: %v", err)
						}
						continue
					}
					g, err := c.Garble(drbg.New(uint64(100*tid+it)), key)
					if err != nil {
						t.Errorf("garble: %v", err)
						return
					}
					in := []bool{it&1 == 1, it&2 == 2}
					ref, _ := bitsim.Eval(c, in)
					wires := make([]ot.Label, c.NumWires)
					for i := range in {
						wires[i] = circuit.LabelForBit(g.Wires[i], in[i])
					}
					if err := c.Eval(key, wires, g.Gates); err != nil {
						t.Errorf("eval: %v", err)
					}
					for w := 2; w < c.NumWires; w++ {
						if !wires[w].Equal(circuit.LabelForBit(g.Wires[w], ref[w])) {
							t.Errorf("thread %d: wrong label on wire %d", tid, w)
						}
					}
					g.Release()
					if it%3 == 0 {
						g.Release()
					}
				}
			}(tid)
		}
		wg.Wait()
	}
}

// TestSharedSameKey: the goroutines use the SAME key bytes (equal contents in their own slices, and one slice shared
// read-only), and several goroutines evaluate ONE garbling at once: anything the circuit caches per key, and the
// tables of a garbling, are then really shared.
func TestSharedSameKey(t *testing.T) {
	d := circgen.Desc{In: []int{2}, Out: []int{2}, Gates: []circgen.G{{2, 0, 1}, {3, 2, 0}, {4, 3, 0}, {2, 4, 1}}}
	c := d.Build()
	shared := []byte("0123456789abcdef")
	for round := 0; round < 10; round++ {
		g0, err := c.Garble(drbg.New(uint64(7000+round)), shared)
		if err != nil {
			t.Fatal(err)
		}
		var wg sync.WaitGroup
		for tid := 0; tid < 6; tid++ {
			wg.Add(1)
			go func(tid int) {
				defer wg.Done()
				key := shared
				if tid%2 == 1 {
					key = append([]byte(nil), shared...)
				}
				for it := 0; it < 30; it++ {
					g := g0
					if tid >= 3 {
						var err error
						g, err = c.Garble(drbg.New(uint64(1000*tid+it)), key)
						if err != nil {
							t.Errorf("garble: %v", err)
							return
						}
					}
					in := []bool{(it+tid)&1 == 1, (it+tid)&2 == 2}
					ref, _ := bitsim.Eval(c, in)
					wires := make([]ot.Label, c.NumWires)
					for i := range in {
						wires[i] = circuit.LabelForBit(g.Wires[i], in[i])
					}
					if err := c.Eval(key, wires, g.Gates); err != nil {
						t.Errorf("eval: %v", err)
						return
					}
					for w := 2; w < c.NumWires; w++ {
						if !wires[w].Equal(circuit.LabelForBit(g.Wires[w], ref[w])) {
							t.Errorf("thread %d: wrong label on wire %d", tid, w)
							return
						}
					}
					if tid >= 3 {
						g.Release()
					}
				}
			}(tid)
		}
		wg.Wait()
		g0.Release()
	}
}

// TestConcurrentCompute: several goroutines run the plain evaluator on one circuit at once and check every result.
func TestConcurrentCompute(t *testing.T) {
	d := circgen.Desc{In: []int{3, 3}, Out: []int{2, 2}, Gates: []circgen.G{{2, 0, 3}, {3, 1, 4}, {0, 6, 7}, {4, 8, 0}, {2, 2, 5}, {1, 9, 10}, {3, 11, 6}}}
	c := d.Build()
	var wg sync.WaitGroup
	for tid := 0; tid < 6; tid++ {
		wg.Add(1)
		go func(tid int) {
			defer wg.Done()
			for it := 0; it < 200; it++ {
				x := (it*7 + tid*13) % 64
				in := make([]bool, 6)
				for i := range in {
					in[i] = x>>i&1 == 1
				}
				ref, _ := bitsim.Eval(c, in)
				want := bitsim.Outputs(c, ref)
				got, err := c.Compute([]*big.Int{big.NewInt(int64(x & 7)), big.NewInt(int64(x >> 3))})
				if err != nil {
					t.Errorf("compute: %v", err)
					return
				}
				for i := range want {
					if got[i].Cmp(want[i]) != 0 {
						t.Errorf("goroutine %d: Compute(%d) output %d = %v, want %v", tid, x, i, got[i], want[i])
						return
					}
				}
			}
		}(tid)
	}
	wg.Wait()
}

// TestConcurrentSessions runs whole Garbler/Evaluator sessions on ONE circuit value at once (program S of the
// driver, free-running): per-session state that lives on the circuit or in a package variable is a race here.
func TestConcurrentSessions(t *testing.T) {
	d := circgen.Desc{In: []int{3, 3}, Out: []int{2, 2}, Gates: []circgen.G{{2, 0, 3}, {3, 1, 4}, {0, 6, 7}, {4, 8, 0}, {2, 2, 5}, {1, 9, 10}, {3, 11, 6}}}
	c := d.Build()
	var wg sync.WaitGroup
	for tid := 0; tid < 4; tid++ {
		wg.Add(1)
		go func(tid int) {
			defer wg.Done()
			for it := 0; it < 25; it++ {
				x := (it*11 + tid*17) % 64
				in := make([]bool, 6)
				for i := range in {
					in[i] = x>>i&1 == 1
				}
				ref, _ := bitsim.Eval(c, in)
				want := bitsim.Outputs(c, ref)
				a, b := p2p.Pipe()
				var eout []*big.Int
				var eerr error
				done := make(chan struct{})
				go func() {
					defer close(done)
					eout, eerr = circuit.Evaluator(b, idealot.New(), c, big.NewInt(int64(x>>3)), false)
					b.Close()
				}()
				cfg := &env.Config{Rand: drbg.New(uint64(9000 + 100*tid + it))}
				gout, gerr := circuit.Garbler(cfg, a, idealot.New(), c, big.NewInt(int64(x&7)), false)
				a.Close()
				<-done
				if gerr != nil || eerr != nil {
					t.Errorf("goroutine %d: session(%d): garbler %v evaluator %v", tid, x, gerr, eerr)
					return
				}
				for i := range want {
					if i >= len(gout) || i >= len(eout) || gout[i].Cmp(want[i]) != 0 || eout[i].Cmp(want[i]) != 0 {
						t.Errorf("goroutine %d: session(%d): garbler %v evaluator %v want %v", tid, x, gout, eout, want)
						return
					}
				}
			}
		}(tid)
	}
	wg.Wait()
}
