// Package circgen enumerates every small well-formed circuit and builds
// deterministic circuit families.
package circgen

import (
	"fmt"

	"github.com/markkurossi/mpc/circuit"
	"github.com/markkurossi/mpc/types"
)

// G is a gate descriptor [op, in0, in1].
type G [3]int

// Desc is a JSON-serialisable circuit descriptor. Gate i writes wire
// sum(In)+i; the outputs are the last sum(Out) wires.
type Desc struct {
	In    []int `json:"in"`  // input argument widths (one per party)
	Out   []int `json:"out"` // output widths
	Gates []G   `json:"gates"`
}

func (d Desc) String() string {
	s := fmt.Sprintf("in=%v out=%v:", d.In, d.Out)
	for _, g := range d.Gates {
		op := circuit.Operation(g[0])
		if op == circuit.INV {
			s += fmt.Sprintf(" %s(%d)", op, g[1])
		} else {
			s += fmt.Sprintf(" %s(%d,%d)", op, g[1], g[2])
		}
	}
	return s
}

func sum(a []int) int {
	s := 0
	for _, v := range a {
		s += v
	}
	return s
}

// NumIn returns the number of input wires.
func (d Desc) NumIn() int { return sum(d.In) }

// Build makes the circuit.Circuit.
func (d Desc) Build() *circuit.Circuit {
	nin := sum(d.In)
	c := &circuit.Circuit{
		NumGates: len(d.Gates),
		NumWires: nin + len(d.Gates),
	}
	for i, w := range d.In {
		c.Inputs = append(c.Inputs, circuit.IOArg{
			Name: fmt.Sprintf("i%d", i),
			Type: types.Info{Type: types.TUint, IsConcrete: true, Bits: types.Size(w), MinBits: types.Size(w)},
		})
	}
	for i, w := range d.Out {
		c.Outputs = append(c.Outputs, circuit.IOArg{
			Name: fmt.Sprintf("o%d", i),
			Type: types.Info{Type: types.TUint, IsConcrete: true, Bits: types.Size(w), MinBits: types.Size(w)},
		})
	}
	for i, g := range d.Gates {
		gate := circuit.Gate{
			Input0: circuit.Wire(g[1]),
			Input1: circuit.Wire(g[2]),
			Output: circuit.Wire(nin + i),
			Op:     circuit.Operation(g[0]),
		}
		if gate.Op == circuit.INV {
			gate.Input1 = 0
		}
		c.Gates = append(c.Gates, gate)
		c.Stats[gate.Op]++
	}
	return c
}

// Ops is the gate alphabet, simplest first.
var Ops = []circuit.Operation{circuit.XOR, circuit.XNOR, circuit.AND, circuit.OR, circuit.INV}

// EnumGates calls f with every gate list of exactly ngates gates over nin
// input wires (inputs may be any earlier wire, including the same wire
// twice). The slice is reused between calls. f returns false to stop.
func EnumGates(nin, ngates int, f func([]G) bool) {
	gates := make([]G, ngates)
	var rec func(i int) bool
	rec = func(i int) bool {
		if i == ngates {
			return f(gates)
		}
		avail := nin + i
		for _, op := range Ops {
			if op == circuit.INV {
				for a := 0; a < avail; a++ {
					gates[i] = G{int(op), a, 0}
					if !rec(i + 1) {
						return false
					}
				}
				continue
			}
			for a := 0; a < avail; a++ {
				for b := 0; b < avail; b++ {
					gates[i] = G{int(op), a, b}
					if !rec(i + 1) {
						return false
					}
				}
			}
		}
		return true
	}
	rec(0)
}

// Count returns the number of gate lists EnumGates produces.
func Count(nin, ngates int) int64 {
	n := int64(1)
	for i := 0; i < ngates; i++ {
		a := int64(nin + i)
		n *= 4*a*a + a
	}
	return n
}

// Chain builds a chain over nin inputs: gate i combines the previous
// wire with input (i mod nin) using ops[i].
func Chain(nin int, ops []circuit.Operation, nout int) Desc {
	d := Desc{In: []int{nin}, Out: []int{nout}}
	prev := 0
	for i, op := range ops {
		d.Gates = append(d.Gates, G{int(op), prev, (i + 1) % nin})
		prev = nin + i
	}
	return d
}

// Star builds a fan-out star: one producer gate whose output feeds n
// consumers of the given op.
func Star(op circuit.Operation, n int) Desc {
	d := Desc{In: []int{2}, Out: []int{n}}
	d.Gates = append(d.Gates, G{int(circuit.AND), 0, 1})
	for i := 0; i < n; i++ {
		d.Gates = append(d.Gates, G{int(op), 2, i % 2})
	}
	return d
}
