// Package bitsim is an independent evaluator of circuit.Circuit: scalar and
// 64-lane bit-sliced. It is the truth-table reference of the checks.
package bitsim

import (
	"fmt"
	"math/big"

	"github.com/markkurossi/mpc/circuit"
)

// Eval evaluates the circuit on the input bits (one bool per input wire)
// and returns the value of every wire.
func Eval(c *circuit.Circuit, in []bool) ([]bool, error) {
	nin := c.Inputs.Size()
	if len(in) != nin {
		return nil, fmt.Errorf("bitsim: %d inputs, want %d", len(in), nin)
	}
	w := make([]bool, c.NumWires)
	copy(w, in)
	for i := range c.Gates {
		g := &c.Gates[i]
		a := w[g.Input0]
		var r bool
		switch g.Op {
		case circuit.XOR:
			r = a != w[g.Input1]
		case circuit.XNOR:
			r = a == w[g.Input1]
		case circuit.AND:
			r = a && w[g.Input1]
		case circuit.OR:
			r = a || w[g.Input1]
		case circuit.INV:
			r = !a
		default:
			return nil, fmt.Errorf("bitsim: bad op %v", g.Op)
		}
		w[g.Output] = r
	}
	return w, nil
}

// Eval64 evaluates 64 input vectors at once; in[i] holds the 64 values of
// input wire i. It returns the lanes of every wire.
func Eval64(c *circuit.Circuit, in []uint64) []uint64 {
	w := make([]uint64, c.NumWires)
	copy(w, in)
	for i := range c.Gates {
		g := &c.Gates[i]
		a := w[g.Input0]
		var r uint64
		switch g.Op {
		case circuit.XOR:
			r = a ^ w[g.Input1]
		case circuit.XNOR:
			r = ^(a ^ w[g.Input1])
		case circuit.AND:
			r = a & w[g.Input1]
		case circuit.OR:
			r = a | w[g.Input1]
		case circuit.INV:
			r = ^a
		default:
			panic("bitsim: bad op")
		}
		w[g.Output] = r
	}
	return w
}

// FlatArgs returns the flattened argument list the way Compute expects it.
func FlatArgs(c *circuit.Circuit) circuit.IO {
	var args circuit.IO
	for _, io := range c.Inputs {
		if len(io.Compound) > 0 {
			args = append(args, io.Compound...)
		} else {
			args = append(args, io)
		}
	}
	return args
}

// InputBits lays the values of the arguments out on input wires.
func InputBits(widths []int, vals []*big.Int) []bool {
	var res []bool
	for i, w := range widths {
		for b := 0; b < w; b++ {
			res = append(res, vals[i].Bit(b) != 0)
		}
	}
	return res
}

// Outputs packs the output wires into one big.Int per declared output.
func Outputs(c *circuit.Circuit, wires []bool) []*big.Int {
	w := c.NumWires - c.Outputs.Size()
	var res []*big.Int
	for _, io := range c.Outputs {
		r := new(big.Int)
		for b := 0; b < int(io.Type.Bits); b++ {
			if wires[w] {
				r.SetBit(r, b, 1)
			}
			w++
		}
		res = append(res, r)
	}
	return res
}

// Run evaluates on big.Int arguments (flattened) and returns outputs.
func Run(c *circuit.Circuit, vals []*big.Int) ([]*big.Int, error) {
	args := FlatArgs(c)
	if len(args) != len(vals) {
		return nil, fmt.Errorf("bitsim: %d args, want %d", len(vals), len(args))
	}
	var widths []int
	for _, a := range args {
		widths = append(widths, int(a.Type.Bits))
	}
	w, err := Eval(c, InputBits(widths, vals))
	if err != nil {
		return nil, err
	}
	return Outputs(c, w), nil
}
