// Package runner is the common frame of every property driver: it fans the
// enumeration out to worker processes, merges their counters, applies the
// known-findings protocol, confirms violations by replaying them, and writes
// /verif/evidence/<id>.json.
package runner

import (
	"bufio"
	"bytes"
	"crypto/sha256"
	"encoding/binary"
	"encoding/hex"
	"encoding/json"
	"flag"
	"fmt"
	"hash/fnv"
	"io"
	"os"
	"os/exec"
	"path/filepath"
	"runtime"
	"runtime/debug"
	"sort"
	"strconv"
	"strings"
	"sync"
	"syscall"
	"time"
)

// VerifDir is the root of the verification tree.
var VerifDir = "/verif"

// RepoDir is the checkout under check (/repo unless VERIF_REPO is set by ./check for a scratch run).
var RepoDir = envOr("VERIF_REPO", "/repo")

// OutDir receives evidence and replay files: VerifDir, or VERIF_OUT for scratch runs against another checkout.
var OutDir = envOr("VERIF_OUT", VerifDir)

// Violation describes one property violation found by a worker.
type Violation struct {
	Key  string          `json:"key"`
	What string          `json:"what"`
	Case json.RawMessage `json:"case"`
	N    int64           `json:"n"` // how many cases hit this key in the shard
}

// Ctx is the per-worker context.
type Ctx struct {
	ID       string
	Tier     string
	Seed     int64
	Shard    int
	NShards  int
	Deadline time.Time
	Replay   bool

	mu         sync.Mutex
	evals      int64
	nontrivN   int64
	distinct   map[uint64]struct{}
	counters   map[string]int64
	maxes      map[string]int64
	outcomes   map[string]int64
	samples    []any
	notes      []string
	violations map[string]*Violation
	vorder     []string
	states     map[uint64]struct{}
	cut        bool
	sampleCap  int
	spec       *Spec
}

func newCtx() *Ctx {
	return &Ctx{
		distinct:   map[uint64]struct{}{},
		counters:   map[string]int64{},
		maxes:      map[string]int64{},
		outcomes:   map[string]int64{},
		violations: map[string]*Violation{},
		states:     map[uint64]struct{}{},
		sampleCap:  3,
	}
}

// Quick reports whether the tier is quick.
func (c *Ctx) Quick() bool { return c.Tier != "thorough" }

// Mine reports whether case index i belongs to this shard.
func (c *Ctx) Mine(i int) bool {
	if c.NShards <= 1 {
		return true
	}
	return i%c.NShards == c.Shard
}

// Expired reports whether the internal deadline has passed; it also marks
// the run as not exhaustive.
func (c *Ctx) Expired() bool {
	if c.Replay {
		return false
	}
	if time.Now().After(c.Deadline) {
		c.mu.Lock()
		c.cut = true
		c.mu.Unlock()
		return true
	}
	return false
}

// Incomplete marks the run as not exhaustive for a stated reason.
func (c *Ctx) Incomplete(why string) {
	c.mu.Lock()
	c.cut = true
	c.mu.Unlock()
	c.Note("incomplete: " + why)
}

// Eval counts executions.
func (c *Ctx) Eval(n int64) {
	c.mu.Lock()
	c.evals += n
	c.mu.Unlock()
}

// Nontrivial records a distinct non-trivial case by its identifying key.
func (c *Ctx) Nontrivial(key string) {
	h := fnv.New64a()
	h.Write([]byte(key))
	c.mu.Lock()
	c.distinct[h.Sum64()] = struct{}{}
	c.mu.Unlock()
}

// NontrivialN counts n cases that are distinct by construction (odometer).
func (c *Ctx) NontrivialN(n int64) {
	c.mu.Lock()
	c.nontrivN += n
	c.mu.Unlock()
}

// Count adds to a named counter.
func (c *Ctx) Count(name string, n int64) {
	c.mu.Lock()
	c.counters[name] += n
	c.mu.Unlock()
}

// Max keeps the maximum of a named gauge.
func (c *Ctx) Max(name string, n int64) {
	c.mu.Lock()
	if n > c.maxes[name] {
		c.maxes[name] = n
	}
	c.mu.Unlock()
}

// Outcome counts an observed outcome class.
func (c *Ctx) Outcome(name string) {
	c.mu.Lock()
	c.outcomes[name]++
	c.mu.Unlock()
}

// State records an abstract state hash (model-checking evidence).
func (c *Ctx) State(h uint64) {
	c.mu.Lock()
	c.states[h] = struct{}{}
	c.mu.Unlock()
}

// Sample keeps a few written-out cases.
func (c *Ctx) Sample(v any) {
	c.mu.Lock()
	if len(c.samples) < c.sampleCap {
		c.samples = append(c.samples, v)
	}
	c.mu.Unlock()
}

// Note records a free-text remark for the evidence file.
func (c *Ctx) Note(s string) {
	c.mu.Lock()
	for _, n := range c.notes {
		if n == s {
			c.mu.Unlock()
			return
		}
	}
	if len(c.notes) < 200 {
		c.notes = append(c.notes, s)
	}
	c.mu.Unlock()
}

// Violate records a violation. key names the specific failing site; cs is
// the replayable case descriptor.
func (c *Ctx) Violate(key, what string, cs any) {
	c.mu.Lock()
	defer c.mu.Unlock()
	if v, ok := c.violations[key]; ok {
		v.N++
		return
	}
	data, err := json.Marshal(cs)
	if err != nil {
		panic(err)
	}
	c.violations[key] = &Violation{Key: key, What: what, Case: data, N: 1}
	c.vorder = append(c.vorder, key)
	if c.Replay {
		fmt.Printf("replay: violation key=%s %s\n", key, what)
	}
}

// NumViolations returns the number of distinct violation keys so far.
func (c *Ctx) NumViolations() int {
	c.mu.Lock()
	defer c.mu.Unlock()
	return len(c.violations)
}

type workerOut struct {
	Evals      int64            `json:"evals"`
	Distinct   int64            `json:"distinct"`
	Counters   map[string]int64 `json:"counters"`
	Maxes      map[string]int64 `json:"maxes"`
	Outcomes   map[string]int64 `json:"outcomes"`
	Samples    []any            `json:"samples"`
	Notes      []string         `json:"notes"`
	Violations []*Violation     `json:"violations"`
	States     int              `json:"states"`
	Cut        bool             `json:"cut"`
}

// Spec describes a driver.
type Spec struct {
	ID          string
	Level       string // exploration | fault_enumeration | model_checking
	Rule        string
	Assumptions []string
	// Work enumerates this worker's share of the cases.
	Work func(*Ctx)
	// Replay re-runs exactly one case descriptor and calls Violate if the
	// violation reproduces.
	Replay func(*Ctx, json.RawMessage)
	// Budgets (internal deadlines; a run cut short exits 0, exhaustive=false).
	QuickBudget    time.Duration
	ThoroughBudget time.Duration
	Workers        int
	// WorkerGOMAXPROCS for each worker (default 1).
	WorkerProcs int
	// Extra adds driver-specific coverage keys after the merge.
	Extra func(counters map[string]int64, cov map[string]any)
}

// Known is one line of known_findings.jsonl.
type Known struct {
	Status   string `json:"status"`
	Property string `json:"property"`
	Key      string `json:"key"`
	Commit   string `json:"commit,omitempty"`
	What     string `json:"what"`
	// Cases, if present, is the number of enumerated cases that hit this key on the tree the finding was recorded
	// on, per tier ("quick", "thorough"). More failing cases than recorded means that another violation hides
	// behind the listed key: it is reported, not suppressed.
	Cases map[string]int64 `json:"cases,omitempty"`
}

func loadKnown(id string) (map[string]Known, error) {
	res := map[string]Known{}
	// the common file, plus an optional per-property file (long lists)
	for _, name := range []string{"known_findings.jsonl", "known_findings_" + strings.ToLower(id) + ".jsonl"} {
		if err := loadKnownFile(filepath.Join(VerifDir, name), id, res); err != nil {
			return nil, err
		}
	}
	return res, nil
}

func loadKnownFile(path, id string, res map[string]Known) error {
	f, err := os.Open(path)
	if err != nil {
		if os.IsNotExist(err) {
			return nil
		}
		return err
	}
	defer f.Close()
	sc := bufio.NewScanner(f)
	sc.Buffer(make([]byte, 1<<20), 1<<20)
	for sc.Scan() {
		line := strings.TrimSpace(sc.Text())
		if line == "" || strings.HasPrefix(line, "#") {
			continue
		}
		var k Known
		if err := json.Unmarshal([]byte(line), &k); err != nil {
			return fmt.Errorf("%s: %v", path, err)
		}
		if k.Property == id && k.Status == "known" {
			res[k.Key] = k
		}
	}
	return sc.Err()
}

// Main is the entry point of every driver binary.
func Main(spec Spec) {
	tier := flag.String("tier", envOr("VERIF_TIER", "quick"), "quick|thorough")
	worker := flag.String("worker", "", "i/n (internal)")
	out := flag.String("out", "", "worker output file (internal)")
	replay := flag.String("replay", "", "replay one violation file")
	isolated := flag.Bool("isolated", false, "run one case from stdin in this process (internal)")
	isolatedBatch := flag.Bool("isolated-batch", false, "run a JSON array of cases from stdin in this process (internal)")
	nworkers := flag.Int("workers", 0, "number of worker processes")
	budget := flag.Duration("budget", 0, "override internal time budget")
	flag.Parse()

	seed, _ := strconv.ParseInt(envOr("VERIF_SEED", "0"), 10, 64)
	if *tier != "quick" && *tier != "thorough" {
		fmt.Fprintf(os.Stderr, "invalid tier %q\n", *tier)
		os.Exit(2)
	}
	b := spec.QuickBudget
	if *tier == "thorough" {
		b = spec.ThoroughBudget
	}
	if b == 0 {
		b = 60 * time.Second
	}
	if *budget != 0 {
		b = *budget
	}

	if *isolated {
		doIsolated(spec, *tier, seed)
		return
	}
	if *isolatedBatch {
		doIsolatedBatch(spec, *tier, seed)
		return
	}
	if *replay != "" {
		os.Exit(doReplay(spec, *replay, *tier, seed))
	}
	if *worker != "" {
		doWorker(spec, *worker, *out, *tier, seed, b)
		return
	}
	os.Exit(doParent(spec, *tier, seed, b, *nworkers))
}

func envOr(k, d string) string {
	if v := os.Getenv(k); v != "" {
		return v
	}
	return d
}

func doWorker(spec Spec, worker, out, tier string, seed int64, b time.Duration) {
	var i, n int
	if _, err := fmt.Sscanf(worker, "%d/%d", &i, &n); err != nil {
		fmt.Fprintln(os.Stderr, "bad -worker")
		os.Exit(2)
	}
	if spec.WorkerProcs > 0 {
		runtime.GOMAXPROCS(spec.WorkerProcs)
	} else {
		runtime.GOMAXPROCS(1)
	}
	debug.SetMemoryLimit(3 << 30)
	ctx := newCtx()
	ctx.ID, ctx.Tier, ctx.Seed, ctx.Shard, ctx.NShards = spec.ID, tier, seed, i, n
	ctx.Deadline = time.Now().Add(b)
	ctx.spec = &spec
	spec.Work(ctx)

	wo := workerOut{
		Evals:    ctx.evals,
		Distinct: int64(len(ctx.distinct)) + ctx.nontrivN,
		Counters: ctx.counters,
		Maxes:    ctx.maxes,
		Outcomes: ctx.outcomes,
		Samples:  ctx.samples,
		Notes:    ctx.notes,
		States:   len(ctx.states),
		Cut:      ctx.cut,
	}
	for _, k := range ctx.vorder {
		wo.Violations = append(wo.Violations, ctx.violations[k])
	}
	data, err := json.Marshal(wo)
	if err != nil {
		fmt.Fprintln(os.Stderr, "marshal:", err)
		os.Exit(2)
	}
	if err := os.WriteFile(out, data, 0644); err != nil {
		fmt.Fprintln(os.Stderr, err)
		os.Exit(2)
	}
	if len(ctx.states) > 0 {
		buf := make([]byte, 0, 8*len(ctx.states))
		for h := range ctx.states {
			buf = binary.LittleEndian.AppendUint64(buf, h)
		}
		if err := os.WriteFile(out+".states", buf, 0644); err != nil {
			fmt.Fprintln(os.Stderr, err)
			os.Exit(2)
		}
	}
}

type isoOut struct {
	Violations []*Violation     `json:"violations"`
	Outcomes   map[string]int64 `json:"outcomes"`
	Evals      int64            `json:"evals"`
	Distinct   int64            `json:"distinct"`
}

func doIsolated(spec Spec, tier string, seed int64) {
	// address-space cap so that a runaway allocation kills only this child
	var lim syscall.Rlimit
	lim.Cur, lim.Max = 6<<30, 6<<30
	syscall.Setrlimit(syscall.RLIMIT_AS, &lim)
	data, err := io.ReadAll(os.Stdin)
	if err != nil {
		os.Exit(3)
	}
	out := os.Stdout
	devnull, _ := os.OpenFile(os.DevNull, os.O_WRONLY, 0)
	os.Stdout = devnull
	ctx := newCtx()
	ctx.ID, ctx.Tier, ctx.Seed, ctx.NShards, ctx.Replay = spec.ID, tier, seed, 1, true
	ctx.spec = &spec
	spec.Replay(ctx, data)
	res := isoOut{Outcomes: ctx.outcomes, Evals: ctx.evals, Distinct: int64(len(ctx.distinct)) + ctx.nontrivN}
	for _, k := range ctx.vorder {
		res.Violations = append(res.Violations, ctx.violations[k])
	}
	enc, _ := json.Marshal(res)
	out.Write(enc)
}

func doIsolatedBatch(spec Spec, tier string, seed int64) {
	var lim syscall.Rlimit
	lim.Cur, lim.Max = 3<<30, 3<<30
	syscall.Setrlimit(syscall.RLIMIT_AS, &lim)
	data, err := io.ReadAll(os.Stdin)
	if err != nil {
		os.Exit(3)
	}
	var cases []json.RawMessage
	if err := json.Unmarshal(data, &cases); err != nil {
		os.Exit(3)
	}
	out := os.Stdout
	devnull, _ := os.OpenFile(os.DevNull, os.O_WRONLY, 0)
	os.Stdout = devnull
	ctx := newCtx()
	ctx.ID, ctx.Tier, ctx.Seed, ctx.NShards, ctx.Replay = spec.ID, tier, seed, 1, true
	ctx.spec = &spec
	flush := func() {
		res := isoOut{Outcomes: ctx.outcomes, Evals: ctx.evals, Distinct: int64(len(ctx.distinct)) + ctx.nontrivN}
		for _, k := range ctx.vorder {
			res.Violations = append(res.Violations, ctx.violations[k])
		}
		enc, _ := json.Marshal(res)
		fmt.Fprintf(out, "R %s\n", enc)
		ctx.outcomes = map[string]int64{}
		ctx.evals, ctx.nontrivN = 0, 0
		ctx.distinct = map[uint64]struct{}{}
		ctx.violations = map[string]*Violation{}
		ctx.vorder = nil
	}
	for i, c := range cases {
		fmt.Fprintf(out, "S %d\n", i)
		spec.Replay(ctx, c)
		flush()
	}
	flush()
	fmt.Fprintf(out, "E\n")
}

// RunBatchIsolated runs the cases (through the driver's Replay) in child
// processes with an address-space cap. If a child dies on a case, onDeath is
// told about that case and the remaining cases continue in a new child.
func (c *Ctx) RunBatchIsolated(cases []any, perCase time.Duration, onDeath func(cs any, tail string)) {
	raw := make([]json.RawMessage, len(cases))
	for i, cs := range cases {
		d, err := json.Marshal(cs)
		if err != nil {
			panic(err)
		}
		raw[i] = d
	}
	start := 0
	for start < len(cases) {
		data, _ := json.Marshal(raw[start:])
		cmd := exec.Command(os.Args[0], "-isolated-batch", "-tier", c.Tier)
		cmd.Env = append(os.Environ(), fmt.Sprintf("VERIF_SEED=%d", c.Seed), "GOMAXPROCS=2")
		cmd.Stdin = bytes.NewReader(data)
		var se bytes.Buffer
		cmd.Stderr = &se
		pipe, err := cmd.StdoutPipe()
		if err != nil {
			panic(err)
		}
		if err := cmd.Start(); err != nil {
			panic(err)
		}
		lines := make(chan string, 64)
		go func() {
			sc := bufio.NewScanner(pipe)
			sc.Buffer(make([]byte, 1<<20), 64<<20)
			for sc.Scan() {
				lines <- sc.Text()
			}
			close(lines)
		}()
		current := -1
		finished := false
		timer := time.NewTimer(perCase)
	loop:
		for {
			select {
			case l, ok := <-lines:
				if !ok {
					break loop
				}
				switch {
				case strings.HasPrefix(l, "S "):
					fmt.Sscanf(l, "S %d", &current)
					if !timer.Stop() {
						select {
						case <-timer.C:
						default:
						}
					}
					timer.Reset(perCase)
				case strings.HasPrefix(l, "R "):
					var res isoOut
					if json.Unmarshal([]byte(l[2:]), &res) == nil {
						c.mergeIso(&res)
					}
				case l == "E":
					finished = true
				}
			case <-timer.C:
				cmd.Process.Kill()
			}
		}
		cmd.Wait()
		timer.Stop()
		if finished {
			return
		}
		if current < 0 {
			panic("isolated batch child died before its first case: " + se.String())
		}
		t := se.String()
		if i := strings.Index(t, "\ngoroutine "); i > 0 {
			t = t[:i]
		}
		if len(t) > 400 {
			t = t[:400]
		}
		onDeath(cases[start+current], strings.TrimSpace(t))
		start += current + 1
	}
}

func (c *Ctx) mergeIso(res *isoOut) {
	c.mu.Lock()
	defer c.mu.Unlock()
	c.evals += res.Evals
	c.nontrivN += res.Distinct
	for k, v := range res.Outcomes {
		c.outcomes[k] += v
	}
	for _, v := range res.Violations {
		if old, ok := c.violations[v.Key]; ok {
			old.N += v.N
		} else {
			c.violations[v.Key] = v
			c.vorder = append(c.vorder, v.Key)
		}
	}
}

// RunIsolated runs one case (through the driver's Replay function) in a
// child process with an address-space cap and merges what it found. If the
// child dies (fatal error, out of memory, killed) it returns crashed=true
// with the tail of its stderr; the caller decides what that means.
func (c *Ctx) RunIsolated(cs any, timeout time.Duration) (crashed bool, tail string) {
	data, err := json.Marshal(cs)
	if err != nil {
		panic(err)
	}
	cmd := exec.Command(os.Args[0], "-isolated", "-tier", c.Tier)
	cmd.Env = append(os.Environ(), fmt.Sprintf("VERIF_SEED=%d", c.Seed), "GOMAXPROCS=2")
	cmd.Stdin = bytes.NewReader(data)
	var so, se bytes.Buffer
	cmd.Stdout = &so
	cmd.Stderr = &se
	if err := cmd.Start(); err != nil {
		panic(err)
	}
	done := make(chan error, 1)
	go func() { done <- cmd.Wait() }()
	var werr error
	select {
	case werr = <-done:
	case <-time.After(timeout):
		cmd.Process.Kill()
		<-done
		return true, fmt.Sprintf("child did not finish within %v", timeout)
	}
	var res isoOut
	if werr != nil || json.Unmarshal(so.Bytes(), &res) != nil {
		t := se.String()
		if i := strings.Index(t, "\ngoroutine "); i > 0 {
			t = t[:i]
		}
		if len(t) > 600 {
			t = t[:600]
		}
		return true, strings.TrimSpace(t)
	}
	c.mu.Lock()
	c.evals += res.Evals
	c.nontrivN += res.Distinct
	for k, v := range res.Outcomes {
		c.outcomes[k] += v
	}
	for _, v := range res.Violations {
		if old, ok := c.violations[v.Key]; ok {
			old.N += v.N
		} else {
			c.violations[v.Key] = v
			c.vorder = append(c.vorder, v.Key)
		}
	}
	c.mu.Unlock()
	return false, ""
}

func doReplay(spec Spec, path, tier string, seed int64) int {
	data, err := os.ReadFile(path)
	if err != nil {
		fmt.Fprintln(os.Stderr, err)
		return 2
	}
	var v Violation
	if err := json.Unmarshal(data, &v); err != nil {
		fmt.Fprintln(os.Stderr, err)
		return 2
	}
	if spec.Replay == nil {
		fmt.Fprintln(os.Stderr, "driver has no replay")
		return 2
	}
	ctx := newCtx()
	ctx.ID, ctx.Tier, ctx.Seed, ctx.NShards, ctx.Replay = spec.ID, tier, seed, 1, true
	fmt.Printf("replay: property=%s key=%s\nreplay: case=%s\n", spec.ID, v.Key, string(v.Case))
	stdout := os.Stdout
	spec.Replay(ctx, v.Case)
	os.Stdout = stdout // drivers may silence the code under test
	for _, k := range ctx.vorder {
		fmt.Printf("replay: violation key=%s %s\n", k, ctx.violations[k].What)
	}
	if len(ctx.violations) > 0 {
		fmt.Printf("replay: REPRODUCED (%d violation keys)\n", len(ctx.violations))
		return 1
	}
	fmt.Println("replay: not reproduced (property holds on this case)")
	return 0
}

func confirm(spec Spec, v *Violation, tier string, seed int64) (bool, string) {
	if spec.Replay == nil {
		return true, ""
	}
	for i := 0; i < 3; i++ {
		ctx := newCtx()
		ctx.ID, ctx.Tier, ctx.Seed, ctx.NShards, ctx.Replay = spec.ID, tier, seed, 1, true
		stdout := os.Stdout
		devnull, _ := os.OpenFile(os.DevNull, os.O_WRONLY, 0)
		os.Stdout = devnull
		func() {
			defer func() {
				if r := recover(); r != nil {
					ctx.Violate("replay-panic", fmt.Sprint(r), nil)
				}
			}()
			spec.Replay(ctx, v.Case)
		}()
		os.Stdout = stdout
		devnull.Close()
		if _, ok := ctx.violations[v.Key]; !ok {
			var got []string
			for k := range ctx.violations {
				got = append(got, k)
			}
			return false, fmt.Sprintf("replay %d of key %q gave keys %v", i+1, v.Key, got)
		}
	}
	return true, ""
}

func doParent(spec Spec, tier string, seed int64, b time.Duration, nworkers int) int {
	start := time.Now()
	n := nworkers
	if n == 0 {
		n = spec.Workers
	}
	if n == 0 {
		n = runtime.NumCPU()
		if n > 16 {
			n = 16
		}
	}
	tmp, err := os.MkdirTemp("", "verif-"+spec.ID+"-")
	if err != nil {
		fmt.Fprintln(os.Stderr, err)
		return 2
	}
	defer os.RemoveAll(tmp)

	known, err := loadKnown(spec.ID)
	if err != nil {
		fmt.Fprintln(os.Stderr, err)
		return 2
	}

	type res struct {
		i   int
		err error
		log string
	}
	results := make(chan res, n)
	for i := 0; i < n; i++ {
		go func(i int) {
			outf := filepath.Join(tmp, fmt.Sprintf("w%d.json", i))
			cmd := exec.Command(os.Args[0], "-tier", tier,
				"-worker", fmt.Sprintf("%d/%d", i, n), "-out", outf,
				"-budget", b.String())
			cmd.Env = append(os.Environ(), fmt.Sprintf("VERIF_SEED=%d", seed))
			logf := filepath.Join(tmp, fmt.Sprintf("w%d.log", i))
			lf, _ := os.Create(logf)
			cmd.Stdout = lf
			cmd.Stderr = lf
			err := cmd.Run()
			lf.Close()
			var tail string
			if err != nil {
				data, _ := os.ReadFile(logf)
				if len(data) > 4000 {
					data = data[len(data)-4000:]
				}
				tail = string(data)
			}
			results <- res{i, err, tail}
		}(i)
	}
	harnessErr := false
	for i := 0; i < n; i++ {
		r := <-results
		if r.err != nil {
			fmt.Fprintf(os.Stderr, "HARNESS-ERROR worker %d: %v\n%s\n", r.i, r.err, r.log)
			harnessErr = true
		}
	}
	if harnessErr {
		return 2
	}

	merged := workerOut{Counters: map[string]int64{}, Maxes: map[string]int64{}, Outcomes: map[string]int64{}}
	allStates := map[uint64]struct{}{}
	vio := map[string]*Violation{}
	var vorder []string
	noteSet := map[string]bool{}
	for i := 0; i < n; i++ {
		outf := filepath.Join(tmp, fmt.Sprintf("w%d.json", i))
		data, err := os.ReadFile(outf)
		if err != nil {
			fmt.Fprintf(os.Stderr, "HARNESS-ERROR: %v\n", err)
			return 2
		}
		var wo workerOut
		if err := json.Unmarshal(data, &wo); err != nil {
			fmt.Fprintf(os.Stderr, "HARNESS-ERROR: %v\n", err)
			return 2
		}
		merged.Evals += wo.Evals
		merged.Distinct += wo.Distinct
		for k, v := range wo.Counters {
			merged.Counters[k] += v
		}
		for k, v := range wo.Maxes {
			if v > merged.Maxes[k] {
				merged.Maxes[k] = v
			}
		}
		for k, v := range wo.Outcomes {
			merged.Outcomes[k] += v
		}
		if len(merged.Samples) < 6 {
			merged.Samples = append(merged.Samples, wo.Samples...)
		}
		for _, s := range wo.Notes {
			if !noteSet[s] {
				noteSet[s] = true
				merged.Notes = append(merged.Notes, s)
			}
		}
		merged.Cut = merged.Cut || wo.Cut
		for _, v := range wo.Violations {
			if old, ok := vio[v.Key]; ok {
				old.N += v.N
			} else {
				vio[v.Key] = v
				vorder = append(vorder, v.Key)
			}
		}
		if sd, err := os.ReadFile(outf + ".states"); err == nil {
			for j := 0; j+8 <= len(sd); j += 8 {
				allStates[binary.LittleEndian.Uint64(sd[j:])] = struct{}{}
			}
		}
	}
	sort.Strings(vorder)

	exit := 0
	nViol := 0
	nKnown := 0
	var unconfirmed []string
	for _, key := range vorder {
		v := vio[key]
		if k, ok := known[key]; ok {
			fmt.Printf("KNOWN-FINDING: property=%s key=%s %s (cases=%d)\n", spec.ID, key, k.What, v.N)
			nKnown++
			if rec, has := k.Cases[tier]; !has || v.N <= rec {
				continue
			}
			// the listed finding fails on more cases than when it was recorded
			v = &Violation{Key: key + ".more-cases-than-recorded", N: v.N, Case: v.Case,
				What: fmt.Sprintf("the known finding %s now fails on %d enumerated cases, %d were recorded for this tier: a different violation hides behind the listed key (first failing case of the key: %s)", key, v.N, k.Cases[tier], v.What)}
			sum := sha256.Sum256(append([]byte(v.Key+"\x00"), v.Case...))
			dir := filepath.Join(OutDir, "replays", spec.ID)
			os.MkdirAll(dir, 0755)
			path := filepath.Join(dir, hex.EncodeToString(sum[:8])+".json")
			data, _ := json.MarshalIndent(v, "", " ")
			os.WriteFile(path, data, 0644)
			fmt.Printf("VIOLATION property=%s replay=%s\n", spec.ID, path)
			fmt.Printf("  key=%s cases=%d: %s\n", v.Key, v.N, v.What)
			nViol++
			exit = 1
			continue
		}
		ok, why := confirm(spec, v, tier, seed)
		if !ok && sampledKey(key) {
			// a report of a free-running (sampled) race-detector pass that three further passes do not show again:
			// recorded, not alarmed - the pass samples schedules, and only what shows again is held against the tree
			note := fmt.Sprintf("sampled report not reproduced in 3 further passes (recorded, not alarmed): key=%s %s", key, firstLines(v.What, 12))
			fmt.Printf("SAMPLED-REPORT-NOT-REPRODUCED: property=%s key=%s %s\n", spec.ID, key, firstLines(v.What, 12))
			merged.Notes = append(merged.Notes, note)
			continue
		}
		if !ok {
			// A report that its own case descriptor does not reproduce in a fresh process (state carried over from
			// an earlier case of the same worker, or a harness error). It is never printed as a VIOLATION; if another
			// key of this run IS confirmed by three replays the run reports that one, otherwise it ends as a harness error.
			fmt.Fprintf(os.Stderr, "NONDETERMINISM: %s\n  first report: %s\n  case: %s\n", why, v.What, string(v.Case))
			unconfirmed = append(unconfirmed, key)
			continue
		}
		sum := sha256.Sum256(append([]byte(key+"\x00"), v.Case...))
		dir := filepath.Join(OutDir, "replays", spec.ID)
		os.MkdirAll(dir, 0755)
		path := filepath.Join(dir, hex.EncodeToString(sum[:8])+".json")
		data, _ := json.MarshalIndent(v, "", " ")
		os.WriteFile(path, data, 0644)
		fmt.Printf("VIOLATION property=%s replay=%s\n", spec.ID, path)
		fmt.Printf("  key=%s cases=%d: %s\n", key, v.N, v.What)
		nViol++
		exit = 1
	}

	if len(unconfirmed) > 0 {
		if nViol == 0 {
			return 2
		}
		merged.Notes = append(merged.Notes, fmt.Sprintf("reports not reproduced by their own case descriptor in a fresh process (not alarmed; confirmed violations of this run are listed): %v", unconfirmed))
	}
	wall := time.Since(start).Seconds()
	cov := map[string]any{
		"evaluations":         merged.Evals,
		"distinct_nontrivial": merged.Distinct,
		"rule":                spec.Rule,
		"samples":             merged.Samples,
		"exhaustive":          !merged.Cut,
		"outcomes":            merged.Outcomes,
		"distinct_outcomes":   len(merged.Outcomes),
		"counters":            merged.Counters,
		"maxima":              merged.Maxes,
		"workers":             n,
		"known_findings_hit":  nKnown,
		"budget_s":            b.Seconds(),
	}
	if len(merged.Notes) > 0 {
		sort.Strings(merged.Notes)
		cov["notes"] = merged.Notes
	}
	if spec.Level == "model_checking" {
		cov["states"] = len(allStates)
		cov["transitions"] = merged.Counters["transitions"]
		cov["traces_validated_against_impl"] = merged.Counters["executions"]
	}
	if spec.Extra != nil {
		spec.Extra(merged.Counters, cov)
	}
	ev := map[string]any{
		"property_id": spec.ID,
		"tier":        tier,
		"seed":        seed,
		"level":       spec.Level,
		"coverage":    cov,
		"assumptions": spec.Assumptions,
		"wall_s":      wall,
		"violations":  nViol,
	}
	data, _ := json.MarshalIndent(ev, "", " ")
	os.MkdirAll(filepath.Join(OutDir, "evidence"), 0755)
	if err := os.WriteFile(filepath.Join(OutDir, "evidence", spec.ID+".json"), data, 0644); err != nil {
		fmt.Fprintln(os.Stderr, err)
		return 2
	}
	fmt.Printf("%s tier=%s evaluations=%d distinct_nontrivial=%d outcomes=%d exhaustive=%v violations=%d known=%d wall=%.1fs\n",
		spec.ID, tier, merged.Evals, merged.Distinct, len(merged.Outcomes), !merged.Cut, nViol, nKnown, wall)
	if spec.Level == "model_checking" {
		fmt.Printf("%s states=%d transitions=%d executions=%d\n", spec.ID, len(allStates),
			merged.Counters["transitions"], merged.Counters["executions"])
	}
	if len(merged.Outcomes) <= 1 && merged.Evals > 1 {
		fmt.Printf("%s WARNING: a single outcome class over %d evaluations (vacuity check)\n", spec.ID, merged.Evals)
	}
	return exit
}

// sampledKey: violation keys produced by the free-running race-detector passes.
func sampledKey(key string) bool {
	return strings.Contains(key, "data-race") || strings.Contains(key, "free-running") || strings.Contains(key, "concurrent-compilation")
}

func firstLines(s string, n int) string {
	lines := strings.Split(s, "\n")
	if len(lines) > n {
		lines = lines[:n]
	}
	return strings.Join(lines, " / ")
}

// RaceDeadlineArg is the -timeout of a free-running race-detector pass: far above its normal duration (seconds), so
// that a body that hangs on the tree under check (real goroutines, no scheduler to call it a deadlock) does not hold
// the check for go test's default ten minutes. Running into it is RECORDED, not alarmed (RaceDeadlineHit): deadlocks
// are decided by the controlled exploration, exactly; a wall-clock deadline is never an oracle here.
func RaceDeadlineArg(ctx *Ctx) string {
	if ctx.Quick() {
		return "-timeout=240s"
	}
	return "-timeout=1200s"
}

// RaceDeadlineHit records a free-running pass that ran into its deadline; true if the output shows one.
func RaceDeadlineHit(ctx *Ctx, what, out string) bool {
	if !strings.Contains(out, "test timed out after") {
		return false
	}
	t := out
	if len(t) > 600 {
		t = t[:600]
	}
	ctx.Outcome("race-pass-deadline(recorded, not alarmed)")
	ctx.Note("free-running " + what + " ran into its deadline (recorded, not alarmed; deadlocks are decided by the controlled exploration): " + firstLines(t, 6))
	return true
}

// RacePass runs `go test -race` on one of the harness's free-running packages (unmodified code, real goroutines) and
// turns a race report or a failing test into a violation on case k. The schedules are sampled by the Go scheduler:
// this is the declared complement of the controlled exploration, which cannot see accesses between two
// synchronisation operations. quickCount / thoroughCount are the -count values.
func RacePass(ctx *Ctx, pkg, what string, quickCount, thoroughCount int, k interface{}) {
	count := strconv.Itoa(thoroughCount)
	args := []string{"test", "-race", "-vet=off"}
	if ctx.Quick() {
		count = strconv.Itoa(quickCount)
		args = append(args, "-short")
	}
	args = append(args, "-count="+count)
	// A free-running body that hangs on the tree under check (real goroutines, no scheduler to call it a deadlock)
	// must not hold the check for go test's default ten minutes: the pass gets a deadline far above its normal
	// duration (seconds), and running into it is RECORDED, not alarmed - deadlocks are decided by the controlled
	// exploration, exactly; a wall-clock deadline is never an oracle here.
	args = append(args, RaceDeadlineArg(ctx))
	if RepoDir != "/repo" {
		args = append(args, "-modfile="+os.Getenv("VERIF_WORK")+"/go.mod")
	}
	cmd := exec.Command("go", append(args, "./"+pkg+"/")...)
	cmd.Dir = "/verif/harness"
	cmd.Env = append(os.Environ(), "GOFLAGS=-mod=mod", "GOPROXY=off")
	out, err := cmd.CombinedOutput()
	ctx.Eval(1)
	o := string(out)
	tail := o
	if len(tail) > 1500 {
		tail = tail[len(tail)-1500:]
	}
	switch {
	case strings.Contains(o, "WARNING: DATA RACE"):
		i := strings.Index(o, "WARNING: DATA RACE")
		end := i + 1500
		if end > len(o) {
			end = len(o)
		}
		ctx.Violate("data-race", "race detector report in free-running "+what+": "+o[i:end], k)
	case err != nil && RaceDeadlineHit(ctx, what, o):
	case err != nil && strings.Contains(o, "--- FAIL"):
		ctx.Violate("wrong-output.free-running", "free-running "+what+" failed: "+tail, k)
	case err != nil:
		panic("race pass could not run: " + tail)
	default:
		ctx.Outcome("race-pass-clean/count=" + count)
		ctx.NontrivialN(1)
	}
}
