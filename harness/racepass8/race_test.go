// Package racepass8 compiles programs concurrently in one process, free-running on unmodified code, for the race
// detector, and compares every result with the sequential one (C08: compilation is deterministic also when other
// compilations run at the same time, as apps/karatsuba and apps/circ-iter do).
package racepass8

import (
	"bytes"
	"sync"
	"testing"

	"github.com/markkurossi/mpc/compiler"
	"github.com/markkurossi/mpc/compiler/utils"
)

var programs = []string{
	"package main\n\nfunc main(a, b uint8) uint8 {\n\treturn a*b + a/(b|1)\n}\n",
	"package main\n\nfunc main(a, b uint32) (uint32, bool) {\n\tif a > b {\n\t\treturn a - b, true\n\t}\n\treturn a * b, false\n}\n",
	"package main\n\nfunc main(a [4]uint8, b uint8) uint8 {\n\tvar s uint8\n\tfor i := 0; i < 4; i++ {\n\t\ts = s + a[i]*b\n\t}\n\treturn s\n}\n",
	"package main\n\nimport (\n\t\"crypto/sha256\"\n)\n\nfunc main(a [8]byte, b [8]byte) [32]byte {\n\tvar d [16]byte\n\tfor i := 0; i < 8; i++ {\n\t\td[i] = a[i]\n\t\td[i+8] = b[i]\n\t}\n\treturn sha256.Sum256(d[:])\n}\n",
}

func compile(src string) ([]byte, error) {
	params := utils.NewParams()
	defer params.Close()
	c, _, err := compiler.New(params).Compile(src, nil)
	if err != nil {
		return nil, err
	}
	var buf bytes.Buffer
	if err := c.Marshal(&buf); err != nil {
		return nil, err
	}
	return buf.Bytes(), nil
}

func TestConcurrentCompilations(t *testing.T) {
	if testing.Short() {
		programs = programs[:3]
	}
	var base [][]byte
	for _, p := range programs {
		b, err := compile(p)
		if err != nil {
			t.Fatalf("sequential compile: %v", err)
		}
		base = append(base, b)
	}
	var wg sync.WaitGroup
	for g := 0; g < 8; g++ {
		wg.Add(1)
		go func(g int) {
			defer wg.Done()
			for it := 0; it < 6; it++ {
				i := (g + it) % len(programs)
				b, err := compile(programs[i])
				if err != nil {
					t.Errorf("goroutine %d: compile of program %d: %v", g, i, err)
					return
				}
				if !bytes.Equal(b, base[i]) {
					t.Errorf("goroutine %d: program %d compiled concurrently gives %d bytes that differ from the sequential %d bytes", g, i, len(b), len(base[i]))
					return
				}
			}
		}(g)
	}
	wg.Wait()
}
