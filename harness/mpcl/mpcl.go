// Package mpcl wraps the repository's compiler for the harness.
package mpcl

import (
	"bytes"
	"fmt"
	"io"
	"os"
	"sync"

	"github.com/markkurossi/mpc/circuit"
	"github.com/markkurossi/mpc/compiler"
	"github.com/markkurossi/mpc/compiler/utils"
)

// Opts selects compiler options.
type Opts struct {
	Target    utils.Target
	Prune     bool
	MultArray int
	PkgPath   []string
	SSA       bool
}

type nopCloser struct{ io.Writer }

func (nopCloser) Close() error { return nil }

var stdoutMu sync.Mutex

// Compile compiles the source; a compiler panic is returned as an error
// with Panicked=true.
func Compile(src string, o Opts, sizes [][]int) (c *circuit.Circuit, ssa string, err error, panicked bool) {
	params := utils.NewParams()
	params.Target = o.Target
	params.OptPruneGates = o.Prune
	params.CircMultArrayTreshold = o.MultArray
	params.PkgPath = o.PkgPath
	var buf bytes.Buffer
	if o.SSA {
		params.SSAOut = nopCloser{&buf}
	}
	defer params.Close()
	defer func() {
		if r := recover(); r != nil {
			err = fmt.Errorf("compiler panic: %v", r)
			panicked = true
		}
	}()
	c, _, err = compiler.New(params).Compile(src, sizes)
	if err == nil && c != nil {
		c.AssignLevels(o.Target)
	}
	return c, buf.String(), err, false
}

// Quiet redirects the process's stdout to /dev/null (the compiler's logger
// prints errors there); workers call it once.
func Quiet() {
	if f, err := os.OpenFile(os.DevNull, os.O_WRONLY, 0); err == nil {
		os.Stdout = f
	}
}
