// Package vsync mirrors the parts of package sync the repository uses, on
// top of the cooperative scheduler: every operation is a scheduling point
// and blocking is modelled as "not enabled".
package vsync

import (
	"github.com/markkurossi/mpc/zverif/csched"
)

// Locker mirrors sync.Locker.
type Locker interface {
	Lock()
	Unlock()
}

// Mutex mirrors sync.Mutex.
type Mutex struct {
	id    int
	owner int // thread id + 1, 0 = free
}

func (m *Mutex) init() {
	if m.id == 0 {
		m.id = csched.NewObj(func() uint64 { return uint64(m.owner) })
	}
}

// Lock mirrors sync.Mutex.Lock.
func (m *Mutex) Lock() {
	m.init()
	csched.SchedPoint("lock", m.id, func() bool { return m.owner == 0 })
	m.owner = csched.CurrentThread() + 1
}

// TryLock mirrors sync.Mutex.TryLock.
func (m *Mutex) TryLock() bool {
	m.init()
	csched.SchedPoint("trylock", m.id, nil)
	if m.owner != 0 {
		return false
	}
	m.owner = csched.CurrentThread() + 1
	return true
}

// Unlock mirrors sync.Mutex.Unlock.
func (m *Mutex) Unlock() {
	m.init()
	csched.SchedPoint("unlock", m.id, nil)
	if m.owner == 0 {
		panic("sync: unlock of unlocked mutex")
	}
	m.owner = 0
}

func (m *Mutex) unlockNoPoint() {
	if m.owner == 0 {
		panic("sync: unlock of unlocked mutex")
	}
	m.owner = 0
}

// RWMutex is modelled as an exclusive lock (sound for safety: fewer
// concurrent readers never hide a writer conflict; it may hide reader
// parallelism only).
type RWMutex struct{ Mutex }

// RLock mirrors sync.RWMutex.RLock.
func (m *RWMutex) RLock() { m.Lock() }

// RUnlock mirrors sync.RWMutex.RUnlock.
func (m *RWMutex) RUnlock() { m.Unlock() }

type waiter struct{ signalled bool }

// Cond mirrors sync.Cond.
type Cond struct {
	L       Locker
	id      int
	waiters []*waiter
}

// NewCond mirrors sync.NewCond.
func NewCond(l Locker) *Cond {
	c := &Cond{L: l}
	c.id = csched.NewObj(func() uint64 { return uint64(len(c.waiters)) })
	return c
}

// Wait mirrors sync.Cond.Wait: enqueue and unlock atomically, block until
// signalled, re-lock.
func (c *Cond) Wait() {
	w := &waiter{}
	c.waiters = append(c.waiters, w)
	if m, ok := c.L.(*Mutex); ok {
		m.unlockNoPoint()
	} else {
		c.L.Unlock()
	}
	csched.SchedPoint("cond-wait", c.id, func() bool { return w.signalled })
	c.L.Lock()
}

// Signal mirrors sync.Cond.Signal (wakes the longest waiter; which waiter is
// an environment choice).
func (c *Cond) Signal() {
	csched.SchedPoint("signal", c.id, nil)
	if len(c.waiters) == 0 {
		return
	}
	i := csched.Choose("signal-waiter", len(c.waiters))
	c.waiters[i].signalled = true
	c.waiters = append(c.waiters[:i], c.waiters[i+1:]...)
}

// Broadcast mirrors sync.Cond.Broadcast.
func (c *Cond) Broadcast() {
	csched.SchedPoint("broadcast", c.id, nil)
	for _, w := range c.waiters {
		w.signalled = true
	}
	c.waiters = nil
}

// WaitGroup mirrors sync.WaitGroup.
type WaitGroup struct {
	id int
	n  int
}

func (wg *WaitGroup) init() {
	if wg.id == 0 {
		wg.id = csched.NewObj(func() uint64 { return uint64(wg.n) })
	}
}

// Add mirrors sync.WaitGroup.Add.
func (wg *WaitGroup) Add(delta int) {
	wg.init()
	csched.SchedPoint("wg-add", wg.id, nil)
	wg.n += delta
	if wg.n < 0 {
		panic("sync: negative WaitGroup counter")
	}
}

// Done mirrors sync.WaitGroup.Done.
func (wg *WaitGroup) Done() { wg.Add(-1) }

// Wait mirrors sync.WaitGroup.Wait.
func (wg *WaitGroup) Wait() {
	wg.init()
	csched.SchedPoint("wg-wait", wg.id, func() bool { return wg.n == 0 })
}

// Go mirrors sync.WaitGroup.Go.
func (wg *WaitGroup) Go(f func()) {
	wg.Add(1)
	csched.Go(func() {
		defer wg.Done()
		f()
	})
}

// Once mirrors sync.Once.
type Once struct {
	m    Mutex
	done bool
}

// Do mirrors sync.Once.Do.
func (o *Once) Do(f func()) {
	o.m.Lock()
	defer o.m.Unlock()
	if !o.done {
		o.done = true
		f()
	}
}

// PoolObserver, if set, is told about every Get (item, fromNew) and Put.
var PoolObserver func(op string, item interface{})

// Pool mirrors sync.Pool. Which pooled item Get returns (or a fresh one
// from New) is an environment choice: that is what sync.Pool may legally do.
type Pool struct {
	New   func() interface{}
	id    int
	items []interface{}
}

func (p *Pool) init() {
	if p.id == 0 {
		p.id = csched.NewObj(func() uint64 { return uint64(len(p.items)) })
	}
}

// Get mirrors sync.Pool.Get.
func (p *Pool) Get() interface{} {
	p.init()
	csched.SchedPoint("pool-get", p.id, nil)
	n := len(p.items)
	alts := n
	if p.New != nil {
		alts++
	}
	if alts == 0 {
		return nil
	}
	c := csched.Choose("pool-get", alts)
	if c < n {
		// alternative 0 = most recently put
		i := n - 1 - c
		it := p.items[i]
		p.items = append(p.items[:i], p.items[i+1:]...)
		if PoolObserver != nil {
			PoolObserver("get", it)
		}
		return it
	}
	it := p.New()
	if PoolObserver != nil {
		PoolObserver("new", it)
	}
	return it
}

// Put mirrors sync.Pool.Put.
func (p *Pool) Put(x interface{}) {
	p.init()
	csched.SchedPoint("pool-put", p.id, nil)
	if x == nil {
		return
	}
	if PoolObserver != nil {
		PoolObserver("put", x)
	}
	p.items = append(p.items, x)
}
