// Package vsync mirrors the parts of package sync the repository uses, on
// top of the cooperative scheduler: every operation is a scheduling point
// and blocking is modelled as "not enabled".
package vsync

import (
	"github.com/markkurossi/mpc/zverif/csched"
)

// Locker mirrors sync.Locker.
type Locker interface {
	Lock()
	Unlock()
}

// Mutex mirrors sync.Mutex.
type Mutex struct {
	id    int
	owner int // thread id + 1, 0 = free
}

func (m *Mutex) init() {
	if m.id == 0 {
		m.id = csched.NewObj(func() uint64 { return uint64(m.owner) })
	}
}

// Lock mirrors sync.Mutex.Lock.
func (m *Mutex) Lock() {
	m.init()
	csched.SchedPoint("lock", m.id, func() bool { return m.owner == 0 })
	m.owner = csched.CurrentThread() + 1
}

// TryLock mirrors sync.Mutex.TryLock.
func (m *Mutex) TryLock() bool {
	m.init()
	csched.SchedPoint("trylock", m.id, nil)
	if m.owner != 0 {
		return false
	}
	m.owner = csched.CurrentThread() + 1
	return true
}

// Unlock mirrors sync.Mutex.Unlock.
func (m *Mutex) Unlock() {
	m.init()
	csched.SchedPoint("unlock", m.id, nil)
	if m.owner == 0 {
		panic("sync: unlock of unlocked mutex")
	}
	m.owner = 0
	// a second point behind the effect: what the caller does right after leaving the critical section (reading
	// state it no longer protects) can then be overtaken by the next owner
	csched.SchedPoint("unlock-done", m.id, nil)
}

func (m *Mutex) unlockNoPoint() {
	if m.owner == 0 {
		panic("sync: unlock of unlocked mutex")
	}
	m.owner = 0
}

// RWMutex mirrors sync.RWMutex: any number of readers or one writer. Writer
// preference (a waiting writer blocking new readers) is not modelled: the
// model admits every behaviour of the real lock except that a recursive read
// lock never deadlocks against a waiting writer.
type RWMutex struct {
	id      int
	writer  int // thread id + 1, 0 = no writer
	readers int
}

func (m *RWMutex) init() {
	if m.id == 0 {
		m.id = csched.NewObj(func() uint64 { return uint64(m.writer)<<16 | uint64(m.readers) })
	}
}

// Lock mirrors sync.RWMutex.Lock.
func (m *RWMutex) Lock() {
	m.init()
	csched.SchedPoint("lock", m.id, func() bool { return m.writer == 0 && m.readers == 0 })
	m.writer = csched.CurrentThread() + 1
}

// TryLock mirrors sync.RWMutex.TryLock.
func (m *RWMutex) TryLock() bool {
	m.init()
	csched.SchedPoint("trylock", m.id, nil)
	if m.writer != 0 || m.readers != 0 {
		return false
	}
	m.writer = csched.CurrentThread() + 1
	return true
}

// Unlock mirrors sync.RWMutex.Unlock.
func (m *RWMutex) Unlock() {
	m.init()
	csched.SchedPoint("unlock", m.id, nil)
	if m.writer == 0 {
		panic("sync: Unlock of unlocked RWMutex")
	}
	m.writer = 0
}

// RLock mirrors sync.RWMutex.RLock.
func (m *RWMutex) RLock() {
	m.init()
	csched.SchedPoint("rlock", m.id, func() bool { return m.writer == 0 })
	m.readers++
}

// TryRLock mirrors sync.RWMutex.TryRLock.
func (m *RWMutex) TryRLock() bool {
	m.init()
	csched.SchedPoint("tryrlock", m.id, nil)
	if m.writer != 0 {
		return false
	}
	m.readers++
	return true
}

// RUnlock mirrors sync.RWMutex.RUnlock.
func (m *RWMutex) RUnlock() {
	m.init()
	csched.SchedPoint("runlock", m.id, nil)
	if m.readers == 0 {
		panic("sync: RUnlock of unlocked RWMutex")
	}
	m.readers--
}

type rlocker RWMutex

func (r *rlocker) Lock()   { (*RWMutex)(r).RLock() }
func (r *rlocker) Unlock() { (*RWMutex)(r).RUnlock() }

// RLocker mirrors sync.RWMutex.RLocker.
func (m *RWMutex) RLocker() Locker { return (*rlocker)(m) }

type waiter struct{ signalled bool }

// Cond mirrors sync.Cond.
type Cond struct {
	L       Locker
	id      int
	waiters []*waiter
}

// NewCond mirrors sync.NewCond.
func NewCond(l Locker) *Cond {
	c := &Cond{L: l}
	c.id = csched.NewObj(func() uint64 { return uint64(len(c.waiters)) })
	c.alias()
	return c
}

// alias puts the condition variable and its mutex into one dependence group: Wait enqueues the waiter and
// releases the mutex inside the transition that ran up to it.
func (c *Cond) alias() {
	switch m := c.L.(type) {
	case *Mutex:
		m.init()
		csched.Alias(c.id, m.id)
	case *RWMutex:
		m.init()
		csched.Alias(c.id, m.id)
	}
}

// Wait mirrors sync.Cond.Wait: enqueue and unlock atomically, block until
// signalled, re-lock.
func (c *Cond) Wait() {
	w := &waiter{}
	c.alias()
	c.waiters = append(c.waiters, w)
	if m, ok := c.L.(*Mutex); ok {
		m.unlockNoPoint()
	} else {
		c.L.Unlock()
	}
	csched.SchedPoint("cond-wait", c.id, func() bool { return w.signalled })
	c.L.Lock()
}

// Signal mirrors sync.Cond.Signal (wakes the longest waiter; which waiter is
// an environment choice).
func (c *Cond) Signal() {
	csched.SchedPoint("signal", c.id, nil)
	if len(c.waiters) == 0 {
		return
	}
	i := csched.Choose("signal-waiter", len(c.waiters))
	c.waiters[i].signalled = true
	c.waiters = append(c.waiters[:i], c.waiters[i+1:]...)
}

// Broadcast mirrors sync.Cond.Broadcast.
func (c *Cond) Broadcast() {
	csched.SchedPoint("broadcast", c.id, nil)
	for _, w := range c.waiters {
		w.signalled = true
	}
	c.waiters = nil
}

// WaitGroup mirrors sync.WaitGroup.
type WaitGroup struct {
	id int
	n  int
}

func (wg *WaitGroup) init() {
	if wg.id == 0 {
		wg.id = csched.NewObj(func() uint64 { return uint64(wg.n) })
	}
}

// Add mirrors sync.WaitGroup.Add.
func (wg *WaitGroup) Add(delta int) {
	wg.init()
	csched.SchedPoint("wg-add", wg.id, nil)
	wg.n += delta
	if wg.n < 0 {
		panic("sync: negative WaitGroup counter")
	}
}

// Done mirrors sync.WaitGroup.Done.
func (wg *WaitGroup) Done() { wg.Add(-1) }

// Wait mirrors sync.WaitGroup.Wait.
func (wg *WaitGroup) Wait() {
	wg.init()
	csched.SchedPoint("wg-wait", wg.id, func() bool { return wg.n == 0 })
}

// Go mirrors sync.WaitGroup.Go.
func (wg *WaitGroup) Go(f func()) {
	wg.Add(1)
	csched.Go(func() {
		defer wg.Done()
		f()
	})
}

// Once mirrors sync.Once.
type Once struct {
	m    Mutex
	done bool
}

// Do mirrors sync.Once.Do.
func (o *Once) Do(f func()) {
	o.m.Lock()
	defer o.m.Unlock()
	if !o.done {
		o.done = true
		f()
	}
}

// PoolObserver, if set, is told about every Get (item, fromNew) and Put.
var PoolObserver func(op string, item interface{})

// Pool mirrors sync.Pool. Which pooled item Get returns (or a fresh one
// from New) is an environment choice: that is what sync.Pool may legally do.
type Pool struct {
	New   func() interface{}
	id    int
	items []interface{}
}

func (p *Pool) init() {
	if p.id == 0 {
		p.id = csched.NewObj(func() uint64 { return uint64(len(p.items)) })
	}
}

// Get mirrors sync.Pool.Get.
func (p *Pool) Get() interface{} {
	p.init()
	csched.SchedPoint("pool-get", p.id, nil)
	n := len(p.items)
	alts := n
	if p.New != nil {
		alts++
	}
	if alts == 0 {
		return nil
	}
	c := csched.Choose("pool-get", alts)
	if c < n {
		// alternative 0 = most recently put
		i := n - 1 - c
		it := p.items[i]
		p.items = append(p.items[:i], p.items[i+1:]...)
		if PoolObserver != nil {
			PoolObserver("get", it)
		}
		return it
	}
	it := p.New()
	if PoolObserver != nil {
		PoolObserver("new", it)
	}
	return it
}

// Put mirrors sync.Pool.Put.
func (p *Pool) Put(x interface{}) {
	p.init()
	csched.SchedPoint("pool-put", p.id, nil)
	if x == nil {
		return
	}
	if PoolObserver != nil {
		PoolObserver("put", x)
	}
	p.items = append(p.items, x)
	// a second point AFTER the item is in the pool: the code that follows a Put (up to the caller's next
	// operation) would otherwise be atomic with it, and a caller that goes on using what it has just given back
	// could never be overtaken by the next Get
	csched.SchedPoint("pool-put-done", p.id, nil)
}

// Map mirrors sync.Map: every operation is one scheduling point; Range visits
// the entries in insertion order (the real order is unspecified).
type Map struct {
	id   int
	keys []interface{}
	vals map[interface{}]interface{}
}

func (m *Map) init() {
	if m.id == 0 {
		m.vals = map[interface{}]interface{}{}
		m.id = csched.NewObj(func() uint64 { return uint64(len(m.keys)) })
	}
}

func (m *Map) drop(key interface{}) {
	for i, k := range m.keys {
		if k == key {
			m.keys = append(m.keys[:i], m.keys[i+1:]...)
			break
		}
	}
	delete(m.vals, key)
}

// Load mirrors sync.Map.Load.
func (m *Map) Load(key interface{}) (interface{}, bool) {
	m.init()
	csched.SchedPoint("map-load", m.id, nil)
	v, ok := m.vals[key]
	return v, ok
}

// Store mirrors sync.Map.Store.
func (m *Map) Store(key, value interface{}) {
	m.init()
	csched.SchedPoint("map-store", m.id, nil)
	if _, ok := m.vals[key]; !ok {
		m.keys = append(m.keys, key)
	}
	m.vals[key] = value
}

// Swap mirrors sync.Map.Swap.
func (m *Map) Swap(key, value interface{}) (interface{}, bool) {
	m.init()
	csched.SchedPoint("map-swap", m.id, nil)
	old, ok := m.vals[key]
	if !ok {
		m.keys = append(m.keys, key)
	}
	m.vals[key] = value
	return old, ok
}

// LoadOrStore mirrors sync.Map.LoadOrStore.
func (m *Map) LoadOrStore(key, value interface{}) (interface{}, bool) {
	m.init()
	csched.SchedPoint("map-loadorstore", m.id, nil)
	if v, ok := m.vals[key]; ok {
		return v, true
	}
	m.keys = append(m.keys, key)
	m.vals[key] = value
	return value, false
}

// LoadAndDelete mirrors sync.Map.LoadAndDelete.
func (m *Map) LoadAndDelete(key interface{}) (interface{}, bool) {
	m.init()
	csched.SchedPoint("map-loadanddelete", m.id, nil)
	v, ok := m.vals[key]
	if ok {
		m.drop(key)
	}
	return v, ok
}

// Delete mirrors sync.Map.Delete.
func (m *Map) Delete(key interface{}) {
	m.init()
	csched.SchedPoint("map-delete", m.id, nil)
	m.drop(key)
}

// CompareAndSwap mirrors sync.Map.CompareAndSwap.
func (m *Map) CompareAndSwap(key, old, new interface{}) bool {
	m.init()
	csched.SchedPoint("map-cas", m.id, nil)
	if v, ok := m.vals[key]; ok && v == old {
		m.vals[key] = new
		return true
	}
	return false
}

// CompareAndDelete mirrors sync.Map.CompareAndDelete.
func (m *Map) CompareAndDelete(key, old interface{}) bool {
	m.init()
	csched.SchedPoint("map-cad", m.id, nil)
	if v, ok := m.vals[key]; ok && v == old {
		m.drop(key)
		return true
	}
	return false
}

// Range mirrors sync.Map.Range over a snapshot of the keys.
func (m *Map) Range(f func(key, value interface{}) bool) {
	m.init()
	csched.SchedPoint("map-range", m.id, nil)
	keys := append([]interface{}(nil), m.keys...)
	for _, k := range keys {
		v, ok := m.vals[k]
		if !ok {
			continue
		}
		if !f(k, v) {
			return
		}
	}
}

// Clear mirrors sync.Map.Clear.
func (m *Map) Clear() {
	m.init()
	csched.SchedPoint("map-clear", m.id, nil)
	m.keys = nil
	m.vals = map[interface{}]interface{}{}
}

// OnceFunc mirrors sync.OnceFunc.
func OnceFunc(f func()) func() {
	var o Once
	return func() { o.Do(f) }
}

// OnceValue mirrors sync.OnceValue.
func OnceValue[T any](f func() T) func() T {
	var o Once
	var v T
	return func() T {
		o.Do(func() { v = f() })
		return v
	}
}

// OnceValues mirrors sync.OnceValues.
func OnceValues[T1, T2 any](f func() (T1, T2)) func() (T1, T2) {
	var o Once
	var v1 T1
	var v2 T2
	return func() (T1, T2) {
		o.Do(func() { v1, v2 = f() })
		return v1, v2
	}
}
