// Package vatomic mirrors the parts of sync/atomic the repository uses; every
// operation is a scheduling point.
package vatomic

import (
	"unsafe"

	"github.com/markkurossi/mpc/zverif/csched"
)

// Uint64 mirrors atomic.Uint64.
type Uint64 struct {
	id int
	v  uint64
}

func (x *Uint64) init() {
	if x.id == 0 {
		x.id = csched.NewObj(func() uint64 { return x.v })
	}
}

// Load mirrors atomic.Uint64.Load.
func (x *Uint64) Load() uint64 { x.init(); csched.SchedPoint("aload", x.id, nil); return x.v }

// Store mirrors atomic.Uint64.Store.
func (x *Uint64) Store(v uint64) { x.init(); csched.SchedPoint("astore", x.id, nil); x.v = v }

// Add mirrors atomic.Uint64.Add.
func (x *Uint64) Add(d uint64) uint64 {
	x.init()
	csched.SchedPoint("aadd", x.id, nil)
	x.v += d
	return x.v
}

// CompareAndSwap mirrors atomic.Uint64.CompareAndSwap.
func (x *Uint64) CompareAndSwap(old, new uint64) bool {
	x.init()
	csched.SchedPoint("acas", x.id, nil)
	if x.v == old {
		x.v = new
		return true
	}
	return false
}

// Int32, Int64, Uint32, Bool: same pattern.
type Int64 struct {
	id int
	v  int64
}

func (x *Int64) init() {
	if x.id == 0 {
		x.id = csched.NewObj(func() uint64 { return uint64(x.v) })
	}
}
func (x *Int64) Load() int64   { x.init(); csched.SchedPoint("aload", x.id, nil); return x.v }
func (x *Int64) Store(v int64) { x.init(); csched.SchedPoint("astore", x.id, nil); x.v = v }
func (x *Int64) Add(d int64) int64 {
	x.init()
	csched.SchedPoint("aadd", x.id, nil)
	x.v += d
	return x.v
}

type Int32 struct {
	id int
	v  int32
}

func (x *Int32) init() {
	if x.id == 0 {
		x.id = csched.NewObj(func() uint64 { return uint64(x.v) })
	}
}
func (x *Int32) Load() int32   { x.init(); csched.SchedPoint("aload", x.id, nil); return x.v }
func (x *Int32) Store(v int32) { x.init(); csched.SchedPoint("astore", x.id, nil); x.v = v }
func (x *Int32) Add(d int32) int32 {
	x.init()
	csched.SchedPoint("aadd", x.id, nil)
	x.v += d
	return x.v
}

type Bool struct {
	id int
	v  bool
}

func (x *Bool) init() {
	if x.id == 0 {
		x.id = csched.NewObj(func() uint64 {
			if x.v {
				return 1
			}
			return 0
		})
	}
}
func (x *Bool) Load() bool   { x.init(); csched.SchedPoint("aload", x.id, nil); return x.v }
func (x *Bool) Store(v bool) { x.init(); csched.SchedPoint("astore", x.id, nil); x.v = v }

// Pointer mirrors atomic.Pointer[T].
type Pointer[T any] struct {
	id int
	p  *T
}

func (x *Pointer[T]) init() {
	if x.id == 0 {
		x.id = csched.NewObj(func() uint64 {
			if x.p == nil {
				return 0
			}
			return 1
		})
	}
}

// Load mirrors atomic.Pointer.Load.
func (x *Pointer[T]) Load() *T { x.init(); csched.SchedPoint("pload", x.id, nil); return x.p }

// Store mirrors atomic.Pointer.Store.
func (x *Pointer[T]) Store(p *T) { x.init(); csched.SchedPoint("pstore", x.id, nil); x.p = p }

// Swap mirrors atomic.Pointer.Swap.
func (x *Pointer[T]) Swap(p *T) *T {
	x.init()
	csched.SchedPoint("pswap", x.id, nil)
	old := x.p
	x.p = p
	return old
}

// CompareAndSwap mirrors atomic.Pointer.CompareAndSwap.
func (x *Pointer[T]) CompareAndSwap(old, new *T) bool {
	x.init()
	csched.SchedPoint("pcas", x.id, nil)
	if unsafe.Pointer(x.p) == unsafe.Pointer(old) {
		x.p = new
		return true
	}
	return false
}

// word is an atomic integer cell of any of the types sync/atomic offers.
type word[T ~int32 | ~int64 | ~uint32 | ~uint64 | ~uintptr] struct {
	id int
	v  T
}

func (x *word[T]) init() {
	if x.id == 0 {
		x.id = csched.NewObj(func() uint64 { return uint64(x.v) })
	}
}

// Load mirrors the Load method of the atomic integer types.
func (x *word[T]) Load() T { x.init(); csched.SchedPoint("aload", x.id, nil); return x.v }

// Store mirrors Store.
func (x *word[T]) Store(v T) { x.init(); csched.SchedPoint("astore", x.id, nil); x.v = v }

// Add mirrors Add.
func (x *word[T]) Add(d T) T { x.init(); csched.SchedPoint("aadd", x.id, nil); x.v += d; return x.v }

// Swap mirrors Swap.
func (x *word[T]) Swap(v T) T {
	x.init()
	csched.SchedPoint("aswap", x.id, nil)
	old := x.v
	x.v = v
	return old
}

// CompareAndSwap mirrors CompareAndSwap.
func (x *word[T]) CompareAndSwap(old, new T) bool {
	x.init()
	csched.SchedPoint("acas", x.id, nil)
	if x.v == old {
		x.v = new
		return true
	}
	return false
}

// And mirrors And (returns the old value).
func (x *word[T]) And(m T) T {
	x.init()
	csched.SchedPoint("aand", x.id, nil)
	old := x.v
	x.v &= m
	return old
}

// Or mirrors Or (returns the old value).
func (x *word[T]) Or(m T) T {
	x.init()
	csched.SchedPoint("aor", x.id, nil)
	old := x.v
	x.v |= m
	return old
}

// Uint32 mirrors atomic.Uint32.
type Uint32 struct{ word[uint32] }

// Uintptr mirrors atomic.Uintptr.
type Uintptr struct{ word[uintptr] }

// Swap mirrors atomic.Uint64.Swap.
func (x *Uint64) Swap(v uint64) uint64 {
	x.init()
	csched.SchedPoint("aswap", x.id, nil)
	old := x.v
	x.v = v
	return old
}

// Swap mirrors atomic.Int64.Swap.
func (x *Int64) Swap(v int64) int64 {
	x.init()
	csched.SchedPoint("aswap", x.id, nil)
	old := x.v
	x.v = v
	return old
}

// CompareAndSwap mirrors atomic.Int64.CompareAndSwap.
func (x *Int64) CompareAndSwap(old, new int64) bool {
	x.init()
	csched.SchedPoint("acas", x.id, nil)
	if x.v == old {
		x.v = new
		return true
	}
	return false
}

// Swap mirrors atomic.Int32.Swap.
func (x *Int32) Swap(v int32) int32 {
	x.init()
	csched.SchedPoint("aswap", x.id, nil)
	old := x.v
	x.v = v
	return old
}

// CompareAndSwap mirrors atomic.Int32.CompareAndSwap.
func (x *Int32) CompareAndSwap(old, new int32) bool {
	x.init()
	csched.SchedPoint("acas", x.id, nil)
	if x.v == old {
		x.v = new
		return true
	}
	return false
}

// Swap mirrors atomic.Bool.Swap.
func (x *Bool) Swap(v bool) bool {
	x.init()
	csched.SchedPoint("aswap", x.id, nil)
	old := x.v
	x.v = v
	return old
}

// CompareAndSwap mirrors atomic.Bool.CompareAndSwap.
func (x *Bool) CompareAndSwap(old, new bool) bool {
	x.init()
	csched.SchedPoint("acas", x.id, nil)
	if x.v == old {
		x.v = new
		return true
	}
	return false
}

// Value mirrors atomic.Value.
type Value struct {
	id int
	v  interface{}
}

func (x *Value) init() {
	if x.id == 0 {
		x.id = csched.NewObj(func() uint64 {
			if x.v == nil {
				return 0
			}
			return 1
		})
	}
}

// Load mirrors atomic.Value.Load.
func (x *Value) Load() interface{} { x.init(); csched.SchedPoint("vload", x.id, nil); return x.v }

// Store mirrors atomic.Value.Store.
func (x *Value) Store(v interface{}) {
	if v == nil {
		panic("sync/atomic: store of nil value into Value")
	}
	x.init()
	csched.SchedPoint("vstore", x.id, nil)
	x.v = v
}

// Swap mirrors atomic.Value.Swap.
func (x *Value) Swap(v interface{}) interface{} {
	x.init()
	csched.SchedPoint("vswap", x.id, nil)
	old := x.v
	x.v = v
	return old
}

// CompareAndSwap mirrors atomic.Value.CompareAndSwap.
func (x *Value) CompareAndSwap(old, new interface{}) bool {
	x.init()
	csched.SchedPoint("vcas", x.id, nil)
	if x.v == old {
		x.v = new
		return true
	}
	return false
}

// Function-style operations on plain variables: one scheduling point each.
// The variable has no shim identity, so it does not enter the state hash.

type integer interface {
	~int32 | ~int64 | ~uint32 | ~uint64 | ~uintptr
}

func fload[T integer](p *T) T { csched.SchedPoint("aload", 0, nil); return *p }

func fstore[T integer](p *T, v T) { csched.SchedPoint("astore", 0, nil); *p = v }

func fadd[T integer](p *T, d T) T { csched.SchedPoint("aadd", 0, nil); *p += d; return *p }

func fswap[T integer](p *T, v T) T {
	csched.SchedPoint("aswap", 0, nil)
	old := *p
	*p = v
	return old
}

func fcas[T integer](p *T, old, new T) bool {
	csched.SchedPoint("acas", 0, nil)
	if *p == old {
		*p = new
		return true
	}
	return false
}

func fand[T integer](p *T, m T) T { csched.SchedPoint("aand", 0, nil); old := *p; *p &= m; return old }

func forr[T integer](p *T, m T) T { csched.SchedPoint("aor", 0, nil); old := *p; *p |= m; return old }

// LoadInt32 mirrors atomic.LoadInt32.
func LoadInt32(p *int32) int32 { return fload(p) }

// StoreInt32 mirrors atomic.StoreInt32.
func StoreInt32(p *int32, v int32) { fstore(p, v) }

// AddInt32 mirrors atomic.AddInt32.
func AddInt32(p *int32, d int32) int32 { return fadd(p, d) }

// SwapInt32 mirrors atomic.SwapInt32.
func SwapInt32(p *int32, v int32) int32 { return fswap(p, v) }

// CompareAndSwapInt32 mirrors atomic.CompareAndSwapInt32.
func CompareAndSwapInt32(p *int32, old, new int32) bool { return fcas(p, old, new) }

// AndInt32 mirrors atomic.AndInt32.
func AndInt32(p *int32, m int32) int32 { return fand(p, m) }

// OrInt32 mirrors atomic.OrInt32.
func OrInt32(p *int32, m int32) int32 { return forr(p, m) }

// LoadInt64 mirrors atomic.LoadInt64.
func LoadInt64(p *int64) int64 { return fload(p) }

// StoreInt64 mirrors atomic.StoreInt64.
func StoreInt64(p *int64, v int64) { fstore(p, v) }

// AddInt64 mirrors atomic.AddInt64.
func AddInt64(p *int64, d int64) int64 { return fadd(p, d) }

// SwapInt64 mirrors atomic.SwapInt64.
func SwapInt64(p *int64, v int64) int64 { return fswap(p, v) }

// CompareAndSwapInt64 mirrors atomic.CompareAndSwapInt64.
func CompareAndSwapInt64(p *int64, old, new int64) bool { return fcas(p, old, new) }

// AndInt64 mirrors atomic.AndInt64.
func AndInt64(p *int64, m int64) int64 { return fand(p, m) }

// OrInt64 mirrors atomic.OrInt64.
func OrInt64(p *int64, m int64) int64 { return forr(p, m) }

// LoadUint32 mirrors atomic.LoadUint32.
func LoadUint32(p *uint32) uint32 { return fload(p) }

// StoreUint32 mirrors atomic.StoreUint32.
func StoreUint32(p *uint32, v uint32) { fstore(p, v) }

// AddUint32 mirrors atomic.AddUint32.
func AddUint32(p *uint32, d uint32) uint32 { return fadd(p, d) }

// SwapUint32 mirrors atomic.SwapUint32.
func SwapUint32(p *uint32, v uint32) uint32 { return fswap(p, v) }

// CompareAndSwapUint32 mirrors atomic.CompareAndSwapUint32.
func CompareAndSwapUint32(p *uint32, old, new uint32) bool { return fcas(p, old, new) }

// AndUint32 mirrors atomic.AndUint32.
func AndUint32(p *uint32, m uint32) uint32 { return fand(p, m) }

// OrUint32 mirrors atomic.OrUint32.
func OrUint32(p *uint32, m uint32) uint32 { return forr(p, m) }

// LoadUint64 mirrors atomic.LoadUint64.
func LoadUint64(p *uint64) uint64 { return fload(p) }

// StoreUint64 mirrors atomic.StoreUint64.
func StoreUint64(p *uint64, v uint64) { fstore(p, v) }

// AddUint64 mirrors atomic.AddUint64.
func AddUint64(p *uint64, d uint64) uint64 { return fadd(p, d) }

// SwapUint64 mirrors atomic.SwapUint64.
func SwapUint64(p *uint64, v uint64) uint64 { return fswap(p, v) }

// CompareAndSwapUint64 mirrors atomic.CompareAndSwapUint64.
func CompareAndSwapUint64(p *uint64, old, new uint64) bool { return fcas(p, old, new) }

// AndUint64 mirrors atomic.AndUint64.
func AndUint64(p *uint64, m uint64) uint64 { return fand(p, m) }

// OrUint64 mirrors atomic.OrUint64.
func OrUint64(p *uint64, m uint64) uint64 { return forr(p, m) }

// LoadUintptr mirrors atomic.LoadUintptr.
func LoadUintptr(p *uintptr) uintptr { return fload(p) }

// StoreUintptr mirrors atomic.StoreUintptr.
func StoreUintptr(p *uintptr, v uintptr) { fstore(p, v) }

// AddUintptr mirrors atomic.AddUintptr.
func AddUintptr(p *uintptr, d uintptr) uintptr { return fadd(p, d) }

// SwapUintptr mirrors atomic.SwapUintptr.
func SwapUintptr(p *uintptr, v uintptr) uintptr { return fswap(p, v) }

// CompareAndSwapUintptr mirrors atomic.CompareAndSwapUintptr.
func CompareAndSwapUintptr(p *uintptr, old, new uintptr) bool { return fcas(p, old, new) }

// AndUintptr mirrors atomic.AndUintptr.
func AndUintptr(p *uintptr, m uintptr) uintptr { return fand(p, m) }

// OrUintptr mirrors atomic.OrUintptr.
func OrUintptr(p *uintptr, m uintptr) uintptr { return forr(p, m) }

// LoadPointer mirrors atomic.LoadPointer.
func LoadPointer(p *unsafe.Pointer) unsafe.Pointer { csched.SchedPoint("pload", 0, nil); return *p }

// StorePointer mirrors atomic.StorePointer.
func StorePointer(p *unsafe.Pointer, v unsafe.Pointer) { csched.SchedPoint("pstore", 0, nil); *p = v }

// SwapPointer mirrors atomic.SwapPointer.
func SwapPointer(p *unsafe.Pointer, v unsafe.Pointer) unsafe.Pointer {
	csched.SchedPoint("pswap", 0, nil)
	old := *p
	*p = v
	return old
}

// CompareAndSwapPointer mirrors atomic.CompareAndSwapPointer.
func CompareAndSwapPointer(p *unsafe.Pointer, old, new unsafe.Pointer) bool {
	csched.SchedPoint("pcas", 0, nil)
	if *p == old {
		*p = new
		return true
	}
	return false
}
