// Package vatomic mirrors the parts of sync/atomic the repository uses; every
// operation is a scheduling point.
package vatomic

import (
	"unsafe"

	"github.com/markkurossi/mpc/zverif/csched"
)

// Uint64 mirrors atomic.Uint64.
type Uint64 struct {
	id int
	v  uint64
}

func (x *Uint64) init() {
	if x.id == 0 {
		x.id = csched.NewObj(func() uint64 { return x.v })
	}
}

// Load mirrors atomic.Uint64.Load.
func (x *Uint64) Load() uint64 { x.init(); csched.SchedPoint("aload", x.id, nil); return x.v }

// Store mirrors atomic.Uint64.Store.
func (x *Uint64) Store(v uint64) { x.init(); csched.SchedPoint("astore", x.id, nil); x.v = v }

// Add mirrors atomic.Uint64.Add.
func (x *Uint64) Add(d uint64) uint64 {
	x.init()
	csched.SchedPoint("aadd", x.id, nil)
	x.v += d
	return x.v
}

// CompareAndSwap mirrors atomic.Uint64.CompareAndSwap.
func (x *Uint64) CompareAndSwap(old, new uint64) bool {
	x.init()
	csched.SchedPoint("acas", x.id, nil)
	if x.v == old {
		x.v = new
		return true
	}
	return false
}

// Int32, Int64, Uint32, Bool: same pattern.
type Int64 struct {
	id int
	v  int64
}

func (x *Int64) init() {
	if x.id == 0 {
		x.id = csched.NewObj(func() uint64 { return uint64(x.v) })
	}
}
func (x *Int64) Load() int64   { x.init(); csched.SchedPoint("aload", x.id, nil); return x.v }
func (x *Int64) Store(v int64) { x.init(); csched.SchedPoint("astore", x.id, nil); x.v = v }
func (x *Int64) Add(d int64) int64 {
	x.init()
	csched.SchedPoint("aadd", x.id, nil)
	x.v += d
	return x.v
}

type Int32 struct {
	id int
	v  int32
}

func (x *Int32) init() {
	if x.id == 0 {
		x.id = csched.NewObj(func() uint64 { return uint64(x.v) })
	}
}
func (x *Int32) Load() int32   { x.init(); csched.SchedPoint("aload", x.id, nil); return x.v }
func (x *Int32) Store(v int32) { x.init(); csched.SchedPoint("astore", x.id, nil); x.v = v }
func (x *Int32) Add(d int32) int32 {
	x.init()
	csched.SchedPoint("aadd", x.id, nil)
	x.v += d
	return x.v
}

type Bool struct {
	id int
	v  bool
}

func (x *Bool) init() {
	if x.id == 0 {
		x.id = csched.NewObj(func() uint64 {
			if x.v {
				return 1
			}
			return 0
		})
	}
}
func (x *Bool) Load() bool   { x.init(); csched.SchedPoint("aload", x.id, nil); return x.v }
func (x *Bool) Store(v bool) { x.init(); csched.SchedPoint("astore", x.id, nil); x.v = v }

// Pointer mirrors atomic.Pointer[T].
type Pointer[T any] struct {
	id int
	p  *T
}

func (x *Pointer[T]) init() {
	if x.id == 0 {
		x.id = csched.NewObj(func() uint64 {
			if x.p == nil {
				return 0
			}
			return 1
		})
	}
}

// Load mirrors atomic.Pointer.Load.
func (x *Pointer[T]) Load() *T { x.init(); csched.SchedPoint("pload", x.id, nil); return x.p }

// Store mirrors atomic.Pointer.Store.
func (x *Pointer[T]) Store(p *T) { x.init(); csched.SchedPoint("pstore", x.id, nil); x.p = p }

// Swap mirrors atomic.Pointer.Swap.
func (x *Pointer[T]) Swap(p *T) *T {
	x.init()
	csched.SchedPoint("pswap", x.id, nil)
	old := x.p
	x.p = p
	return old
}

// CompareAndSwap mirrors atomic.Pointer.CompareAndSwap.
func (x *Pointer[T]) CompareAndSwap(old, new *T) bool {
	x.init()
	csched.SchedPoint("pcas", x.id, nil)
	if unsafe.Pointer(x.p) == unsafe.Pointer(old) {
		x.p = new
		return true
	}
	return false
}
