// Package vrand replaces direct uses of crypto/rand in rewritten repository
// sources by a seedable deterministic generator (AES-CTR), so that every
// execution is a pure function of its case descriptor.
package vrand

import (
	"crypto/aes"
	"crypto/cipher"
	crand "crypto/rand"
	"encoding/binary"
	"io"
	"math/big"
	"sync"
)

type reader struct{}

var (
	mu     sync.Mutex
	stream cipher.Stream
	// Reader mirrors crypto/rand.Reader.
	Reader io.Reader = reader{}
	// Calls counts Read calls since the last Seed.
	Calls int
)

// Seed re-seeds the generator.
func Seed(seed uint64) {
	var key [16]byte
	binary.LittleEndian.PutUint64(key[:], seed)
	copy(key[8:], "vrandshm")
	blk, err := aes.NewCipher(key[:])
	if err != nil {
		panic(err)
	}
	var iv [16]byte
	mu.Lock()
	stream = cipher.NewCTR(blk, iv[:])
	Calls = 0
	mu.Unlock()
}

func (reader) Read(p []byte) (int, error) {
	mu.Lock()
	defer mu.Unlock()
	if stream == nil {
		mu.Unlock()
		Seed(0)
		mu.Lock()
	}
	for i := range p {
		p[i] = 0
	}
	stream.XORKeyStream(p, p)
	Calls++
	return len(p), nil
}

// Read mirrors crypto/rand.Read.
func Read(b []byte) (int, error) { return Reader.Read(b) }

// Int mirrors crypto/rand.Int.
func Int(r io.Reader, max *big.Int) (*big.Int, error) { return crand.Int(r, max) }

// Prime mirrors crypto/rand.Prime.
func Prime(r io.Reader, bits int) (*big.Int, error) { return crand.Prime(r, bits) }

// Text mirrors crypto/rand.Text (go1.24+).
func Text() string { return crand.Text() }
