// Package vnet mirrors the parts of package net the repository uses over
// in-memory FIFO links whose blocking is owned by the scheduler.
package vnet

import (
	"errors"
	"fmt"
	"io"
	"time"

	"github.com/markkurossi/mpc/zverif/csched"
)

// Addr mirrors net.Addr.
type Addr interface {
	Network() string
	String() string
}

type addr string

func (a addr) Network() string { return "tcp" }
func (a addr) String() string  { return string(a) }

// Conn mirrors net.Conn.
type Conn interface {
	io.ReadWriteCloser
	LocalAddr() Addr
	RemoteAddr() Addr
	SetDeadline(t time.Time) error
	SetReadDeadline(t time.Time) error
	SetWriteDeadline(t time.Time) error
}

// ErrDeadline is what a Read returns after its deadline passed (mirrors os.ErrDeadlineExceeded: Timeout() is true).
var ErrDeadline error = timeoutError{}

type timeoutError struct{}

func (timeoutError) Error() string   { return "i/o timeout" }
func (timeoutError) Timeout() bool   { return true }
func (timeoutError) Temporary() bool { return true }

// Listener mirrors net.Listener.
type Listener interface {
	Accept() (Conn, error)
	Close() error
	Addr() Addr
}

// ErrClosed mirrors net.ErrClosed.
var ErrClosed = errors.New("use of closed network connection")

// ReadAlts, if set, lists the sizes a Read of want bytes with avail buffered
// bytes at stream offset off may return: the first is the default, the
// others are environment deviations. nil means "everything available".
var ReadAlts func(off int64, avail, want int) []int

// EOFWithData: a Read that drains the buffer of a link whose peer has already closed returns the bytes TOGETHER
// with io.EOF (the io.Reader contract allows it; callers must consume the bytes first). Reset clears it.
var EOFWithData bool

// WriteHook, if set, sees (and may alter a copy of) every chunk written;
// name identifies the writing end.
var WriteHook func(name string, off int64, p []byte) []byte

// End is one end of a link.
type End struct {
	id        int
	name      string
	peer      *End
	buf       []byte
	closed    bool
	nread     int64
	nwritten  int64
	zeroReads int
	local     string
	remote    string
	// read deadline on the scheduler's virtual clock: rdTimer fires when virtual time reaches it (only when no
	// thread can run, see csched.AddTimer) and sets rdExpired
	rdTimer   *csched.Timer
	rdExpired bool
	wrTimer   *csched.Timer
	wrExpired bool
}

// SetReadDeadline mirrors net.Conn.SetReadDeadline. The deadline is given in real time by the code under test
// (time.Now().Add(d)); it is converted to the distance from now and kept on the virtual clock.
func (e *End) SetReadDeadline(t time.Time) error {
	csched.SchedPoint("set-deadline", e.id, nil)
	if e.rdTimer != nil {
		e.rdTimer.Stop()
		e.rdTimer = nil
	}
	e.rdExpired = false
	if t.IsZero() {
		return nil
	}
	d := time.Until(t)
	if d <= 0 {
		e.rdExpired = true
		return nil
	}
	e.rdTimer = csched.AddTimer(int64(d), func() { e.rdExpired = true })
	return nil
}

// SetWriteDeadline mirrors net.Conn.SetWriteDeadline. Writes never block here, but a Write issued after its deadline
// has passed fails like net.Conn's does (seed C19-10: a write deadline that is set for a handshake and never cleared).
func (e *End) SetWriteDeadline(t time.Time) error {
	csched.SchedPoint("set-deadline", e.id, nil)
	if e.wrTimer != nil {
		e.wrTimer.Stop()
		e.wrTimer = nil
	}
	e.wrExpired = false
	if t.IsZero() {
		return nil
	}
	d := time.Until(t)
	if d <= 0 {
		e.wrExpired = true
		return nil
	}
	e.wrTimer = csched.AddTimer(int64(d), func() { e.wrExpired = true })
	return nil
}

// SetDeadline mirrors net.Conn.SetDeadline.
func (e *End) SetDeadline(t time.Time) error {
	if err := e.SetReadDeadline(t); err != nil {
		return err
	}
	return e.SetWriteDeadline(t)
}

var world struct {
	listeners map[string]*listener
	links     int
}

// Reset clears the registry of listening addresses (call at the start of
// every execution).
func Reset() {
	world.listeners = map[string]*listener{}
	world.links = 0
	ReadAlts = nil
	WriteHook = nil
	EOFWithData = false
}

// Pipe creates a connected pair of link ends.
func Pipe(nameA, nameB string) (*End, *End) {
	a := &End{name: nameA, local: nameA, remote: nameB}
	b := &End{name: nameB, local: nameB, remote: nameA}
	a.peer, b.peer = b, a
	a.id = csched.NewObj(func() uint64 { return uint64(len(a.buf)) })
	b.id = csched.NewObj(func() uint64 { return uint64(len(b.buf)) })
	csched.Alias(a.id, b.id) // a write at one end changes what a read at the other end sees
	world.links++
	return a, b
}

// Name returns the end's name.
func (e *End) Name() string { return e.name }

// Buffered returns the number of bytes waiting to be read at this end.
func (e *End) Buffered() int { return len(e.buf) }

// Counters returns bytes read and written at this end.
func (e *End) Counters() (read, written int64) { return e.nread, e.nwritten }

// ZeroReadLimit: consecutive zero-length reads after which Read returns ErrSpin.
const ZeroReadLimit = 10000

// ErrSpin is returned to a reader that spins on zero-length reads.
var ErrSpin = errors.New("vnet: reader spins on zero-length reads (livelock)")

// Read mirrors net.Conn.Read.
func (e *End) Read(p []byte) (int, error) {
	if len(p) == 0 {
		// a reader that keeps asking for zero bytes never blocks and never progresses: after ZeroReadLimit such reads
		// in a row the virtual transport reports the spin as an error instead of letting the execution run forever
		e.zeroReads++
		if e.zeroReads > ZeroReadLimit {
			return 0, ErrSpin
		}
		return 0, nil
	}
	e.zeroReads = 0
	csched.SchedPoint("read", e.id, func() bool { return len(e.buf) > 0 || e.closed || e.peer.closed || e.rdExpired })
	if len(e.buf) == 0 {
		if e.closed {
			return 0, ErrClosed
		}
		if e.rdExpired && !e.peer.closed {
			return 0, ErrDeadline
		}
		return 0, io.EOF
	}
	n := len(e.buf)
	if n > len(p) {
		n = len(p)
	}
	if ReadAlts != nil {
		alts := ReadAlts(e.nread, n, len(p))
		if len(alts) > 0 {
			k := alts[csched.Choose("read-size", len(alts))]
			if k >= 1 && k <= n {
				n = k
			}
		}
	}
	copy(p, e.buf[:n])
	e.buf = e.buf[n:]
	e.nread += int64(n)
	if EOFWithData && len(e.buf) == 0 && e.peer.closed {
		return n, io.EOF
	}
	return n, nil
}

// Write mirrors net.Conn.Write (never blocks: unbounded FIFO).
func (e *End) Write(p []byte) (int, error) {
	csched.SchedPoint("write", e.id, nil)
	if e.closed {
		return 0, ErrClosed
	}
	if e.peer.closed {
		return 0, errors.New("write: broken pipe")
	}
	if e.wrExpired {
		return 0, ErrDeadline
	}
	q := p
	if WriteHook != nil {
		q = WriteHook(e.name, e.nwritten, p)
	}
	e.peer.buf = append(e.peer.buf, q...)
	e.nwritten += int64(len(p))
	return len(p), nil
}

// Close mirrors net.Conn.Close.
func (e *End) Close() error {
	csched.SchedPoint("close-conn", e.id, nil)
	if e.closed {
		return ErrClosed
	}
	e.closed = true
	return nil
}

// LocalAddr mirrors net.Conn.LocalAddr.
func (e *End) LocalAddr() Addr { return addr(e.local) }

// RemoteAddr mirrors net.Conn.RemoteAddr.
func (e *End) RemoteAddr() Addr { return addr(e.remote) }

type listener struct {
	id      int
	address string
	pending []*End
	closed  bool
}

// Listen mirrors net.Listen.
func Listen(network, address string) (Listener, error) {
	csched.SchedPoint("listen", 0, nil)
	if world.listeners == nil {
		world.listeners = map[string]*listener{}
	}
	if l, ok := world.listeners[address]; ok && !l.closed {
		return nil, fmt.Errorf("listen %s %s: address already in use", network, address)
	}
	l := &listener{address: address}
	l.id = csched.NewObj(func() uint64 { return uint64(len(l.pending)) })
	world.listeners[address] = l
	return l, nil
}

// Dial mirrors net.Dial: it completes at once (like a TCP backlog) if the
// address is listening and fails with "connection refused" otherwise.
func Dial(network, address string) (Conn, error) {
	csched.SchedPoint("dial", 0, nil)
	l, ok := world.listeners[address]
	if !ok || l.closed {
		return nil, fmt.Errorf("dial %s %s: connect: connection refused", network, address)
	}
	n := world.links
	c, s := Pipe(fmt.Sprintf("dial%d->%s", n, address), fmt.Sprintf("%s<-dial%d", address, n))
	l.pending = append(l.pending, s)
	return c, nil
}

// Accept mirrors net.Listener.Accept; which pending connection is returned
// when several are queued is an environment choice (default: oldest).
func (l *listener) Accept() (Conn, error) {
	csched.SchedPoint("accept", l.id, func() bool { return len(l.pending) > 0 || l.closed })
	if len(l.pending) == 0 {
		return nil, ErrClosed
	}
	i := csched.Choose("accept", len(l.pending))
	c := l.pending[i]
	l.pending = append(l.pending[:i], l.pending[i+1:]...)
	return c, nil
}

// Close mirrors net.Listener.Close.
func (l *listener) Close() error {
	csched.SchedPoint("close-listener", l.id, nil)
	if l.closed {
		return ErrClosed
	}
	l.closed = true
	return nil
}

// Addr mirrors net.Listener.Addr.
func (l *listener) Addr() Addr { return addr(l.address) }

// PendingUnaccepted returns how many dialed connections were never accepted.
func PendingUnaccepted() int {
	n := 0
	for _, l := range world.listeners {
		n += len(l.pending)
	}
	return n
}
