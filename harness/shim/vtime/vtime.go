// Package vtime mirrors the timer functions of package time on the
// scheduler's virtual clock: a timer fires only when no thread can run
// (see csched.AddTimer), earliest deadline first.
package vtime

import (
	"time"

	"github.com/markkurossi/mpc/zverif/csched"
)

var epoch = time.Unix(1700000000, 0)

func stamp() time.Time { return epoch.Add(time.Duration(csched.Now())) }

// Timer mirrors time.Timer.
type Timer struct {
	C *csched.Chan[time.Time]
	t *csched.Timer
	f func()
}

func (t *Timer) arm(d time.Duration) {
	c := t.C
	t.t = csched.AddTimer(int64(d), func() {
		// non-blocking send into the 1-slot channel, as the runtime does
		if c.Cap() > 0 && c.LenNoPoint() == 0 {
			c.PutNoPoint(stamp())
		}
	})
}

// NewTimer mirrors time.NewTimer.
func NewTimer(d time.Duration) *Timer {
	t := &Timer{C: csched.MakeChan[time.Time](1)}
	t.arm(d)
	return t
}

// Stop mirrors time.Timer.Stop.
func (t *Timer) Stop() bool {
	csched.SchedPoint("timer-stop", 0, nil)
	return t.stop()
}

func (t *Timer) stop() bool {
	was := t.t.Stop()
	if was && t.f != nil {
		// release the thread that waits to run f
		t.C.CloseNoPoint()
	}
	return was
}

// Reset mirrors time.Timer.Reset.
func (t *Timer) Reset(d time.Duration) bool {
	csched.SchedPoint("timer-reset", 0, nil)
	was := t.stop()
	if t.f != nil {
		nt := AfterFunc(d, t.f)
		t.t, t.C = nt.t, nt.C
		return was
	}
	t.arm(d)
	return was
}

// After mirrors time.After.
func After(d time.Duration) *csched.Chan[time.Time] { return NewTimer(d).C }

// Sleep mirrors time.Sleep: the thread continues when nothing else can run.
func Sleep(d time.Duration) {
	if d <= 0 {
		csched.Yield()
		return
	}
	After(d).Recv()
}

// AfterFunc mirrors time.AfterFunc: f runs in a thread of its own once the
// timer has fired.
func AfterFunc(d time.Duration, f func()) *Timer {
	t := &Timer{C: csched.MakeChan[time.Time](1), f: f}
	t.arm(d)
	c := t.C
	csched.Go(func() {
		if _, ok := c.Recv2(); ok {
			f()
		}
	})
	return t
}
