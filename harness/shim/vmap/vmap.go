// Package vmap turns Go's randomised map iteration order (and directory
// listing order) into explicit choice points: the rewritten sources range
// over vmap.Keys(m, site), whose order is chosen by the harness.
package vmap

import (
	"fmt"
	"sort"
)

// Chooser decides the order for a range event: it gets the site, the
// sequence number of the event in this compilation and the number of keys,
// and returns a permutation selector (0 = canonical order).
var Chooser func(site string, event int, n int) int

// Events counts range events with >= 2 keys since Reset.
var Events int

// Sites records the sites seen (site -> maximum number of keys).
var Sites = map[string]int{}

// Reset clears the counters.
func Reset() {
	Events = 0
	Sites = map[string]int{}
}

// Alternatives returns how many orders are offered for n keys: all n! for
// n <= 4, else reversal, rotations and adjacent transpositions.
func Alternatives(n int) int {
	switch {
	case n <= 1:
		return 1
	case n == 2:
		return 2
	case n == 3:
		return 6
	case n == 4:
		return 24
	}
	return 1 + 1 + (n - 1) + (n - 1)
}

func permute(idx []int, sel int) {
	n := len(idx)
	if sel == 0 {
		return
	}
	if n <= 4 {
		// sel-th permutation in lexicographic order (factorial number system)
		avail := append([]int(nil), idx...)
		f := 1
		for i := 2; i < n; i++ {
			f *= i
		}
		for i := 0; i < n; i++ {
			k := sel / f
			sel %= f
			idx[i] = avail[k]
			avail = append(avail[:k], avail[k+1:]...)
			if n-1-i > 0 {
				f /= (n - 1 - i)
			}
		}
		return
	}
	switch {
	case sel == 1:
		for i, j := 0, n-1; i < j; i, j = i+1, j-1 {
			idx[i], idx[j] = idx[j], idx[i]
		}
	case sel < 1+n:
		r := sel - 1
		rot := append(append([]int(nil), idx[r:]...), idx[:r]...)
		copy(idx, rot)
	default:
		t := sel - 1 - n
		if t+1 < n {
			idx[t], idx[t+1] = idx[t+1], idx[t]
		}
	}
}

// Keys returns the keys of m in the order chosen for this range event.
func Keys[K comparable, V any](m map[K]V, site string) []K {
	keys := make([]K, 0, len(m))
	for k := range m {
		keys = append(keys, k)
	}
	if len(keys) < 2 {
		return keys
	}
	strs := make([]string, len(keys))
	for i, k := range keys {
		strs[i] = fmt.Sprintf("%v", k)
	}
	idx := make([]int, len(keys))
	for i := range idx {
		idx[i] = i
	}
	sort.SliceStable(idx, func(a, b int) bool { return strs[idx[a]] < strs[idx[b]] })
	if n := len(keys); n > Sites[site] {
		Sites[site] = n
	}
	ev := Events
	Events++
	if Chooser != nil {
		permute(idx, Chooser(site, ev, len(keys)))
	}
	res := make([]K, len(keys))
	for i, j := range idx {
		res[i] = keys[j]
	}
	return res
}

// Names returns directory entry names in the order chosen for this event.
func Names(names []string, err error) ([]string, error) {
	if err != nil || len(names) < 2 {
		return names, err
	}
	sorted := append([]string(nil), names...)
	sort.Strings(sorted)
	idx := make([]int, len(sorted))
	for i := range idx {
		idx[i] = i
	}
	site := "readdirnames"
	if n := len(sorted); n > Sites[site] {
		Sites[site] = n
	}
	ev := Events
	Events++
	if Chooser != nil {
		permute(idx, Chooser(site, ev, len(sorted)))
	}
	res := make([]string, len(sorted))
	for i, j := range idx {
		res[i] = sorted[j]
	}
	return res, nil
}
