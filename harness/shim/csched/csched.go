// Package csched is a cooperative scheduler for stateless model checking of
// the real code: rewritten sources call into it at every synchronisation
// operation; exactly one registered thread runs at a time; blocking is
// modelled (an operation is enabled or not), never real. The explorer
// re-executes the system under every choice sequence within a preemption /
// environment-deviation bound.
package csched

import (
	"fmt"
	"hash/fnv"
	"os"
	"reflect"
	"runtime"
	"runtime/debug"
	"sort"
	"strings"
	"sync"
	"time"
)

// Thread is a scheduled thread of one execution.
type Thread struct {
	ID      int
	Name    string
	resume  chan struct{}
	pending bool
	kind    string
	obj     int
	enabled func() bool
	done    bool

	children int
}

// Op is the pending operation of a thread: what it will do when it is scheduled next.
type Op struct {
	T    int
	Kind string
	Obj  int
}

// Point is one recorded decision of an execution.
type Point struct {
	N           int  // number of alternatives (>= 2)
	Chosen      int  // alternative taken
	Env         bool // environment answer (true) or thread choice (false)
	PreemptCost bool // thread choice: alternatives != 0 preempt a runnable thread
	Label       string
	// sleep-set mode only: the pending operations of the alternatives (thread points) and the sleep set in
	// force at this node before the choice (thread points) / at this moment (environment points)
	En    []Op
	Sleep []Op
}

// Result is what one execution produced.
type Result struct {
	Outcome string // ok | deadlock | panic | horizon | fail | stuck
	Detail  string
	Points  []Point
	Choices []int
	Obs     []string
	Steps   int
	Threads int
	States  []uint64
}

// Options configure one execution.
type Options struct {
	Horizon    int  // maximum number of scheduling steps (0 = 200000)
	HashStates bool // collect abstract state hashes after every step
	Watchdog   time.Duration
	// PreemptKinds, if non-nil, restricts where a runnable thread may be
	// preempted: only at its operations of these kinds (all other
	// operations of a runnable thread continue without a choice point).
	PreemptKinds map[string]bool
	// Priority, if non-nil, orders the default choice among the threads that
	// could run when the running thread cannot continue: higher priority
	// first, ties by ascending thread id. It models relative speeds of
	// parties / thread roles as different deterministic baseline schedules.
	// Threads started by the code under test inherit "<parent name>/<n>".
	Priority func(name string) int
	// Affinity, if non-nil, refines that order: among the threads that could run instead of the
	// running one, those for which Affinity(running, candidate) holds come first (stable, after
	// Priority). With threads grouped by session it makes "switch to the other session and let it run
	// until it cannot continue" cost one deviation instead of one per blocking operation.
	Affinity func(running, candidate string) bool
	// SleepMode switches on sleep sets (partial-order reduction for UNBOUNDED exploration: at least one
	// interleaving of every Mazurkiewicz trace is executed). Sleep is the sleep set to install when the last
	// choice of the replayed prefix has been taken. Two operations are dependent iff they are on the same
	// object group (see Alias) or one of them has no object.
	SleepMode bool
	Sleep     []Op
}

// Exec is the state of the running execution.
type Exec struct {
	prefix  []int
	points  []Point
	threads []*Thread
	cur     *Thread
	live    int
	steps   int
	opts    Options
	outcome string
	detail  string
	aborted bool
	done    chan struct{}
	wg      sync.WaitGroup
	obs     []string
	nextObj int
	hashers []func() uint64
	states  []uint64
	mu      sync.Mutex // protects end-of-execution against the watchdog
	timers  []*Timer
	now     int64
	timerSq int
	sleep   []Op
	group   map[int]int

	finalizers map[interface{}]interface{}
	nfinal     int
}

// Timer is a pending virtual timer. Virtual time advances only when no thread
// can run: the earliest pending timer fires then (timeouts are long compared
// with computation), so a timer never races with runnable work.
type Timer struct {
	when    int64
	seq     int
	fire    func()
	stopped bool
	fired   bool
}

// AddTimer registers fire to run after d virtual nanoseconds.
func AddTimer(d int64, fire func()) *Timer {
	e := must()
	if d < 0 {
		d = 0
	}
	e.timerSq++
	t := &Timer{when: e.now + d, seq: e.timerSq, fire: fire}
	e.timers = append(e.timers, t)
	return t
}

// Stop cancels the timer; it reports whether the timer was still pending.
func (t *Timer) Stop() bool {
	was := !t.stopped && !t.fired
	t.stopped = true
	return was
}

// Now returns the virtual clock in nanoseconds.
func Now() int64 { return must().now }

// fireTimer fires the earliest pending timer; false if there is none.
func (e *Exec) fireTimer() bool {
	best := -1
	for i, t := range e.timers {
		if t.stopped || t.fired {
			continue
		}
		if best < 0 || t.when < e.timers[best].when || (t.when == e.timers[best].when && t.seq < e.timers[best].seq) {
			best = i
		}
	}
	if best < 0 {
		e.timers = nil
		return false
	}
	t := e.timers[best]
	t.fired = true
	if t.when > e.now {
		e.now = t.when
	}
	t.fire()
	return true
}

var cur *Exec

type abortSignal struct{}

// Active reports whether an execution is running on the calling process.
func Active() bool { return cur != nil }

// Run executes main as thread 0 under the scheduler, replaying prefix and
// taking choice 0 afterwards.
func Run(prefix []int, opts Options, main func()) *Result {
	if cur != nil {
		panic("csched: nested Run")
	}
	if opts.Horizon == 0 {
		opts.Horizon = 200000
	}
	if opts.Watchdog == 0 {
		opts.Watchdog = 60 * time.Second
	}
	e := &Exec{prefix: prefix, opts: opts, done: make(chan struct{})}
	cur = e
	t := e.newThread("main", main)
	e.cur = t
	t.pending = false
	t.resume <- struct{}{}
	timer := time.NewTimer(opts.Watchdog)
	select {
	case <-e.done:
		timer.Stop()
	case <-timer.C:
		// a thread blocked outside the scheduler's control: harness problem
		e.mu.Lock()
		if e.outcome == "" {
			e.outcome = "stuck"
			buf := make([]byte, 1<<16)
			n := runtime.Stack(buf, true)
			e.detail = "watchdog: execution made no progress; a thread is blocked outside the scheduler\n" + string(buf[:n])
			e.aborted = true
		}
		e.mu.Unlock()
		cur = nil
		return e.result()
	}
	// wait for every goroutine of this execution to leave
	waited := make(chan struct{})
	go func() { e.wg.Wait(); close(waited) }()
	select {
	case <-waited:
	case <-time.After(opts.Watchdog):
		e.outcome = "stuck"
		e.detail = "watchdog: threads did not exit after the execution ended"
	}
	cur = nil
	return e.result()
}

func (e *Exec) result() *Result {
	r := &Result{Outcome: e.outcome, Detail: e.detail, Points: e.points, Obs: e.obs, Steps: e.steps, Threads: len(e.threads), States: e.states}
	for _, p := range e.points {
		r.Choices = append(r.Choices, p.Chosen)
	}
	return r
}

func (e *Exec) newThread(name string, f func()) *Thread {
	t := &Thread{ID: len(e.threads), Name: name, resume: make(chan struct{}, 1), pending: true, kind: "start"}
	e.threads = append(e.threads, t)
	e.live++
	e.wg.Add(1)
	go func() {
		defer e.wg.Done()
		<-t.resume
		if e.aborted {
			return
		}
		defer func() {
			r := recover()
			if _, ok := r.(abortSignal); ok {
				r = nil
			}
			if e.aborted {
				return
			}
			if r != nil {
				e.finish("panic", fmt.Sprintf("thread %d (%s): %v\n%s", t.ID, t.Name, r, trimStack(debug.Stack())))
				return
			}
			t.done = true
			t.pending = false
			e.live--
			e.schedule(t)
		}()
		f()
	}()
	return t
}

func trimStack(b []byte) string {
	s := string(b)
	lines := strings.Split(s, "\n")
	if len(lines) > 40 {
		lines = lines[:40]
	}
	return strings.Join(lines, "\n")
}

// finish ends the execution; the calling thread must return/exit afterwards.
func (e *Exec) finish(outcome, detail string) {
	e.mu.Lock()
	if e.outcome != "" {
		e.mu.Unlock()
		return
	}
	e.outcome, e.detail = outcome, detail
	e.aborted = true
	e.mu.Unlock()
	for _, t := range e.threads {
		if !t.done && t != e.cur {
			select {
			case t.resume <- struct{}{}:
			default:
			}
		}
	}
	close(e.done)
}

func (e *Exec) nextChoice(n int, env, preemptCost bool, label string) int {
	return e.nextChoiceDef(n, env, preemptCost, label, 0)
}

func (e *Exec) nextChoiceDef(n int, env, preemptCost bool, label string, def int) int {
	c := def
	i := len(e.points)
	if i < len(e.prefix) {
		c = e.prefix[i]
		if c < 0 || c >= n {
			panic(fmt.Sprintf("csched: replay divergence at point %d: choice %d of %d (%s)", i, c, n, label))
		}
	}
	e.points = append(e.points, Point{N: n, Chosen: c, Env: env, PreemptCost: preemptCost, Label: label})
	return c
}

func (t *Thread) isEnabled() bool {
	return t.pending && (t.enabled == nil || t.enabled())
}

// schedule is called by the thread holding the baton when it has set its
// pending operation (or finished). It returns when self may continue.
func (e *Exec) schedule(self *Thread) {
	e.steps++
	if e.steps > e.opts.Horizon {
		e.finish("horizon", fmt.Sprintf("more than %d scheduling steps", e.opts.Horizon))
		if !self.done {
			panic(abortSignal{})
		}
		return
	}
	var en []*Thread
	var first int
	for {
		en = en[:0]
		if !self.done && self.isEnabled() {
			en = append(en, self)
		}
		first = len(en)
		for _, t := range e.threads {
			if t != self && !t.done && t.isEnabled() {
				en = append(en, t)
			}
		}
		// nobody can run: virtual time passes until the next timer
		if len(en) > 0 || e.live == 0 || !e.fireTimer() {
			break
		}
	}
	if e.opts.Priority != nil && len(en)-first > 1 {
		rest := en[first:]
		sort.SliceStable(rest, func(i, j int) bool {
			return e.opts.Priority(rest[i].Name) > e.opts.Priority(rest[j].Name)
		})
	}
	if e.opts.Affinity != nil && len(en)-first > 1 {
		rest := en[first:]
		sort.SliceStable(rest, func(i, j int) bool {
			return e.opts.Affinity(self.Name, rest[i].Name) && !e.opts.Affinity(self.Name, rest[j].Name)
		})
	}
	if e.opts.HashStates {
		e.states = append(e.states, e.hashState())
	}
	if len(en) == 0 {
		if e.live == 0 {
			e.finish("ok", "")
			return
		}
		var b []string
		for _, t := range e.threads {
			if !t.done {
				b = append(b, fmt.Sprintf("thread %d (%s) blocked in %s on object %d", t.ID, t.Name, t.kind, t.obj))
			}
		}
		e.finish("deadlock", strings.Join(b, "; "))
		if !self.done {
			panic(abortSignal{})
		}
		return
	}
	choice := 0
	if e.opts.SleepMode {
		choice = e.sleepChoose(self, en)
		if choice < 0 {
			return
		}
	} else if len(en) > 1 {
		preempt := en[0] == self
		if preempt && e.opts.PreemptKinds != nil && !e.opts.PreemptKinds[self.kind] {
			// not a preemption point for this exploration: keep running
		} else {
			choice = e.nextChoice(len(en), false, preempt, "")
		}
	}
	next := en[choice]
	if next == self {
		self.pending = false
		return
	}
	e.cur = next
	next.pending = false
	next.resume <- struct{}{}
	if self.done {
		return
	}
	<-self.resume
	if e.aborted {
		panic(abortSignal{})
	}
}

// ---- sleep sets ----

func (t *Thread) op() Op {
	if t.kind == "start" {
		// the first transition of a thread performs no operation on any object: it is dependent on nothing
		// but the thread's own later operations (the code up to its first operation is ordinary thread code,
		// which by data-race freedom conflicts with nothing that is not ordered by a synchronisation operation)
		return Op{T: t.ID, Kind: t.kind, Obj: -(t.ID + 1)}
	}
	return Op{T: t.ID, Kind: t.kind, Obj: t.obj}
}

func (e *Exec) groupOf(obj int) int {
	for {
		g, ok := e.group[obj]
		if !ok || g == obj {
			return obj
		}
		obj = g
	}
}

// Alias declares that operations on objects a and b are dependent (one dependence group): used where an operation
// labelled with one object also changes the state another object's operations look at (the two ends of a link, a
// condition variable and its mutex).
func Alias(a, b int) {
	e := cur
	if e == nil || a == 0 || b == 0 {
		return
	}
	if e.group == nil {
		e.group = map[int]int{}
	}
	ga, gb := e.groupOf(a), e.groupOf(b)
	if ga != gb {
		e.group[ga] = gb
	}
}

func (e *Exec) dependent(a, b Op) bool {
	if a.T == b.T || a.Obj == 0 || b.Obj == 0 {
		return true
	}
	if readOnly[a.Kind] && readOnly[b.Kind] {
		return false
	}
	return e.groupOf(a.Obj) == e.groupOf(b.Obj)
}

// readOnly operations do not change the state of their object: two of them commute.
var readOnly = map[string]bool{"aload": true, "pload": true, "vload": true}

func asleep(sleep []Op, t int) bool {
	for _, o := range sleep {
		if o.T == t {
			return true
		}
	}
	return false
}

// wake removes from the sleep set every operation dependent on the executed one.
func (e *Exec) wake(sleep []Op, done Op) []Op {
	out := sleep[:0:0]
	for _, o := range sleep {
		if !e.dependent(o, done) {
			out = append(out, o)
		}
	}
	return out
}

// sleepChoose is the scheduling decision in sleep-set mode: sleeping threads are not chosen; if every enabled
// thread sleeps the execution is redundant (an equivalent interleaving is explored elsewhere) and ends with the
// outcome "sleep-blocked". Returns -1 if the execution ended.
func (e *Exec) sleepChoose(self *Thread, en []*Thread) int {
	replaying := len(e.points) < len(e.prefix)
	def := 0
	if !replaying {
		def = -1
		for i, t := range en {
			if !asleep(e.sleep, t.ID) {
				def = i
				break
			}
		}
		if def < 0 {
			e.finish("sleep-blocked", "")
			if !self.done {
				panic(abortSignal{})
			}
			return -1
		}
	}
	choice := def
	if len(en) > 1 {
		choice = e.nextChoiceDef(len(en), false, en[0] == self, "", def)
		pt := &e.points[len(e.points)-1]
		pt.En = make([]Op, len(en))
		for i, t := range en {
			pt.En[i] = t.op()
		}
		pt.Sleep = append([]Op(nil), e.sleep...)
	}
	if replaying {
		if len(e.points) == len(e.prefix) && len(en) > 1 {
			// the last choice of the prefix has just been taken: install the sleep set the explorer computed
			e.sleep = e.wake(append([]Op(nil), e.opts.Sleep...), en[choice].op())
		}
	} else {
		e.sleep = e.wake(e.sleep, en[choice].op())
	}
	return choice
}

func (e *Exec) hashState() uint64 {
	h := fnv.New64a()
	var b [8]byte
	put := func(v uint64) {
		for i := 0; i < 8; i++ {
			b[i] = byte(v >> (8 * i))
		}
		h.Write(b[:])
	}
	for _, t := range e.threads {
		if t.done {
			put(uint64(t.ID)<<8 | 1)
			continue
		}
		put(uint64(t.ID)<<8 | 2)
		h.Write([]byte(t.kind))
		put(uint64(t.obj))
	}
	for i, f := range e.hashers {
		put(uint64(i))
		put(f())
	}
	return h.Sum64()
}

func must() *Exec {
	if cur == nil {
		panic("csched: operation outside Run")
	}
	return cur
}

// Go starts f as a new scheduled thread.
func Go(f func()) {
	GoNamed("", f)
}

// GoNamed starts f as a new scheduled thread with a name.
func GoNamed(name string, f func()) {
	e := must()
	self := e.cur
	if name == "" {
		self.children++
		name = fmt.Sprintf("%s/%d", self.Name, self.children)
	}
	e.newThread(name, f)
	sp(e, self, "spawn", 0, nil)
}

// sp is the scheduling point of thread self.
func sp(e *Exec, self *Thread, kind string, obj int, enabled func() bool) {
	if e.aborted {
		panic(abortSignal{})
	}
	self.pending = true
	self.kind = kind
	self.obj = obj
	self.enabled = enabled
	e.schedule(self)
	self.enabled = nil
}

// SchedPoint is the scheduling point every shim operation calls before it
// takes effect; enabled == nil means always enabled.
func SchedPoint(kind string, obj int, enabled func() bool) {
	e := must()
	if e.opts.PreemptKinds != nil && enabled == nil && strings.HasSuffix(kind, "-done") && !e.opts.PreemptKinds[kind] {
		// the second point behind a release operation exists only to be preempted at: where the exploration
		// restricts preemptions to other kinds it is not a point at all
		return
	}
	sp(e, e.cur, kind, obj, enabled)
}

// Yield is a pure scheduling point.
func Yield() { SchedPoint("yield", 0, nil) }

// Choose is an environment choice point with n alternatives; alternative 0
// is the default answer, every other alternative costs one deviation.
func Choose(label string, n int) int {
	if n <= 1 {
		return 0
	}
	e := must()
	if e.aborted {
		panic(abortSignal{})
	}
	c := e.nextChoice(n, true, false, label)
	if e.opts.SleepMode {
		if len(e.points) == len(e.prefix) {
			e.sleep = append([]Op(nil), e.opts.Sleep...)
		}
		e.points[len(e.points)-1].Sleep = append([]Op(nil), e.sleep...)
	}
	return c
}

// ---- finalizers ----

// SetFinalizer mirrors runtime.SetFinalizer for rewritten code: the finalizer is recorded, not handed to the
// runtime. When the garbage collector would run it is not the scheduler's to know; the harness says when the
// object has become unreachable (Drop), and from then on the finalizer may run at any time: it becomes a scheduler
// thread of its own, interleaved like any other.
func SetFinalizer(obj interface{}, finalizer interface{}) {
	e := must()
	if e.finalizers == nil {
		e.finalizers = map[interface{}]interface{}{}
	}
	if finalizer == nil {
		delete(e.finalizers, obj)
		return
	}
	e.finalizers[obj] = finalizer
}

// Drop declares obj unreachable for the program under test; it reports whether a finalizer was started.
func Drop(obj interface{}) bool {
	e := must()
	f, ok := e.finalizers[obj]
	if !ok {
		return false
	}
	delete(e.finalizers, obj)
	e.nfinal++
	GoNamed(fmt.Sprintf("finalizer/%d", e.nfinal), func() {
		reflect.ValueOf(f).Call([]reflect.Value{reflect.ValueOf(obj)})
	})
	return true
}

// Gosched mirrors runtime.Gosched.
func Gosched() { Yield() }

// InSleepMode reports whether the running execution uses sleep sets (unbounded exploration).
func InSleepMode() bool { return must().opts.SleepMode }

// Barrier is a scheduling point that is dependent on every other operation. Harness threads call it before they
// touch harness state shared between threads, so that such accesses form their own transition. It exists only in
// sleep-set mode (a no-op otherwise, so bounded explorations are unchanged).
func Barrier() {
	e := must()
	if e.opts.SleepMode {
		sp(e, e.cur, "barrier", 0, nil)
	}
}

// NewObj registers a shim object; hasher (may be nil) contributes to the
// abstract state.
func NewObj(hasher func() uint64) int {
	e := cur
	if e == nil {
		return 0
	}
	e.nextObj++
	if hasher != nil {
		e.hashers = append(e.hashers, hasher)
	}
	return e.nextObj
}

// Observe appends to the execution's observation log.
func Observe(format string, a ...interface{}) {
	e := must()
	e.obs = append(e.obs, fmt.Sprintf(format, a...))
}

// Fail ends the execution with outcome "fail".
func Fail(format string, a ...interface{}) {
	e := must()
	e.finish("fail", fmt.Sprintf(format, a...))
	panic(abortSignal{})
}

// CurrentName returns the name of the running thread.
func CurrentName() string { return must().cur.Name }

// CurrentThread returns the id of the running thread.
func CurrentThread() int { return must().cur.ID }

// ---- exploration ----

// Explorer enumerates every execution within the bounds.
type Explorer struct {
	PBound int // preemption bound
	EBound int // environment deviation bound
	// ShareDepth: with NShards > 1 the nodes with at most ShareDepth deviations (default 1) are executed by every
	// shard (counted by shard 0) and the nodes one level deeper are dealt round-robin.
	ShareDepth int
	// FBound bounds the non-default choices taken where the running thread is
	// blocked or finished (free switches); 0 = unbounded, n > 0 = at most n-1.
	FBound int
	Opts   Options
	// Shard/NShards partition the first-deviation subtrees between workers.
	Shard, NShards int
	// Stop is polled between executions.
	Stop func() bool
	// MaxQueue bounds the number of pending prefixes kept in memory.
	MaxQueue int
	// Stats
	Executions  int64
	Transitions int64
	Truncated   bool
	MaxPoints   int
	// SleepBlocked counts the redundant executions cut by sleep sets (ExploreUnbounded).
	SleepBlocked int64
}

type pending struct {
	d       int // number of deviations in the prefix (depth in the exploration tree)
	prefix  []int
	p, e, f int
}

// Explore runs system under every choice sequence within the bounds, in
// order of increasing total deviation count, and calls visit for each
// execution (root included). visit returns false to stop.
func (x *Explorer) Explore(system func(), visit func(r *Result, preemptions, deviations int) bool) {
	if x.NShards == 0 {
		x.NShards = 1
	}
	if x.MaxQueue == 0 {
		x.MaxQueue = 4000000
	}
	buckets := make([][]pending, x.PBound+x.EBound+2)
	buckets[0] = append(buckets[0], pending{})
	child := 0
	queued := 1
	for level := 0; level < len(buckets); level++ {
		for len(buckets[level]) > 0 {
			if x.Stop != nil && x.Stop() {
				x.Truncated = true
				return
			}
			n := len(buckets[level])
			it := buckets[level][n-1]
			buckets[level] = buckets[level][:n-1]
			queued--
			res := Run(it.prefix, x.Opts, system)
			// Sharding: the root and its children (one deviation) are executed by every shard and counted by
			// shard 0 only; the grandchildren are dealt round-robin, which balances far better than dealing the
			// children (a child's subtree shrinks with the position of its deviation).
			sd := x.ShareDepth
			if sd == 0 {
				sd = 1
			}
			// never share the deepest level: with at most maxDepth deviations the dealing must happen above it
			maxDepth := x.PBound + x.EBound
			if x.FBound > 0 {
				maxDepth += x.FBound - 1
			} else {
				maxDepth += 1 << 20
			}
			if sd > maxDepth-1 {
				sd = maxDepth - 1
			}
			if sd < 0 {
				sd = 0
			}
			shared := it.d <= sd && x.NShards > 1
			if !shared || x.Shard == 0 {
				x.Executions++
				x.Transitions += int64(res.Steps)
				if len(res.Points) > x.MaxPoints {
					x.MaxPoints = len(res.Points)
				}
				if !visit(res, it.p, it.e) {
					return
				}
			}
			if res.Outcome == "stuck" {
				return
			}
			p, e, fr := it.p, it.e, it.f
			// deviations taken inside the prefix are already counted in it.p/it.e
			for i := len(it.prefix); i < len(res.Points); i++ {
				pt := res.Points[i]
				for alt := 1; alt < pt.N; alt++ {
					cp, ce, cf := p, e, fr
					if pt.Env {
						ce++
					} else if pt.PreemptCost {
						cp++
					} else {
						cf++
					}
					if cp > x.PBound || ce > x.EBound || (x.FBound > 0 && cf > x.FBound-1) {
						continue
					}
					if it.d == sd && x.NShards > 1 {
						child++
						if child%x.NShards != x.Shard {
							continue
						}
					}
					if queued >= x.MaxQueue {
						x.Truncated = true
						continue
					}
					np := make([]int, i+1)
					copy(np, res.Choices[:i])
					np[i] = alt
					lv := cp + ce
					if !pt.Env && !pt.PreemptCost {
						// a free switch (running thread blocked or finished): same level
						lv = level
					}
					if lv < level {
						lv = level
					}
					buckets[lv] = append(buckets[lv], pending{prefix: np, p: cp, e: ce, f: cf, d: it.d + 1})
					queued++
				}
			}
		}
	}
}

// ExploreUnbounded runs system under at least one interleaving of every Mazurkiewicz trace (sleep sets), with
// every environment answer, without any bound on preemptions. visit is called for every complete execution;
// executions that end "sleep-blocked" (redundant) are only counted. Stop/MaxQueue cut the search (Truncated).
func (x *Explorer) ExploreUnbounded(system func(), visit func(r *Result) bool) {
	if x.NShards == 0 {
		x.NShards = 1
	}
	if x.MaxQueue == 0 {
		x.MaxQueue = 4000000
	}
	sd := x.ShareDepth
	if sd == 0 {
		sd = 1
	}
	type node struct {
		prefix []int
		sleep  []Op
		d      int
	}
	stack := []node{{}}
	child := 0
	for len(stack) > 0 {
		if x.Stop != nil && x.Stop() {
			x.Truncated = true
			return
		}
		it := stack[len(stack)-1]
		stack = stack[:len(stack)-1]
		opts := x.Opts
		opts.SleepMode = true
		opts.Sleep = it.sleep
		res := Run(it.prefix, opts, system)
		if os.Getenv("CSCHED_DEBUG") != "" {
			fmt.Fprintf(os.Stderr, "U: prefix=%v sleep=%v -> %s points=%d choices=%v stack=%d\n", it.prefix, it.sleep, res.Outcome, len(res.Points), res.Choices, len(stack))
		}
		shared := it.d <= sd && x.NShards > 1
		if !shared || x.Shard == 0 {
			x.Transitions += int64(res.Steps)
			if res.Outcome == "sleep-blocked" {
				x.SleepBlocked++
			} else {
				x.Executions++
				if len(res.Points) > x.MaxPoints {
					x.MaxPoints = len(res.Points)
				}
				if !visit(res) {
					return
				}
			}
		}
		if res.Outcome == "stuck" {
			return
		}
		push := func(i, alt int, sleep []Op) {
			if it.d == sd && x.NShards > 1 {
				child++
				if child%x.NShards != x.Shard {
					return
				}
			}
			if len(stack) >= x.MaxQueue {
				x.Truncated = true
				return
			}
			np := make([]int, i+1)
			copy(np, res.Choices[:i])
			np[i] = alt
			stack = append(stack, node{prefix: np, sleep: sleep, d: it.d + 1})
		}
		// deepest nodes are pushed last and therefore explored first (depth-first)
		for i := len(it.prefix); i < len(res.Points); i++ {
			pt := res.Points[i]
			if pt.Env {
				for alt := 0; alt < pt.N; alt++ {
					if alt != pt.Chosen {
						push(i, alt, pt.Sleep)
					}
				}
				continue
			}
			acc := append([]Op(nil), pt.Sleep...)
			acc = append(acc, pt.En[pt.Chosen])
			for alt := 0; alt < pt.N; alt++ {
				if alt == pt.Chosen || asleep(pt.Sleep, pt.En[alt].T) {
					continue
				}
				push(i, alt, append([]Op(nil), acc...))
				acc = append(acc, pt.En[alt])
			}
		}
	}
}

// SelfTest checks the explorer on a built-in lost-update harness whose
// violation needs exactly one preemption.
func SelfTest() error {
	find := func(bound int) (bool, int64) {
		found := false
		x := &Explorer{PBound: bound}
		x.Explore(func() {
			var counter int
			id := NewObj(nil)
			done := 0
			inc := func() {
				SchedPoint("load", id, nil)
				v := counter
				SchedPoint("store", id, nil)
				counter = v + 1
				done++
			}
			GoNamed("t1", inc)
			GoNamed("t2", inc)
			SchedPoint("join", id, func() bool { return done == 2 })
			Observe("counter=%d", counter)
		}, func(r *Result, p, e int) bool {
			if r.Outcome != "ok" {
				found = true
				return false
			}
			if len(r.Obs) != 1 || r.Obs[0] != "counter=2" {
				found = true
			}
			return true
		})
		return found, x.Executions
	}
	if f, _ := find(0); f {
		return fmt.Errorf("csched self-test: lost update reported with 0 preemptions")
	}
	if f, n := find(1); !f {
		return fmt.Errorf("csched self-test: lost update NOT found with 1 preemption (%d executions)", n)
	}
	// determinism of the default schedule
	var obs [2]string
	for i := range obs {
		r := Run(nil, Options{}, func() {
			GoNamed("a", func() { Observe("a") })
			GoNamed("b", func() { Observe("b") })
			Yield()
			Observe("m")
		})
		obs[i] = fmt.Sprint(r.Outcome, r.Obs, r.Choices)
	}
	if obs[0] != obs[1] {
		return fmt.Errorf("csched self-test: default schedule not deterministic: %s vs %s", obs[0], obs[1])
	}
	return nil
}

// SleepSelfTest checks the sleep-set reduction against full enumeration on a built-in program.
func SleepSelfTest() error { return sleepSelfTest() }

// sleepSelfTest: on a three-thread store-buffer style program over three cells plus a mutex-protected counter the
// set of final observations found with sleep sets must equal the set found by enumerating every interleaving, with
// fewer executions; and the lost update must be found.
func sleepSelfTest() error {
	system := func() {
		var a, b, c, m, cnt, r1, r2 int
		ida, idb, idm := NewObj(nil), NewObj(nil), NewObj(nil)
		done := 0
		lock := func() { SchedPoint("lock", idm, func() bool { return m == 0 }); m = 1 }
		unlock := func() { SchedPoint("unlock", idm, nil); m = 0 }
		GoNamed("t1", func() {
			SchedPoint("store", ida, nil)
			a = 1
			lock()
			cnt++
			unlock()
			done++
		})
		GoNamed("t2", func() {
			SchedPoint("store", idb, nil)
			b = 1
			SchedPoint("load", ida, nil)
			r2 = a
			done++
		})
		GoNamed("t3", func() {
			lock()
			cnt *= 2
			c = cnt
			unlock()
			r1 = 0
			done++
		})
		SchedPoint("join", 0, func() bool { return done == 3 })
		Observe("a=%d b=%d c=%d r1=%d r2=%d cnt=%d", a, b, c, r1, r2, cnt)
	}
	collect := func(sleep bool) (map[string]bool, int64, int64, error) {
		set := map[string]bool{}
		x := &Explorer{PBound: 1 << 20, EBound: 1 << 20}
		var err error
		visit := func(r *Result) bool {
			if r.Outcome != "ok" || len(r.Obs) != 1 {
				err = fmt.Errorf("csched sleep self-test: outcome %s %s", r.Outcome, r.Detail)
				return false
			}
			set[r.Obs[0]] = true
			return true
		}
		if sleep {
			x.ExploreUnbounded(system, visit)
		} else {
			x.Explore(system, func(r *Result, p, e int) bool { return visit(r) })
		}
		return set, x.Executions, x.SleepBlocked, err
	}
	full, nfull, _, err := collect(false)
	if err != nil {
		return err
	}
	red, nred, _, err := collect(true)
	if err != nil {
		return err
	}
	if len(full) != len(red) {
		return fmt.Errorf("csched sleep self-test: %d distinct outcomes by full enumeration (%d executions), %d with sleep sets (%d executions)", len(full), nfull, len(red), nred)
	}
	for k := range full {
		if !red[k] {
			return fmt.Errorf("csched sleep self-test: outcome %q lost by the reduction", k)
		}
	}
	if os.Getenv("CSCHED_SELFTEST_VERBOSE") != "" {
		fmt.Printf("sleep self-test: full %d executions, reduced %d, outcomes %d\n", nfull, nred, len(full))
	}
	if nred >= nfull || len(full) < 4 {
		return fmt.Errorf("csched sleep self-test: no reduction or vacuous (%d vs %d executions, %d outcomes)", nred, nfull, len(full))
	}
	return nil
}

// SortedStates returns the distinct state hashes of a result.
func SortedStates(r *Result) []uint64 {
	s := append([]uint64(nil), r.States...)
	sort.Slice(s, func(i, j int) bool { return s[i] < s[j] })
	return s
}
