package csched

// Chan mirrors a Go channel of element type T under the scheduler.
type Chan[T any] struct {
	id      int
	cap     int
	buf     []T
	closed  bool
	waiting int            // receivers parked on this channel (for rendezvous)
	sendq   []*pendSend[T] // senders parked on this channel (unbuffered: a polling or arriving select may take from them)
	selRecv []*selReg      // parked selects with a receive case on this channel
}

type pendSend[T any] struct {
	v     T
	taken bool
}

// selReg is one parked select statement.
type selReg struct {
	live   bool // still looking for a partner
	commit int  // case index a sender handed its value to, -1 if none
}

// MakeChan mirrors make(chan T, n).
func MakeChan[T any](n int) *Chan[T] {
	c := &Chan[T]{cap: n}
	c.id = NewObj(func() uint64 {
		v := uint64(len(c.buf)) << 1
		if c.closed {
			v |= 1
		}
		return v
	})
	return c
}

// receivers counts the parked receivers of an unbuffered channel: plain
// receives plus parked selects (other than self) with a receive case on it.
func (c *Chan[T]) receivers(self *selReg) int {
	n := c.waiting
	for _, r := range c.selRecv {
		if r.live && r != self {
			n++
		}
	}
	return n
}

// canSend reports whether a send would complete now.
func (c *Chan[T]) canSend(self *selReg) bool {
	if c.closed {
		return true
	}
	if c.cap > 0 {
		return len(c.buf) < c.cap
	}
	// unbuffered: rendezvous with a parked receiver
	return c.receivers(self) > len(c.buf)
}

// put appends v; on an unbuffered channel a value no plain receiver is
// parked for is handed to the longest-parked select, which is thereby
// committed to that case (the sender proceeds as after a completed rendezvous).
func (c *Chan[T]) put(v T) {
	c.buf = append(c.buf, v)
	if c.cap == 0 && c.waiting < len(c.buf) {
		for _, r := range c.selRecv {
			if r.live {
				r.live = false
				r.commit = c.id
				break
			}
		}
	}
}

// canRecv reports whether a receive would complete now.
func (c *Chan[T]) canRecv() bool {
	if len(c.buf) > 0 || c.closed {
		return true
	}
	if c.cap == 0 {
		for _, p := range c.sendq {
			if !p.taken {
				return true
			}
		}
	}
	return false
}

// take removes the next value (call only when canRecv).
func (c *Chan[T]) take() (T, bool) {
	var zero T
	if len(c.buf) > 0 {
		v := c.buf[0]
		c.buf = c.buf[1:]
		return v, true
	}
	if c.cap == 0 {
		for _, p := range c.sendq {
			if !p.taken {
				p.taken = true
				return p.v, true
			}
		}
	}
	return zero, false
}

// Send mirrors ch <- v.
func (c *Chan[T]) Send(v T) {
	if c == nil {
		SchedPoint("send-nil", 0, func() bool { return false })
	}
	p := &pendSend[T]{v: v}
	c.sendq = append(c.sendq, p)
	SchedPoint("send", c.id, func() bool { return p.taken || c.canSend(nil) })
	for i, q := range c.sendq {
		if q == p {
			c.sendq = append(c.sendq[:i], c.sendq[i+1:]...)
			break
		}
	}
	if p.taken {
		return
	}
	if c.closed {
		panic("send on closed channel")
	}
	c.put(v)
}

// Recv mirrors <-ch.
func (c *Chan[T]) Recv() T {
	v, _ := c.Recv2()
	return v
}

// Recv2 mirrors v, ok := <-ch.
func (c *Chan[T]) Recv2() (T, bool) {
	var zero T
	if c == nil {
		SchedPoint("recv-nil", 0, func() bool { return false })
	}
	c.waiting++
	SchedPoint("recv", c.id, func() bool { return len(c.buf) > 0 || c.closed })
	c.waiting--
	if len(c.buf) > 0 {
		v := c.buf[0]
		c.buf = c.buf[1:]
		return v, true
	}
	return zero, false
}

// Close mirrors close(ch).
func (c *Chan[T]) Close() {
	SchedPoint("close", c.id, nil)
	if c.closed {
		panic("close of closed channel")
	}
	c.closed = true
}

// Len mirrors len(ch); reading it is a scheduling point.
func (c *Chan[T]) Len() int {
	SchedPoint("chan-len", c.id, nil)
	return len(c.buf)
}

// LenNoPoint and PutNoPoint serve the virtual timers, which run inside the
// scheduler and must not be scheduling points themselves.
func (c *Chan[T]) LenNoPoint() int { return len(c.buf) }

// PutNoPoint appends v without a scheduling point.
func (c *Chan[T]) PutNoPoint(v T) { c.buf = append(c.buf, v) }

// CloseNoPoint closes the channel without a scheduling point.
func (c *Chan[T]) CloseNoPoint() { c.closed = true }

// Cap mirrors cap(ch).
func (c *Chan[T]) Cap() int { return c.cap }

// SelCase is one communication clause of a select statement.
type SelCase struct {
	chanID int
	ready  func(self *selReg) bool
	fire   func() (interface{}, bool)
	park   func(self *selReg)
	unpark func(self *selReg)
}

// RecvCase mirrors `case v, ok := <-ch`. A nil channel never becomes ready.
func (c *Chan[T]) RecvCase() SelCase {
	if c == nil {
		return SelCase{ready: func(*selReg) bool { return false }}
	}
	return SelCase{
		chanID: c.id,
		ready:  func(*selReg) bool { return c.canRecv() },
		fire: func() (interface{}, bool) {
			v, ok := c.take()
			return v, ok
		},
		park: func(self *selReg) { c.selRecv = append(c.selRecv, self) },
		unpark: func(self *selReg) {
			for i, r := range c.selRecv {
				if r == self {
					c.selRecv = append(c.selRecv[:i], c.selRecv[i+1:]...)
					break
				}
			}
		},
	}
}

// SendCase mirrors `case ch <- v`. A nil channel never becomes ready.
func (c *Chan[T]) SendCase(v T) SelCase {
	if c == nil {
		return SelCase{ready: func(*selReg) bool { return false }}
	}
	return SelCase{
		chanID: c.id,
		ready:  func(self *selReg) bool { return c.canSend(self) },
		fire: func() (interface{}, bool) {
			if c.closed {
				panic("send on closed channel")
			}
			c.put(v)
			return nil, false
		},
	}
}

// Select mirrors a select statement: it returns the index of the clause that
// communicated (-1: the default clause), and for a receive clause the value
// and the ok flag. Which of several ready clauses is taken is an environment
// choice (alternative 0: the first ready clause in source order).
func Select(hasDefault bool, cases ...SelCase) (int, interface{}, bool) {
	for {
		self := &selReg{live: !hasDefault, commit: -1}
		if !hasDefault {
			for _, c := range cases {
				if c.park != nil {
					c.park(self)
				}
			}
		}
		SchedPoint("select", 0, func() bool {
			if hasDefault || self.commit >= 0 {
				return true
			}
			for _, c := range cases {
				if c.ready(self) {
					return true
				}
			}
			return false
		})
		self.live = false
		if !hasDefault {
			for _, c := range cases {
				if c.unpark != nil {
					c.unpark(self)
				}
			}
		}
		var ready []int
		committed := -1
		for i, c := range cases {
			if c.ready(self) {
				if self.commit >= 0 && c.chanID == self.commit && c.park != nil && committed < 0 {
					committed = i
				}
				ready = append(ready, i)
			}
		}
		if len(ready) == 0 {
			if hasDefault {
				return -1, nil, false
			}
			// the value handed to this select was taken by somebody else
			continue
		}
		i := committed
		if i < 0 {
			i = ready[Choose("select-case", len(ready))]
		}
		v, ok := cases[i].fire()
		return i, v, ok
	}
}

// As converts the value Select returned for a receive clause on ch.
func As[T any](ch *Chan[T], v interface{}) T {
	if v == nil {
		var zero T
		return zero
	}
	return v.(T)
}
