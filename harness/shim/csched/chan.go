package csched

// Chan mirrors a Go channel of element type T under the scheduler.
type Chan[T any] struct {
	id      int
	cap     int
	buf     []T
	closed  bool
	waiting int // receivers parked on this channel (for rendezvous)
}

// MakeChan mirrors make(chan T, n).
func MakeChan[T any](n int) *Chan[T] {
	c := &Chan[T]{cap: n}
	c.id = NewObj(func() uint64 {
		v := uint64(len(c.buf)) << 1
		if c.closed {
			v |= 1
		}
		return v
	})
	return c
}

// Send mirrors ch <- v.
func (c *Chan[T]) Send(v T) {
	if c == nil {
		SchedPoint("send-nil", 0, func() bool { return false })
	}
	SchedPoint("send", c.id, func() bool {
		if c.closed {
			return true
		}
		if c.cap > 0 {
			return len(c.buf) < c.cap
		}
		// unbuffered: rendezvous with a parked receiver
		return c.waiting > len(c.buf)
	})
	if c.closed {
		panic("send on closed channel")
	}
	c.buf = append(c.buf, v)
}

// Recv mirrors <-ch.
func (c *Chan[T]) Recv() T {
	v, _ := c.Recv2()
	return v
}

// Recv2 mirrors v, ok := <-ch.
func (c *Chan[T]) Recv2() (T, bool) {
	var zero T
	if c == nil {
		SchedPoint("recv-nil", 0, func() bool { return false })
	}
	c.waiting++
	SchedPoint("recv", c.id, func() bool { return len(c.buf) > 0 || c.closed })
	c.waiting--
	if len(c.buf) > 0 {
		v := c.buf[0]
		c.buf = c.buf[1:]
		return v, true
	}
	return zero, false
}

// Close mirrors close(ch).
func (c *Chan[T]) Close() {
	SchedPoint("close", c.id, nil)
	if c.closed {
		panic("close of closed channel")
	}
	c.closed = true
}

// Len mirrors len(ch); reading it is a scheduling point.
func (c *Chan[T]) Len() int {
	SchedPoint("chan-len", c.id, nil)
	return len(c.buf)
}

// Cap mirrors cap(ch).
func (c *Chan[T]) Cap() int { return c.cap }
