package csched

import "testing"

func TestSelf(t *testing.T) {
	if err := SelfTest(); err != nil {
		t.Fatal(err)
	}
	if err := SleepSelfTest(); err != nil {
		t.Fatal(err)
	}
}
