// Package vio mirrors io.Pipe on the scheduler: a synchronous in-memory pipe
// whose Write blocks until readers have consumed all of its data (or an end is
// closed) and whose Read returns what one pending Write offers.
package vio

import (
	"io"

	"github.com/markkurossi/mpc/zverif/csched"
	"github.com/markkurossi/mpc/zverif/vsync"
)

type pipe struct {
	id      int
	wmu     vsync.Mutex
	offer   []byte
	offered bool
	taken   bool
	nr      int
	done    bool
	rerr    error
	werr    error
}

func (p *pipe) readCloseError() error {
	if p.rerr == nil && p.werr != nil {
		return p.werr
	}
	return io.ErrClosedPipe
}

func (p *pipe) writeCloseError() error {
	if p.werr == nil && p.rerr != nil {
		return p.rerr
	}
	return io.ErrClosedPipe
}

// PipeReader mirrors io.PipeReader.
type PipeReader struct{ p *pipe }

// PipeWriter mirrors io.PipeWriter.
type PipeWriter struct{ p *pipe }

// Pipe mirrors io.Pipe.
func Pipe() (*PipeReader, *PipeWriter) {
	p := &pipe{}
	p.id = csched.NewObj(func() uint64 {
		v := uint64(len(p.offer)) << 3
		if p.offered {
			v |= 1
		}
		if p.taken {
			v |= 2
		}
		if p.done {
			v |= 4
		}
		return v
	})
	return &PipeReader{p}, &PipeWriter{p}
}

// Read mirrors io.PipeReader.Read.
func (r *PipeReader) Read(b []byte) (int, error) {
	p := r.p
	csched.SchedPoint("pipe-read", p.id, func() bool { return (p.offered && !p.taken) || p.done })
	if p.done {
		return 0, p.readCloseError()
	}
	n := copy(b, p.offer)
	p.nr = n
	p.taken = true
	return n, nil
}

// Close mirrors io.PipeReader.Close.
func (r *PipeReader) Close() error { return r.CloseWithError(nil) }

// CloseWithError mirrors io.PipeReader.CloseWithError.
func (r *PipeReader) CloseWithError(err error) error {
	p := r.p
	csched.SchedPoint("pipe-close", p.id, nil)
	if err == nil {
		err = io.ErrClosedPipe
	}
	if p.rerr == nil {
		p.rerr = err
	}
	p.done = true
	return nil
}

// Write mirrors io.PipeWriter.Write.
func (w *PipeWriter) Write(b []byte) (n int, err error) {
	p := w.p
	// a closed pipe fails at once, as the real one does
	csched.SchedPoint("pipe-write-enter", p.id, nil)
	if p.done {
		return 0, p.writeCloseError()
	}
	p.wmu.Lock()
	defer p.wmu.Unlock()
	for once := true; once || len(b) > 0; once = false {
		p.offer, p.offered, p.taken = b, true, false
		csched.SchedPoint("pipe-write", p.id, func() bool { return p.taken || p.done })
		if !p.taken {
			p.offered = false
			return n, p.writeCloseError()
		}
		nw := p.nr
		p.offered, p.taken = false, false
		b = b[nw:]
		n += nw
	}
	return n, nil
}

// Close mirrors io.PipeWriter.Close.
func (w *PipeWriter) Close() error { return w.CloseWithError(nil) }

// CloseWithError mirrors io.PipeWriter.CloseWithError.
func (w *PipeWriter) CloseWithError(err error) error {
	p := w.p
	csched.SchedPoint("pipe-close", p.id, nil)
	if err == nil {
		err = io.EOF
	}
	if p.werr == nil {
		p.werr = err
	}
	p.done = true
	return nil
}
