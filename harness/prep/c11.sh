#!/bin/bash
# C11: p2p rewritten onto the cooperative scheduler (sync/atomic, channels, go statements, net).
set -e
WORK="$1"; HERE="$(cd "$(dirname "$0")" && pwd)"; . "$HERE/lib.sh"
build_rewriter "$WORK"
mkdir -p "$WORK/ov"
"$WORK/verif-rewrite" -out "$WORK/ov" -repo "${VERIF_REPO:-/repo}" -shims "$HERE/../shim" -sched p2p >&2
echo "-overlay $WORK/ov/overlay.json"
