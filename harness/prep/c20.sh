#!/bin/bash
# C20: bmr/wire.go draws label randomness from crypto/rand directly; route it through the seedable shim.
set -e
WORK="$1"; HERE="$(cd "$(dirname "$0")" && pwd)"; . "$HERE/lib.sh"
REPO="${VERIF_REPO:-/repo}"
overlay_begin "$WORK"
replace_import $REPO/bmr/wire.go "$WORK/bmr_wire.go" "crypto/rand" 'rand "github.com/markkurossi/mpc/zverif/vrand"'
overlay_add $REPO/bmr/wire.go "$WORK/bmr_wire.go"
cp "$HERE/../shim/vrand/vrand.go" "$WORK/vrand.go"
overlay_add $REPO/zverif/vrand/vrand.go "$WORK/vrand.go"
overlay_end
echo "-overlay $WORK/overlay.json"
