#!/bin/bash
# C20: bmr/wire.go draws label randomness from crypto/rand directly; route it through the seedable shim.
set -e
WORK="$1"; HERE="$(cd "$(dirname "$0")" && pwd)"; . "$HERE/lib.sh"
overlay_begin "$WORK"
replace_import /repo/bmr/wire.go "$WORK/bmr_wire.go" "crypto/rand" 'rand "github.com/markkurossi/mpc/zverif/vrand"'
overlay_add /repo/bmr/wire.go "$WORK/bmr_wire.go"
cp "$HERE/../shim/vrand/vrand.go" "$WORK/vrand.go"
overlay_add /repo/zverif/vrand/vrand.go "$WORK/vrand.go"
overlay_end
echo "-overlay $WORK/overlay.json"
