# helpers for prep scripts. usage: . lib.sh; overlay_begin $WORK; overlay_add <repo-path> <file>; overlay_end
overlay_begin() { OVWORK="$1"; OVJSON="$OVWORK/overlay.json"; echo '{"Replace":{' > "$OVJSON"; OVFIRST=1; }
overlay_add() {
  [ $OVFIRST = 1 ] || echo ',' >> "$OVJSON"; OVFIRST=0
  printf '"%s":"%s"' "$1" "$2" >> "$OVJSON"
}
overlay_end() { echo '}}' >> "$OVJSON"; }
# replace_import <src> <dst> <import-path> <replacement import spec>  (fails if the import is absent)
replace_import() {
  if ! grep -q "^[[:space:]]*\(rand \|crand \)\?\"$3\"" "$1"; then echo "prep: $1 does not import $3 any more" >&2; return 1; fi
  sed "s|^\([[:space:]]*\)\([a-z]* \)\?\"$3\"|\1$4|" "$1" > "$2"
}
# build_rewriter <work>: builds verif-rewrite into $1/verif-rewrite
build_rewriter() {
  ( cd "$HERE/../../rewriter" && go build -o "$1/verif-rewrite" . ) || { echo "prep: cannot build verif-rewrite" >&2; return 1; }
}
