#!/bin/bash
# C17: p2p and circuit packages rewritten onto the cooperative scheduler (sync.Pool, atomic.Pointer).
set -e
WORK="$1"; HERE="$(cd "$(dirname "$0")" && pwd)"; . "$HERE/lib.sh"
build_rewriter "$WORK"
mkdir -p "$WORK/ov"
"$WORK/verif-rewrite" -out "$WORK/ov" -repo "${VERIF_REPO:-/repo}" -shims "$HERE/../shim" -sched p2p,circuit >&2
echo "-overlay $WORK/ov/overlay.json"
