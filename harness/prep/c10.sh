#!/bin/bash
# C10: gmw and p2p rewritten onto the cooperative scheduler; gmw's direct crypto/rand uses seeded.
set -e
WORK="$1"; HERE="$(cd "$(dirname "$0")" && pwd)"; . "$HERE/lib.sh"
build_rewriter "$WORK"
mkdir -p "$WORK/ov"
"$WORK/verif-rewrite" -out "$WORK/ov" -repo "${VERIF_REPO:-/repo}" -shims "$HERE/../shim" -sched p2p,gmw -rand gmw >&2
echo "-overlay $WORK/ov/overlay.json"
