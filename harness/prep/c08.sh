#!/bin/bash
# C08: every map range and directory listing in the compiler becomes a choice point.
set -e
WORK="$1"; HERE="$(cd "$(dirname "$0")" && pwd)"; . "$HERE/lib.sh"
build_rewriter "$WORK"
mkdir -p "$WORK/ov"
"$WORK/verif-rewrite" -out "$WORK/ov" -repo "${VERIF_REPO:-/repo}" -shims "$HERE/../shim" -maprange compiler,compiler/ast,compiler/ssa,compiler/circuits,compiler/utils,compiler/mpa,types,circuit,env >&2
# the repository's own two-party application, built unmodified from the current tree (app-level session histories)
( cd "${VERIF_REPO:-/repo}" && go build -o "$WORK/garbled-app" ./apps/garbled ) >&2 || echo "prep c08: apps/garbled does not build; app-level histories skipped" >&2
echo "-overlay $WORK/ov/overlay.json"
