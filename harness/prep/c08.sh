#!/bin/bash
# C08: every map range and directory listing in the compiler becomes a choice point.
set -e
WORK="$1"; HERE="$(cd "$(dirname "$0")" && pwd)"; . "$HERE/lib.sh"
build_rewriter "$WORK"
mkdir -p "$WORK/ov"
"$WORK/verif-rewrite" -out "$WORK/ov" -repo "${VERIF_REPO:-/repo}" -shims "$HERE/../shim" -maprange compiler,compiler/ast,compiler/ssa,compiler/circuits,compiler/utils,compiler/mpa,types,circuit,env >&2
echo "-overlay $WORK/ov/overlay.json"
