#!/bin/bash
# Sessions (C02, C04, C05, C16): p2p onto the scheduler; direct crypto/rand uses in the streamer seeded.
set -e
WORK="$1"; HERE="$(cd "$(dirname "$0")" && pwd)"; . "$HERE/lib.sh"
build_rewriter "$WORK"
mkdir -p "$WORK/ov"
"$WORK/verif-rewrite" -out "$WORK/ov" -repo "${VERIF_REPO:-/repo}" -shims "$HERE/../shim" -sched p2p -rand compiler/ssa >&2
echo "-overlay $WORK/ov/overlay.json"
