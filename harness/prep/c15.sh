#!/bin/bash
# C15: both carry-less multipliers. An overlay derived from the CURRENT tree renames the amd64 entry point
# mul128 -> mul128Asm and adds an in-package dispatcher (tag verif) so that the driver can select the generic
# implementation at run time and compare the two with its own reference. If the tree no longer has that shape the
# overlay is skipped (the driver then says in its evidence that only the build's own multiplier ran).
set -e
WORK="$1"; HERE="$(cd "$(dirname "$0")" && pwd)"; . "$HERE/lib.sh"
REPO="${VERIF_REPO:-/repo}"
SRC="$REPO/ot/mul128_amd64.go"
if [ "$(go env GOARCH)" != amd64 ] || ! grep -q '^func mul128(a, b Label) (Label, Label) {' "$SRC" 2>/dev/null || ! grep -q '^func mul128Generic(a, b Label)' "$REPO/ot/mul128_generic.go" 2>/dev/null; then
  echo "prep c15: ot/mul128_amd64.go has no 'func mul128(a, b Label) (Label, Label)'; generic multiplier not separately exercised" >&2
  exit 0
fi
mkdir -p "$WORK/ov"
sed 's/^func mul128(a, b Label) (Label, Label) {/func mul128Asm(a, b Label) (Label, Label) {/' "$SRC" > "$WORK/ov/mul128_amd64.go"
cat > "$WORK/ov/zz_verif_mul128.go" <<'GO'
//go:build verif

package ot

// VerifUseGeneric selects the portable multiplier (harness only; this file exists only in the check's overlay).
var VerifUseGeneric bool

func mul128(a, b Label) (Label, Label) {
	if VerifUseGeneric {
		return mul128Generic(a, b)
	}
	return mul128Asm(a, b)
}

// VerifMul128 exposes the two implementations.
func VerifMul128(generic bool, a, b Label) (Label, Label) {
	if generic {
		return mul128Generic(a, b)
	}
	return mul128Asm(a, b)
}
GO
overlay_begin "$WORK/ov"
overlay_add "$REPO/ot/mul128_amd64.go" "$WORK/ov/mul128_amd64.go"
overlay_add "$REPO/ot/zz_verif_mul128.go" "$WORK/ov/zz_verif_mul128.go"
overlay_end
echo "-tags verif,verifgeneric -overlay $WORK/ov/overlay.json"
