#!/bin/bash
# C15: an overlay derived from the CURRENT tree with two independent parts, each skipped (and said so in the evidence)
# if the tree no longer has the shape it needs:
#  (1) both carry-less multipliers: the amd64 entry point mul128 is renamed mul128Asm and an in-package dispatcher
#      (tag verif) lets the driver select the generic implementation at run time and compare the two with its own
#      reference (driver tag verifgeneric);
#  (2) the challenge coefficients as the code derives them: newPrg is renamed newPrgOrig and a wrapper reports every PRG
#      key to a harness callback (driver tag verifprg). An attacker knows the code and can compute the coefficients of an
#      honest run whatever the derivation is; the harness observes them instead of re-deriving them (seed C15-9: a
#      derivation that is none of the ones the harness knew).
set -e
WORK="$1"; HERE="$(cd "$(dirname "$0")" && pwd)"; . "$HERE/lib.sh"
REPO="${VERIF_REPO:-/repo}"
mkdir -p "$WORK/ov"
TAGS="verif"
overlay_begin "$WORK/ov"
SRC="$REPO/ot/mul128_amd64.go"
if [ "$(go env GOARCH)" != amd64 ] || ! grep -q '^func mul128(a, b Label) (Label, Label) {' "$SRC" 2>/dev/null || ! grep -q '^func mul128Generic(a, b Label)' "$REPO/ot/mul128_generic.go" 2>/dev/null; then
  echo "prep c15: ot/mul128_amd64.go has no 'func mul128(a, b Label) (Label, Label)'; generic multiplier not separately exercised" >&2
else
  sed 's/^func mul128(a, b Label) (Label, Label) {/func mul128Asm(a, b Label) (Label, Label) {/' "$SRC" > "$WORK/ov/mul128_amd64.go"
  cat > "$WORK/ov/zz_verif_mul128.go" <<'GO'
//go:build verif

package ot

// VerifUseGeneric selects the portable multiplier (harness only; this file exists only in the check's overlay).
var VerifUseGeneric bool

func mul128(a, b Label) (Label, Label) {
	if VerifUseGeneric {
		return mul128Generic(a, b)
	}
	return mul128Asm(a, b)
}

// VerifMul128 exposes the two implementations.
func VerifMul128(generic bool, a, b Label) (Label, Label) {
	if generic {
		return mul128Generic(a, b)
	}
	return mul128Asm(a, b)
}
GO
  overlay_add "$REPO/ot/mul128_amd64.go" "$WORK/ov/mul128_amd64.go"
  overlay_add "$REPO/ot/zz_verif_mul128.go" "$WORK/ov/zz_verif_mul128.go"
  TAGS="$TAGS,verifgeneric"
fi
IK="$REPO/ot/iknp.go"
if ! grep -q '^func newPrg(key Label) (cipher.Stream, error) {' "$IK" 2>/dev/null; then
  echo "prep c15: ot/iknp.go has no 'func newPrg(key Label) (cipher.Stream, error)'; challenge coefficients are derived by the harness only" >&2
else
  sed 's/^func newPrg(key Label) (cipher.Stream, error) {/func newPrgOrig(key Label) (cipher.Stream, error) {/' "$IK" > "$WORK/ov/iknp.go"
  cat > "$WORK/ov/zz_verif_prg.go" <<'GO'
//go:build verif

package ot

import "crypto/cipher"

// VerifPrgHook, if set, is told the key of every PRG the OT extension creates (harness only; overlay file).
var VerifPrgHook func(key Label)

func newPrg(key Label) (cipher.Stream, error) {
	if VerifPrgHook != nil {
		VerifPrgHook(key)
	}
	return newPrgOrig(key)
}
GO
  overlay_add "$REPO/ot/iknp.go" "$WORK/ov/iknp.go"
  overlay_add "$REPO/ot/zz_verif_prg.go" "$WORK/ov/zz_verif_prg.go"
  TAGS="$TAGS,verifprg"
fi
overlay_end
echo "-tags $TAGS -overlay $WORK/ov/overlay.json"
