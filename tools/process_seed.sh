#!/bin/bash
# process_seed.sh <ID-n> <pkg-dir> <run-regex> [check ...]: confirm a delivered seed (/tmp/seed/<ID-n>) and run the quick check(s) against it in scratch worktrees.
ID="$1"; PKG="$2"; RUN="$3"; shift 3
PROP=${ID%%-*}; CHECKS="${@:-$PROP}"
mkdir -p /tmp/seedlog
{
  echo "### confirm $ID"; /verif/tools/confirm_seed.sh /tmp/seed/$ID demo_test.go "$PKG" "$RUN" 2>&1 | tail -12
  echo "### try $ID vs $CHECKS"; /verif/tools/try_seed_scratch.sh /tmp/seed/$ID $CHECKS 2>&1 | tail -14
} > /tmp/seedlog/$ID.log 2>&1
