#!/bin/bash
# Regression test of the rewriter + shims on constructs the repository does not use today (select, timers,
# function-style atomics, RWMutex, sync.Map): rewrites rewriter/selftest/zsel in a scratch worktree of /repo and
# explores its scenarios. Not a registered check; run after changing the rewriter or the shims.
set -e
export GOFLAGS=-mod=mod GOPROXY=off
WT=$(mktemp -d /tmp/rwself.XXXXXX); rmdir "$WT"
git -C /repo worktree add -q --detach "$WT" HEAD
trap 'git -C /repo worktree remove --force "$WT" >/dev/null 2>&1; rm -rf "$WT" "$OUT"' EXIT
OUT=$(mktemp -d /tmp/rwselfout.XXXXXX)
cp -r /verif/rewriter/selftest/zsel /verif/rewriter/selftest/zseltest "$WT/"
( cd /verif/rewriter && go build -o "$OUT/verif-rewrite" . )
mkdir "$OUT/ov"
"$OUT/verif-rewrite" -out "$OUT/ov" -repo "$WT" -shims /verif/harness/shim -sched zsel
( cd "$WT" && go build -overlay "$OUT/ov/overlay.json" -o "$OUT/zseltest" ./zseltest )
"$OUT/zseltest"
