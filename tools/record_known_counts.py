#!/usr/bin/env python3
"""record_known_counts.py <ID> <tier>: runs ./check <ID> --tier <tier> on the CURRENT tree and stores, for every known
finding the run reports, the number of enumerated cases that hit its key (field "cases": {tier: n}) in the
known-findings files. Run only on a tree whose violations have all been classified (no VIOLATION line)."""
import json, re, subprocess, sys
pid, tier = sys.argv[1], sys.argv[2]
out = subprocess.run(["./check", pid, "--tier", tier], cwd="/verif", capture_output=True, text=True, errors="replace").stdout
bad = [l for l in out.splitlines() if l.startswith("  key=") and ".more-cases-than-recorded" not in l.split()[0]]
if bad:
    sys.exit("the run reports unlisted violations: classify them first\n" + "\n".join(bad[:3]))
if "exhaustive=true" not in out:
    sys.exit("the run was cut by its deadline: counts would be too low")
counts = {}
for m in re.finditer(r"^KNOWN-FINDING: property=%s key=(\S+) .*\(cases=(\d+)\)$" % pid, out, re.M):
    counts[m.group(1)] = int(m.group(2))
n = 0
for fn in ["/verif/known_findings.jsonl", "/verif/known_findings_%s.jsonl" % pid.lower()]:
    try:
        lines = open(fn).read().splitlines()
    except FileNotFoundError:
        continue
    res = []
    for l in lines:
        if l.strip() and not l.startswith("#"):
            e = json.loads(l)
            if e.get("property") == pid and e.get("status") == "known" and e["key"] in counts:
                e.setdefault("cases", {})[tier] = counts[e["key"]]
                n += 1
                l = json.dumps(e)
        res.append(l)
    open(fn, "w").write("\n".join(res) + "\n")
print(f"{pid} {tier}: {n} known keys got a case count ({len(counts)} reported)")
