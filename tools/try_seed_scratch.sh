#!/bin/bash
# try_seed_scratch.sh <seed-dir> <check-id>...: like try_seed.sh, but in a scratch worktree (never touches /repo).
SD="$1"; shift
cd /verif
WT=/tmp/ts-$(basename $SD); rm -rf $WT $WT.verif-out
git -C /repo worktree add -q --detach $WT HEAD || exit 2
trap 'git -C /repo worktree remove --force $WT; rm -rf $WT.verif-out' EXIT
git -C $WT apply "$SD/patch.diff" || { echo "patch does not apply"; exit 2; }
for c in "$@"; do
  res=$(VERIF_REPO=$WT ./check $c 2>&1)
  n=$(echo "$res" | grep -ac "^VIOLATION")
  echo "== $(basename $SD) vs $c: $n violation keys"
  echo "$res" | grep -a "^  key=\|HARNESS\|^C[0-9][0-9] tier" | cut -c1-400 | head -8
done
