#!/bin/bash
# Like run_seeds.sh but never touches /repo: every seeded change is applied to a scratch worktree of /repo HEAD and the
# quick check runs against it (VERIF_REPO). Writes seeded/RESULTS.md. Usage: run_seeds_scratch.sh [id ...]
cd /verif
OUT=${SEED_OUT:-seeded/RESULTS.md}
TMPOUT=$(mktemp)
echo "| seeded change | patch applies to HEAD | check | result |" > $TMPOUT
echo "|---|---|---|---|" >> $TMPOUT
ids="$@"; [ -z "$ids" ] && ids=$(ls -d seeded/*/ | xargs -n1 basename)
for id in $ids; do
  d=/verif/seeded/$id
  prop=$(python3 -c "import json;print(json.load(open('$d/meta.json'))['property'])")
  WT=/tmp/sw-$id; rm -rf $WT $WT.verif-out
  git -C /repo worktree add -q --detach $WT HEAD || continue
  if ! git -C $WT apply $d/patch.diff 2>/dev/null; then echo "| $id | NO | - | patch does not apply |" >> $TMPOUT; git -C /repo worktree remove --force $WT; continue; fi
  checks="$prop"; [ -f $d/also ] && checks="$checks $(cat $d/also)"
  for c in $checks; do
    res=$(VERIF_REPO=$WT ./check $c 2>&1)
    n=$(echo "$res" | grep -ac "^VIOLATION")
    keys=$(echo "$res" | grep -a "^  key=" | sed 's/^  key=\([^ ]*\).*/\1/' | head -3 | tr '\n' ' ')
    he=$(echo "$res" | grep -ac "^HARNESS-ERROR")
    if [ "$n" -gt 0 ]; then echo "| $id | yes | $c | CAUGHT ($n keys: $keys) |" >> $TMPOUT; elif [ "$he" -gt 0 ]; then echo "| $id | yes | $c | HARNESS-ERROR |" >> $TMPOUT; else echo "| $id | yes | $c | missed |" >> $TMPOUT; fi
  done
  git -C /repo worktree remove --force $WT; rm -rf $WT.verif-out
done
git -C /repo worktree prune
cp $TMPOUT $OUT; rm -f $TMPOUT
grep -c CAUGHT $OUT; grep -v CAUGHT $OUT | tail -n +3
