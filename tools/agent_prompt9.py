#!/usr/bin/env python3
"""Round-9 prompt: property text + scratch worktree only (nothing derived from /verif: the list of earlier trigger conditions is no longer given); part B = independent review; time box 40 minutes.
usage: agent_prompt5.py <PID> <n>   -> prints the prompt; worktree /tmp/wt-<PID>-<n>, deliverables /tmp/seed/<PID>-<n>"""
import json, sys, glob, os
pid, n = sys.argv[1], sys.argv[2]
for l in open('/verif/properties.jsonl'):
    p = json.loads(l)
    if p['id'] == pid:
        break
wt = f"/tmp/wt-{pid}-{n}"; out = f"/tmp/seed/{pid}-{n}"
prev = []
for d in sorted(glob.glob(f'/verif/seeded/{pid}*/meta.json')):
    m = json.load(open(d))
    if m['property'] == pid:
        prev.append(m['needs_to_manifest'])
prevtxt = "\n".join(f"    - {x}" for x in prev)
print(f"""You are helping test a verification effort for the Go project markkurossi/mpc (secure multi-party computation: MPCL compiler, garbled circuits, OT, p2p). You have your own scratch git worktree of the project at {wt} (a detached checkout). Work ONLY inside {wt} and {out}; never touch /repo or /verif (do not read /verif either).

Go environment (offline sandbox): in every shell call run `export GOFLAGS=-mod=mod GOPROXY=off` first; do NOT set GOTOOLCHAIN or GOSUMDB. `cd {wt} && go build ./... && go test -vet=off -count=1 ./...` runs the existing test suite (the top-level package's TestSuite fails on the unchanged tree for 5 sha512 programs because of emptied files - ignore that one test; everything else passes). The p2p and gmw tests bind fixed TCP ports and other agents run the same suite in sibling worktrees at the same time: run the suite inside a private network namespace, `unshare -rn sh -c 'ip link set lo up; go test -vet=off -count=1 ./...'`, to avoid spurious port clashes. The machine is shared: do not start more than one `go test ./...` at a time, and do not write tests that allocate more than ~2 GB.

The semantic property under study:

  id: {p['id']}
  title: {p['title']}
  statement: {p['statement']}
  quantifier: {p['quantifier']['text']}
  files it is anchored in: {', '.join(p['anchors']['files'])}

Your task: produce ONE realistic change to the project's non-test source (a plausible bug a maintainer could introduce during a refactor or optimisation: a few lines) that BREAKS this property while the project still compiles and ALL existing tests that pass on the unchanged tree still pass. The change must need something specific to manifest - a particular interleaving, a fault at a particular point, a multi-step sequence of operations, an unusual input/size/width/shape, or two cooperating sites that each look fine alone - not something ordinary use would expose at once. Do not just delete a check wholesale or make the code fail on every input. Do not edit test files or testdata.

Deliverables, all under {out}/ (create the directory):
  1. patch.diff  - `git -C {wt} diff` of your change (must apply with `git apply` to the pinned commit).
  2. a demonstration: a Go test file named demo_test.go (say in notes.md in which package directory of the project it must be placed, and the -run regex) that FAILS with the change applied and PASSES without it. Keep it deterministic (for schedule-dependent bugs you may force the interleaving in the demo with sleeps/hooks local to the demo, or loop enough times to make it fail reliably, and say so).
  3. notes.md - which file/function you changed, why it breaks the property, what specific condition it needs in order to manifest, and the exact commands you ran: (a) the existing test suite with the change applied (paste the pass/fail summary per package), (b) the demonstration with the change (fails) and without it (passes; use `git apply -R {out}/patch.diff` and re-apply afterwards - do NOT use `git stash`: the stash is shared between all worktrees of the repository and other agents work in sibling worktrees).

PART B (as important as the seeded change): review the UNCHANGED code against the property. Spend real effort looking for an input, size, shape, sequence of calls, schedule or fault on which the code AS IT IS already contradicts the statement above (read the anchored files and their callers; try boundary widths and sizes, empty / zero-width values, reused buffers and objects, repeated calls on one instance, unusual but legal arguments, error paths). For every contradiction you can reproduce, add a Go test to {out}/review_test.go (same package-directory convention as the demo; it must FAIL on the unchanged tree, i.e. with your patch reverted) and describe it in notes.md under "Review findings" with the failing input and the observed vs expected behaviour. Say also what you tried that turned out fine. Do not report behaviour that the repository's own tests or documentation pin as intended.

Time box: aim to deliver within 40 minutes; deliver the change, demonstration and notes FIRST, then spend what is left on part B; do not start sweeps that run longer than a few minutes. Leave the worktree with your change applied (uncommitted) when you finish. Your final message should summarise in under 150 words: the change, what it needs to manifest, the package dir + -run regex of the demo, and the paths of the deliverables.""")
