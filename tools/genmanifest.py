#!/usr/bin/env python3
"""Generates /verif/MANIFEST.json from the table below (kept in one place so it stays valid)."""
import json, os, sys
HERE = os.path.dirname(os.path.dirname(os.path.abspath(__file__)))
sys.path.insert(0, os.path.join(HERE, "tools"))
from checks_table import CHECKS, ENGINES, NOT_APPLICABLE, NOTES

props = [json.loads(l) for l in open(os.path.join(HERE, "properties.jsonl"))]
ids = [p["id"] for p in props]
checks = []
for pid in ids:
    if pid not in CHECKS:
        continue
    c = CHECKS[pid]
    checks.append({
        "property_id": pid,
        "quick_cmd": f"./check {pid} --tier quick",
        "thorough_cmd": f"./check {pid} --tier thorough",
        "evidence_file": f"/verif/evidence/{pid}.json",
        "replay_cmd_template": f"./check {pid} --replay {{path}}",
        "engine": c["engine"],
        "level_claimed": {"category": c["level"], "text": c["text"], "design_ref": f"DESIGN.md section 4 / {pid}"},
        "level_note": c["note"],
        "technique": c["technique"],
    })
na = []
for pid in ids:
    if pid in CHECKS:
        continue
    na.append({"property_id": pid, "reason": NOT_APPLICABLE.get(pid, "check not built yet (work in progress in this session); nothing is claimed for it")})
m = {
    "version": 1,
    "setup_cmd": "./setup.sh",
    "hooks": {
        "guard": "verif",
        "enable": "no hook lives in /repo: instrumentation is generated at check time from /repo's working tree by harness/rewrite (typed source rewrite into a go build -overlay, files tagged //go:build verif) and built with -tags verif -overlay <generated>",
        "baseline_off_cmd": "cd /repo && export GOFLAGS=-mod=mod GOPROXY=off && go test -vet=off -count=1 -timeout 25m ./...",
        "source_commits": [],
        "add_only": True,
    },
    "engines": ENGINES,
    "checks": checks,
    "notes": NOTES,
    "not_applicable": na,
}
json.dump(m, open(os.path.join(HERE, "MANIFEST.json"), "w"), indent=1)
print("claimed:", [c["property_id"] for c in checks])
print("not_applicable:", [n["property_id"] for n in na])
