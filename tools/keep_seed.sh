#!/bin/bash
# keep_seed.sh <id> <seed-src-dir> <demo-file> <pkg-dir> <run-regex> <caught-by> <needs...>
# copies a confirmed seeded change into /verif/seeded/<id>/ with meta.json
ID="$1"; SRC="$2"; DEMO="$3"; PKG="$4"; RUN="$5"; CAUGHT="$6"; NEEDS="$7"; PROP="${8:-${ID%%-*}}"
D=/verif/seeded/$ID; mkdir -p "$D"
cp "$SRC/patch.diff" "$D/patch.diff"; cp "$SRC/$DEMO" "$D/$DEMO"; [ -f "$SRC/notes.md" ] && cp "$SRC/notes.md" "$D/notes.md"
python3 - "$D" "$PROP" "$DEMO" "$PKG" "$RUN" "$CAUGHT" "$NEEDS" <<'PY'
import json,sys
d,prop,demo,pkg,run,caught,needs=sys.argv[1:8]
json.dump({
 "property": prop,
 "breaks": "see notes.md",
 "needs_to_manifest": needs,
 "demonstration": {"file": demo, "place_in": pkg, "run": f"go test -vet=off -count=1 -run {run} ./{pkg}/"},
 "confirmed": "tools/confirm_seed.sh in a scratch worktree of /repo HEAD: patch applies, go build ./... ok, existing suite (all packages but the top-level TestSuite) passes with the change, demonstration fails with the change and passes without it",
 "detected_by": caught,
}, open(d+"/meta.json","w"), indent=1)
PY
echo kept $D
