#!/usr/bin/env python3
import json, jsonschema, glob, sys
m = json.load(open('/verif/MANIFEST.json'))
jsonschema.validate(m, json.load(open('/root/.vp/MANIFEST.schema.json')))
es = json.load(open('/root/.vp/EVIDENCE.schema.json'))
bad = 0
for c in m['checks']:
    try:
        e = json.load(open(c['evidence_file']))
        jsonschema.validate(e, es)
        if e['level'] != c['level_claimed']['category']:
            print('LEVEL MISMATCH', c['property_id']); bad += 1
    except Exception as ex:
        print('EVIDENCE INVALID', c['property_id'], str(ex)[:200]); bad += 1
print('manifest valid; evidence problems:', bad)
sys.exit(1 if bad else 0)
