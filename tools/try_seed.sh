#!/bin/bash
# try_seed.sh <seed-dir> <check-id>...: apply the change to /repo, run the quick checks, revert. First-contact test.
SD="$1"; shift
cd /verif
git -C /repo apply --check "$SD/patch.diff" || { echo "patch does not apply"; exit 2; }
git -C /repo apply "$SD/patch.diff"
trap 'git -C /repo checkout -- . ; git -C /repo status --short' EXIT
for c in "$@"; do
  res=$(./check $c 2>&1)
  n=$(echo "$res" | grep -ac "^VIOLATION")
  echo "== $(basename $SD) vs $c: $n violation keys"
  echo "$res" | grep -a "^  key=\|HARNESS\|^C[0-9][0-9] tier" | cut -c1-400 | head -8
done
