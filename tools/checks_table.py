ENGINES = [
    {"name": "E-ENUM", "path": "harness/runner harness/circgen harness/bitsim harness/drbg",
     "serves_properties": ["C01"],
     "kind_free_text": "bounded-exhaustive enumeration (odometers over finite alphabets, simplest first) of cases run on the real code and compared with an independent reference; 16 worker processes; violations confirmed by 3 replays"},
]
NOTES = ("Every check rebuilds its driver against /repo's current working tree (go build with replace => /repo). "
         "Exit codes: 0 held, 1 VIOLATION, 2 harness error (never reported as a violation). "
         "known_findings.jsonl lists genuine defects by specific key; see DESIGN.md.")
NOT_APPLICABLE = {}
CHECKS = {
 "C01": dict(engine="E-ENUM", level="exploration",
   technique="bounded-exhaustive enumeration of all circuits up to a gate bound x all inputs x all input permute bits, against an independent truth-table evaluator",
   text="Every circuit with <=3 inputs and <=3 gates (thorough: up to 4 inputs/3 gates and 2 inputs/4 gates) over the five gate kinds, with every wiring incl. the same wire twice, is garbled and evaluated on every input assignment for every combination of input permute bits, three AES key sizes and several DRBG seeds; every wire label (not only outputs) is compared with the truth-table value, plus structural checks (rows per gate, L0^L1=R) and the library's Compute. Small-scope exhaustive: complete below the bound, families beyond it.",
   note="Trusts the harness truth-table evaluator (bitsim, 20 lines) and the DRBG; label randomness covered for the enumerated seeds only."),
}
