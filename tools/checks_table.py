ENGINES = [
    {"name": "E-ENUM", "path": "harness/runner harness/circgen harness/bitsim harness/drbg",
     "serves_properties": ["C01","C06","C07","C13","C14","C15","C20"],
     "kind_free_text": "bounded-exhaustive enumeration (odometers over finite alphabets, simplest first) of cases run on the real code and compared with an independent reference; 16 worker processes; violations confirmed by 3 replays"},
]
NOTES = ("Every check rebuilds its driver against /repo's current working tree (go build with replace => /repo). "
         "Exit codes: 0 held, 1 VIOLATION, 2 harness error (never reported as a violation). "
         "known_findings.jsonl lists genuine defects by specific key; see DESIGN.md.")
NOT_APPLICABLE = {}
CHECKS = {
 "C01": dict(engine="E-ENUM", level="exploration",
   technique="bounded-exhaustive enumeration of all circuits up to a gate bound x all inputs x all input permute bits, against an independent truth-table evaluator",
   text="Every circuit with <=3 inputs and <=3 gates (thorough: up to 4 inputs/3 gates and 2 inputs/4 gates) over the five gate kinds, with every wiring incl. the same wire twice, is garbled and evaluated on every input assignment for every combination of input permute bits, three AES key sizes and several DRBG seeds; every wire label (not only outputs) is compared with the truth-table value, plus structural checks (rows per gate, L0^L1=R) and the library's Compute. Small-scope exhaustive: complete below the bound, families beyond it.",
   note="Trusts the harness truth-table evaluator (bitsim, 20 lines) and the DRBG; label randomness covered for the enumerated seeds only."),
 "C06": dict(engine="E-ENUM", level="exploration",
   technique="bounded-exhaustive enumeration of batch sizes (every n up to a bound), choice patterns, batch histories and OT variants, oracle = chosen label / IKNP correlation",
   text="IKNP extension in label, malicious-label and packed-bit form for every batch size 1..600 (thorough 1..1100), both values of Delta's bit 0, choice vectors all-0/all-1/alternating/every single position (small n)/LFSR, 2- and 3-batch histories on one instance; COT and ROT (semi-honest, malicious, shared re-initialisation) over an ideal base OT and over Chou-Orlandi; Chou-Orlandi and its pure helpers on four curves; RSA-1024. Oracle: the receiver holds exactly the chosen label; recv = sent xor choice*Delta bit for bit.",
   note="Typed in-memory link instead of p2p.Conn (C11 covers the byte stream); ideal base OT for the full-size sweep; DRBG-seeded randomness."),
 "C13": dict(engine="E-ENUM", level="exploration",
   technique="bounded-exhaustive enumeration of type shapes x boundary values x spellings x Go value types against a reference bit packer and its inverse",
   text="All scalar widths (quick: 19 switch widths, thorough: 1..130) x boundary alphabet x decimal/hex/binary spellings x every Go integer type that can hold the type; arrays and slices with 0..4 elements incl. short literals; compounds of 2-3 members with every (all-ones member, zero member) pair. Oracle per bit below the declared size: Parse == Set == reference packer; InputSizes == Sizes == bits needed (non-negative values); Result is the inverse, repeatable and leaves its argument unchanged.",
   note="Reference packer is the specification (LE two's complement, declaration order, zero fill). Hex-only array literals; negative size inference recorded, not judged."),
 "C14": dict(engine="E-FAULT", level="fault_enumeration",
   technique="exhaustive fault enumeration: every truncation, bit flip, byte deletion/duplication, field splice and appended record of valid circuit files, plus bounded-exhaustive round trips",
   text="Round trip of every circuit with <=3 inputs and <=3 gates (quick: <=2..3 gates) in both formats, compiled programs with array/struct I/O, synthetic headers (names of 0..70000 bytes, up to 400 compound members): same gates, counts, signature, bytes and function. Malformed: for 11-15 seed files per run every truncation length, every single-bit flip, every one-byte deletion/duplication, appended records/junk, every offset as a u32 set to 5 values (native) and every token replaced by 9 values, every line deleted/duplicated (Bristol). Oracle: error, or a circuit whose gate inputs are defined before use and whose wires are all assigned; no panic, no hang (60 s), risky cases in a memory-capped child process.",
   note="Inputs whose declared sizes exceed 10^6 are skipped by a tolerant pre-scan written in the harness (the property's precondition)."),
 "C15": dict(engine="E-FAULT", level="fault_enumeration",
   technique="exhaustive fault enumeration over the receiver's recorded extension messages: every (column,row) bit of payload and check matrices, pairs, columns, rows, lengths, response bits; real sender re-run on each",
   text="The honest malicious-mode receiver is recorded once per (n, choices); the real sender is re-run on every mutated message list: every (column 0..127, row) single-bit flip of the payload matrix and of the 256-row check matrix for n in {1,9,64} (thorough also 8,130), all pairs within a row/column among the first 16, whole columns/rows, chunk length +-128, every bit of seed2/x/t0/t1; for multi-chunk batches (513, 1030; thorough 600, 2049) every row of every chunk for 8 columns and every column for boundary rows; each under Delta and its complement so that every column is selected once. Oracle: abort, or the correlation still holds for the receiver's original choices. Honest runs for every n in 1..300 (700) never abort.",
   note="Ideal base OT; the mul128 implementation the build selects (CLMUL assembly on amd64)."),
 "C20": dict(engine="E-ENUM", level="exploration",
   technique="bounded-exhaustive enumeration of vector lengths x moduli x element-class pairs (VOLE) and of (a,b,s) x seeds (BMR gadgets) against math/big",
   text="VOLE over p2p.Conn on an in-memory link for 16 moduli from 2 to 2^256-1 (incl. 33..64-bit and 65..128-bit ones), every length 1..40 plus chunk-boundary lengths to 1025 (thorough 2000), element classes {0,1,2,p-1,p-2,p/2,random} scheduled so that every (x-class, y-class) pair occurs, multi-call histories, ideal and Chou-Orlandi base OT: u-r = x*y mod p, shares in [0,p). BMR FxSend/FxReceive for all (a,b) x 64 seeds (both values of r observed) and FxkSend/FxkReceive for b x 36 strings.",
   note="Free-running goroutines (two-party Kahn network, schedule-independent results); bmr label randomness seeded through an import-rewrite overlay generated at check time."),
 "C07": dict(engine="E-ENUM", level="exploration",
   technique="bounded-exhaustive enumeration: every operand width pair up to a bound with every operand value, plus algorithm-switch widths with a boundary alphabet, each builder circuit evaluated 64 lanes at a time against math/big",
   text="28 builders (adder, subtractor, multiplier with 4 thresholds and the array/Karatsuba/Wallace algorithms directly, unsigned and signed division and modulo, 10 comparators, bitwise ops, logical ops, Hamming, MUX, Index, bit tests) x ALL operand width pairs 1..7 (thorough 1..8) x result widths {max, max+1, 2max, 2max+3, 1} x {Yao, GMW} with ALL operand values; then 16 (thorough 33) switch widths from 9 to 130 with the cross product of a boundary alphabet. Circuits are built exactly as ssa.Program.Circuit builds them (ConstPropagate, ShortCircuitXORZero, optional Prune, Compile).",
   note="Reference = math/big reduced mod 2^wz; signed division conventions as pinned by testsuite/lang/divi.mpcl, modi.mpcl; signed builders and dividers with equal operand widths only."),
}
