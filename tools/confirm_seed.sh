#!/bin/bash
# confirm_seed.sh <seed-dir> <demo-file> <pkg-dir-relative> <test-run-regex>
# Confirms in a scratch worktree of /repo HEAD: patch applies, builds, existing suite passes, demo fails with / passes without.
set -u
export GOFLAGS=-mod=mod GOPROXY=off
SD="$1"; DEMO="$2"; PKG="$3"; RUN="$4"
WT=$(mktemp -d /tmp/confirm.XXXXXX); rmdir "$WT"
git -C /repo worktree add -q --detach "$WT" HEAD || exit 2
trap 'git -C /repo worktree remove --force "$WT" >/dev/null 2>&1; rm -rf "$WT"' EXIT
cd "$WT"
if ! git apply "$SD/patch.diff"; then echo "RESULT patch-does-not-apply"; exit 1; fi
if ! go build ./... ; then echo "RESULT build-fails"; exit 1; fi
PKGS=$(go list ./... | grep -v '^github.com/markkurossi/mpc$' | tr '\n' ' ')
# private network namespace: the p2p test binds fixed TCP ports that other processes may hold
SUITE=$(unshare -rn sh -c "ip link set lo up 2>/dev/null; go test -vet=off -count=1 $PKGS" 2>&1 | grep -v "no test files")
echo "$SUITE" | grep -v "^ok" | head -20
if echo "$SUITE" | grep -q "^FAIL\|^---\|panic:"; then echo "RESULT suite-fails-with-change"; SUITEOK=0; else SUITEOK=1; fi
# top-level TestSuite: compare failing set with baseline (5 sha512 programs)
TOP=$(go test -vet=off -count=1 -run TestSuite . 2>&1 | grep -c "^        --- FAIL\|--- FAIL: TestSuite/" )
cp "$SD/$DEMO" "$PKG/zz_seed_demo_test.go"
go test -vet=off -count=1 -run "$RUN" "./$PKG/" > /tmp/confirm_with.$$.log 2>&1; WITH=$?
git apply -R "$SD/patch.diff"
go test -vet=off -count=1 -run "$RUN" "./$PKG/" > /tmp/confirm_without.$$.log 2>&1; WITHOUT=$?
echo "suite_ok_with_change=$SUITEOK demo_exit_with_change=$WITH demo_exit_without_change=$WITHOUT"
tail -3 /tmp/confirm_with.$$.log
tail -2 /tmp/confirm_without.$$.log
if [ $SUITEOK = 1 ] && [ $WITH != 0 ] && [ $WITHOUT = 0 ]; then echo "RESULT confirmed"; exit 0; fi
echo "RESULT not-confirmed"; exit 1
