#!/bin/bash
# Applies every seeded change to /repo in turn, runs the quick check of its property (and extra checks given in
# seeded/<id>/also), records whether a VIOLATION was raised, and reverts. Writes seeded/RESULTS.md.
cd /verif
OUT=seeded/RESULTS.md
echo "| seeded change | patch applies to HEAD | check | result |" > $OUT
echo "|---|---|---|---|" >> $OUT
for d in /verif/seeded/*/; do
  id=$(basename $d)
  prop=$(python3 -c "import json;print(json.load(open('$d/meta.json'))['property'])")
  if ! git -C /repo apply --check $d/patch.diff 2>/dev/null; then echo "| $id | NO | - | patch does not apply |" >> $OUT; continue; fi
  git -C /repo apply $d/patch.diff
  checks="$prop"; [ -f $d/also ] && checks="$checks $(cat $d/also)"
  for c in $checks; do
    res=$(./check $c 2>&1)
    n=$(echo "$res" | grep -ac "^VIOLATION")
    keys=$(echo "$res" | grep -a "^  key=" | sed 's/^  key=\([^ ]*\).*/\1/' | head -3 | tr '\n' ' ')
    if [ "$n" -gt 0 ]; then echo "| $id | yes | $c | CAUGHT ($n keys: $keys) |" >> $OUT; else echo "| $id | yes | $c | missed |" >> $OUT; fi
  done
  git -C /repo checkout -- .
done
git -C /repo status --short
cat $OUT
