// verif-rewrite: typed source rewriter. It reads packages of the repository's
// CURRENT working tree, replaces synchronisation constructs by scheduler
// shims (and, optionally, map ranges by choice points), and writes the
// rewritten files plus an overlay.json for `go build -overlay`.
//
// It fails loudly (exit 2) on any synchronisation construct it does not know,
// so that a source change can never silently escape control.
package main

import (
	"bytes"
	"encoding/json"
	"flag"
	"fmt"
	"go/ast"
	"go/build"
	"go/importer"
	"go/parser"
	"go/printer"
	"go/token"
	"go/types"
	"os"
	"path/filepath"
	"sort"
	"strconv"
	"strings"

	"golang.org/x/tools/go/ast/astutil"
)

const modPath = "github.com/markkurossi/mpc"

var (
	flagRepo     = flag.String("repo", "/repo", "repository root")
	flagOut      = flag.String("out", "", "output directory")
	flagShims    = flag.String("shims", "/verif/harness/shim", "shim source directory")
	flagSched    = flag.String("sched", "", "comma separated package dirs: rewrite sync, atomic, net, chan, go")
	flagRand     = flag.String("rand", "", "comma separated package dirs: rewrite crypto/rand")
	flagMapRange = flag.String("maprange", "", "comma separated package dirs: map ranges and Readdirnames become choice points")
	flagExtra    = flag.String("extra", "", "comma separated dst=src pairs: extra overlay files (dst relative to repo)")
)

func die(format string, a ...interface{}) {
	fmt.Fprintf(os.Stderr, "verif-rewrite: "+format+"\n", a...)
	os.Exit(2)
}

type features struct{ sched, rand, maprange bool }

func main() {
	flag.Parse()
	if *flagOut == "" {
		die("-out required")
	}
	if err := os.Chdir(*flagRepo); err != nil {
		die("%v", err)
	}
	pkgs := map[string]*features{}
	add := func(list string, f func(*features)) {
		for _, d := range strings.Split(list, ",") {
			d = strings.TrimSpace(d)
			if d == "" {
				continue
			}
			if pkgs[d] == nil {
				pkgs[d] = &features{}
			}
			f(pkgs[d])
		}
	}
	add(*flagSched, func(f *features) { f.sched = true })
	add(*flagRand, func(f *features) { f.rand = true })
	add(*flagMapRange, func(f *features) { f.maprange = true })

	overlay := map[string]string{}
	var dirs []string
	for d := range pkgs {
		dirs = append(dirs, d)
	}
	sort.Strings(dirs)
	sites := 0
	for _, d := range dirs {
		n, err := rewritePackage(d, pkgs[d], overlay)
		if err != nil {
			die("%s: %v", d, err)
		}
		sites += n
	}
	// shim packages
	shimDirs, _ := os.ReadDir(*flagShims)
	for _, sd := range shimDirs {
		if !sd.IsDir() {
			continue
		}
		files, _ := os.ReadDir(filepath.Join(*flagShims, sd.Name()))
		for _, f := range files {
			if !strings.HasSuffix(f.Name(), ".go") {
				continue
			}
			src := filepath.Join(*flagShims, sd.Name(), f.Name())
			dst := filepath.Join(*flagOut, "shim_"+sd.Name()+"_"+f.Name())
			data, err := os.ReadFile(src)
			if err != nil {
				die("%v", err)
			}
			if err := os.WriteFile(dst, data, 0644); err != nil {
				die("%v", err)
			}
			overlay[filepath.Join(*flagRepo, "zverif", sd.Name(), f.Name())] = dst
		}
	}
	for _, pair := range strings.Split(*flagExtra, ",") {
		if pair == "" {
			continue
		}
		kv := strings.SplitN(pair, "=", 2)
		if len(kv) != 2 {
			die("bad -extra %q", pair)
		}
		overlay[filepath.Join(*flagRepo, kv[0])] = kv[1]
	}
	data, _ := json.MarshalIndent(map[string]interface{}{"Replace": overlay}, "", " ")
	if err := os.WriteFile(filepath.Join(*flagOut, "overlay.json"), data, 0644); err != nil {
		die("%v", err)
	}
	fmt.Fprintf(os.Stderr, "verif-rewrite: %d packages, %d rewritten sites, %d overlay files\n", len(dirs), sites, len(overlay))
}

type rewriter struct {
	fset      *token.FileSet
	info      *types.Info
	feat      *features
	pkgDir    string
	sites     int
	needCS    bool // file needs the csched import
	needVmap  bool
	recv2     map[*ast.UnaryExpr]bool
	makeChan  map[*ast.CallExpr]ast.Expr
	makeNamed map[*ast.CallExpr]ast.Expr // make(T, n) with a named channel type T
	closeCh   map[*ast.CallExpr]bool
	rangeK    map[*ast.RangeStmt]string // "chan" | "map"
	readdir   map[*ast.CallExpr]bool
	lenCap    map[*ast.CallExpr]string
	inSelect  map[ast.Node]bool // communication nodes of select clauses, rewritten together with their select
	needVtime bool
	timeName  string // local name of the "time" import of the file, "" if none
	runtimeName     string
	needRuntimeKeep bool
	ioName    string // local name of the "io" import of the file, "" if none
	needVio   bool
	errs      []string
	uniq      int
}

func (r *rewriter) errorf(n ast.Node, format string, a ...interface{}) {
	r.errs = append(r.errs, fmt.Sprintf("%s: %s", r.fset.Position(n.Pos()), fmt.Sprintf(format, a...)))
}

func rewritePackage(dir string, feat *features, overlay map[string]string) (int, error) {
	abs := filepath.Join(*flagRepo, dir)
	bp, err := build.Default.ImportDir(abs, 0)
	if err != nil {
		return 0, err
	}
	fset := token.NewFileSet()
	var files []*ast.File
	var names []string
	for _, name := range bp.GoFiles {
		f, err := parser.ParseFile(fset, filepath.Join(abs, name), nil, parser.ParseComments)
		if err != nil {
			return 0, err
		}
		files = append(files, f)
		names = append(names, name)
	}
	info := &types.Info{
		Types: map[ast.Expr]types.TypeAndValue{},
		Uses:  map[*ast.Ident]types.Object{},
		Defs:  map[*ast.Ident]types.Object{},
	}
	var terrs []string
	conf := types.Config{
		Importer: importer.ForCompiler(fset, "source", nil),
		Error:    func(err error) { terrs = append(terrs, err.Error()) },
	}
	pkgPath := modPath
	if dir != "." {
		pkgPath = modPath + "/" + dir
	}
	conf.Check(pkgPath, fset, files, info)
	if len(terrs) > 0 {
		return 0, fmt.Errorf("type errors (does the tree build?): %s", strings.Join(terrs[:min(3, len(terrs))], "; "))
	}
	total := 0
	for i, f := range files {
		r := &rewriter{fset: fset, info: info, feat: feat, pkgDir: dir,
			recv2: map[*ast.UnaryExpr]bool{}, makeChan: map[*ast.CallExpr]ast.Expr{}, makeNamed: map[*ast.CallExpr]ast.Expr{}, closeCh: map[*ast.CallExpr]bool{},
			rangeK: map[*ast.RangeStmt]string{}, readdir: map[*ast.CallExpr]bool{}, lenCap: map[*ast.CallExpr]string{}, inSelect: map[ast.Node]bool{}}
		changed := r.rewriteFile(f)
		if len(r.errs) > 0 {
			return 0, fmt.Errorf("unsupported constructs:\n  %s", strings.Join(r.errs, "\n  "))
		}
		if !changed {
			continue
		}
		// directives other than go:build cannot survive dropping comments
		for _, cg := range f.Comments {
			for _, c := range cg.List {
				if strings.HasPrefix(c.Text, "//go:") && !strings.HasPrefix(c.Text, "//go:build") {
					return 0, fmt.Errorf("%s: directive %q in a file that needs rewriting", names[i], c.Text)
				}
			}
		}
		f.Comments = nil
		f.Doc = nil
		var buf bytes.Buffer
		if err := printer.Fprint(&buf, fset, f); err != nil {
			return 0, err
		}
		out := filepath.Join(*flagOut, strings.ReplaceAll(dir, "/", "_")+"_"+names[i])
		hdr := "// Code generated by verif-rewrite from " + filepath.Join(dir, names[i]) + "; DO NOT EDIT.\n\n"
		if err := os.WriteFile(out, append([]byte(hdr), buf.Bytes()...), 0644); err != nil {
			return 0, err
		}
		overlay[filepath.Join(abs, names[i])] = out
		total += r.sites
	}
	return total, nil
}

func min(a, b int) int {
	if a < b {
		return a
	}
	return b
}

// rewriteSelect turns a select statement into a switch over csched.Select.
func (r *rewriter) rewriteSelect(c *astutil.Cursor, n *ast.SelectStmt) {
	r.uniq++
	r.needCS = true
	r.sites++
	zi := ast.NewIdent(fmt.Sprintf("zvI%d", r.uniq))
	zv := ast.NewIdent(fmt.Sprintf("zvV%d", r.uniq))
	zo := ast.NewIdent(fmt.Sprintf("zvOk%d", r.uniq))
	hasDefault := "false"
	var args []ast.Expr
	var clauses []ast.Stmt
	use := &ast.AssignStmt{Lhs: []ast.Expr{ast.NewIdent("_"), ast.NewIdent("_")}, Tok: token.ASSIGN, Rhs: []ast.Expr{zv, zo}}
	simple := func(e ast.Expr) bool {
		for {
			switch x := e.(type) {
			case *ast.Ident:
				return true
			case *ast.SelectorExpr:
				e = x.X
			case *ast.ParenExpr:
				e = x.X
			case *ast.IndexExpr:
				if _, ok := x.Index.(*ast.BasicLit); !ok {
					if _, ok := x.Index.(*ast.Ident); !ok {
						return false
					}
				}
				e = x.X
			default:
				return false
			}
		}
	}
	for _, st := range n.Body.List {
		cc := st.(*ast.CommClause)
		if cc.Comm == nil {
			hasDefault = "true"
			clauses = append(clauses, &ast.CaseClause{Body: append([]ast.Stmt{use}, cc.Body...)})
			continue
		}
		idx := &ast.BasicLit{Kind: token.INT, Value: strconv.Itoa(len(args))}
		var pre []ast.Stmt
		switch comm := cc.Comm.(type) {
		case *ast.SendStmt:
			args = append(args, &ast.CallExpr{Fun: &ast.SelectorExpr{X: comm.Chan, Sel: ast.NewIdent("SendCase")}, Args: []ast.Expr{comm.Value}})
		case *ast.ExprStmt:
			u := ast.Unparen(comm.X).(*ast.UnaryExpr)
			args = append(args, &ast.CallExpr{Fun: &ast.SelectorExpr{X: u.X, Sel: ast.NewIdent("RecvCase")}})
		case *ast.AssignStmt:
			u := ast.Unparen(comm.Rhs[0]).(*ast.UnaryExpr)
			if !simple(u.X) {
				r.errorf(n, "select receive clause with an assignment from a non-trivial channel expression")
			}
			args = append(args, &ast.CallExpr{Fun: &ast.SelectorExpr{X: u.X, Sel: ast.NewIdent("RecvCase")}})
			rhs := []ast.Expr{&ast.CallExpr{Fun: sel("csched", "As"), Args: []ast.Expr{u.X, zv}}}
			if len(comm.Lhs) == 2 {
				rhs = append(rhs, zo)
			}
			pre = append(pre, &ast.AssignStmt{Lhs: comm.Lhs, Tok: comm.Tok, Rhs: rhs})
		}
		body := append([]ast.Stmt{use}, pre...)
		clauses = append(clauses, &ast.CaseClause{List: []ast.Expr{idx}, Body: append(body, cc.Body...)})
	}
	if hasDefault == "false" && len(clauses) > 0 {
		// Select returns one of the clause indexes: the last clause becomes the switch's default, which keeps
		// a select that ends a function a terminating statement
		clauses[len(clauses)-1].(*ast.CaseClause).List = nil
	}
	call := &ast.CallExpr{Fun: sel("csched", "Select"), Args: append([]ast.Expr{ast.NewIdent(hasDefault)}, args...)}
	c.Replace(&ast.SwitchStmt{
		Init: &ast.AssignStmt{Lhs: []ast.Expr{zi, zv, zo}, Tok: token.DEFINE, Rhs: []ast.Expr{call}},
		Tag:  zi,
		Body: &ast.BlockStmt{List: clauses},
	})
}

func sel(pkg, name string) ast.Expr {
	return &ast.SelectorExpr{X: ast.NewIdent(pkg), Sel: ast.NewIdent(name)}
}

func (r *rewriter) isChan(e ast.Expr) bool {
	t := r.info.TypeOf(e)
	if t == nil {
		return false
	}
	_, ok := t.Underlying().(*types.Chan)
	return ok
}

func (r *rewriter) isMap(e ast.Expr) bool {
	t := r.info.TypeOf(e)
	if t == nil {
		return false
	}
	_, ok := t.Underlying().(*types.Map)
	return ok
}

func (r *rewriter) isBuiltin(id *ast.Ident, name string) bool {
	if id.Name != name {
		return false
	}
	_, ok := r.info.Uses[id].(*types.Builtin)
	return ok
}

var importMap = map[string][2]string{
	"sync":        {"sync", modPath + "/zverif/vsync"},
	"sync/atomic": {"atomic", modPath + "/zverif/vatomic"},
	"net":         {"net", modPath + "/zverif/vnet"},
	"crypto/rand": {"rand", modPath + "/zverif/vrand"},
}

func (r *rewriter) rewriteFile(f *ast.File) bool {
	changed := false
	// imports
	r.timeName = ""
	r.ioName = ""
	for _, is := range f.Imports {
		p, _ := strconv.Unquote(is.Path.Value)
		if p == "io" {
			r.ioName = "io"
			if is.Name != nil {
				r.ioName = is.Name.Name
			}
		}
		if p == "time" {
			r.timeName = "time"
			if is.Name != nil {
				r.timeName = is.Name.Name
			}
		}
		m, ok := importMap[p]
		if !ok {
			continue
		}
		if p == "crypto/rand" && !r.feat.rand {
			continue
		}
		if p != "crypto/rand" && !r.feat.sched {
			continue
		}
		if is.Name == nil {
			is.Name = ast.NewIdent(m[0])
		}
		is.Path.Value = strconv.Quote(m[1])
		is.Path.ValuePos = token.NoPos
		changed = true
		r.sites++
	}

	pre := func(c *astutil.Cursor) bool {
		switch n := c.Node().(type) {
		case *ast.TypeSpec:
			// a named channel type becomes an alias of the shim channel type (a defined pointer type would
			// lose the channel methods)
			if _, ok := n.Type.(*ast.ChanType); ok && r.feat.sched && !n.Assign.IsValid() {
				n.Assign = n.Name.End()
			}
		case *ast.SelectStmt:
			if r.feat.sched {
				for _, st := range n.Body.List {
					cc := st.(*ast.CommClause)
					switch comm := cc.Comm.(type) {
					case nil:
					case *ast.SendStmt:
						r.inSelect[comm] = true
					case *ast.ExprStmt:
						r.inSelect[ast.Unparen(comm.X)] = true
					case *ast.AssignStmt:
						r.inSelect[ast.Unparen(comm.Rhs[0])] = true
					}
				}
			}
		case *ast.SelectorExpr:
			if r.feat.sched {
				if id, ok := n.X.(*ast.Ident); ok {
					if pn, ok := r.info.Uses[id].(*types.PkgName); ok && pn.Imported().Path() == "runtime" {
						switch n.Sel.Name {
						case "SetFinalizer", "Gosched":
							// finalizers run when the harness declares the object dropped (csched.Drop), on a
							// scheduler thread of their own; Gosched is a pure scheduling point
							r.runtimeName = id.Name
							n.X = ast.NewIdent("csched")
							r.needCS = true
							r.needRuntimeKeep = true
							r.sites++
						case "AddCleanup":
							r.errorf(n, "runtime.AddCleanup (not modelled)")
						}
					}
				}
			}
			if r.feat.sched && r.ioName != "" {
				if id, ok := n.X.(*ast.Ident); ok {
					if pn, ok := r.info.Uses[id].(*types.PkgName); ok && pn.Imported().Path() == "io" {
						switch n.Sel.Name {
						case "Pipe", "PipeReader", "PipeWriter":
							n.X = ast.NewIdent("vio")
							r.needVio = true
							r.sites++
						}
					}
				}
			}
			if r.feat.sched && r.timeName != "" {
				if id, ok := n.X.(*ast.Ident); ok {
					if pn, ok := r.info.Uses[id].(*types.PkgName); ok && pn.Imported().Path() == "time" {
						switch n.Sel.Name {
						case "After", "Sleep", "NewTimer", "AfterFunc", "Timer":
							n.X = ast.NewIdent("vtime")
							r.needVtime = true
							r.sites++
						case "Tick", "NewTicker", "Ticker":
							r.errorf(n, "time.%s (tickers are not modelled)", n.Sel.Name)
						}
					}
				}
			}
		case *ast.AssignStmt:
			if r.feat.sched && len(n.Lhs) == 2 && len(n.Rhs) == 1 {
				if u, ok := n.Rhs[0].(*ast.UnaryExpr); ok && u.Op == token.ARROW {
					r.recv2[u] = true
				}
			}
		case *ast.ValueSpec:
			if r.feat.sched && len(n.Names) == 2 && len(n.Values) == 1 {
				if u, ok := n.Values[0].(*ast.UnaryExpr); ok && u.Op == token.ARROW {
					r.recv2[u] = true
				}
			}
		case *ast.CallExpr:
			if id, ok := n.Fun.(*ast.Ident); ok && r.feat.sched {
				switch {
				case r.isBuiltin(id, "make") && len(n.Args) >= 1 && r.isChan(n):
					ct, ok := n.Args[0].(*ast.ChanType)
					if !ok {
						// make(T) with a named channel type T: T(csched.MakeChan[elem](n)), the element type
						// printed from the type checker's view
						ch := r.info.TypeOf(n).Underlying().(*types.Chan)
						src := types.TypeString(ch.Elem(), func(p *types.Package) string {
							if tn, ok := r.info.TypeOf(n).(*types.Named); ok && tn.Obj().Pkg() == p {
								return ""
							}
							return p.Name()
						})
						elem, err := parser.ParseExpr(src)
						if err != nil {
							r.errorf(n, "make of a named channel type whose element type %q cannot be written here", src)
						} else {
							r.makeChan[n] = elem
							r.makeNamed[n] = n.Args[0]
						}
					} else {
						r.makeChan[n] = ct.Value
					}
				case r.isBuiltin(id, "close"):
					r.closeCh[n] = true
				case (r.isBuiltin(id, "len") || r.isBuiltin(id, "cap")) && len(n.Args) == 1 && r.isChan(n.Args[0]):
					r.lenCap[n] = id.Name
				}
			}
			if s, ok := n.Fun.(*ast.SelectorExpr); ok && r.feat.maprange && s.Sel.Name == "Readdirnames" {
				r.readdir[n] = true
			}
		case *ast.RangeStmt:
			if r.feat.sched && r.isChan(n.X) {
				r.rangeK[n] = "chan"
			} else if r.feat.maprange && r.isMap(n.X) {
				r.rangeK[n] = "map"
			}
		}
		return true
	}

	post := func(c *astutil.Cursor) bool {
		switch n := c.Node().(type) {
		case *ast.GoStmt:
			if !r.feat.sched {
				break
			}
			// the arguments of a go statement are evaluated by the caller: hoist every argument that is not a
			// plain name, literal or selector into a temporary
			var hoist []ast.Stmt
			if n.Call.Ellipsis != token.NoPos {
				r.errorf(n, "go statement with a variadic spread argument")
			}
			for i, a := range n.Call.Args {
				switch a.(type) {
				case *ast.Ident, *ast.BasicLit, *ast.SelectorExpr:
				default:
					r.uniq++
					tmp := ast.NewIdent(fmt.Sprintf("zvGo%d", r.uniq))
					hoist = append(hoist, &ast.AssignStmt{Lhs: []ast.Expr{tmp}, Tok: token.DEFINE, Rhs: []ast.Expr{a}})
					n.Call.Args[i] = tmp
				}
			}
			r.needCS = true
			r.sites++
			goCall := &ast.ExprStmt{X: &ast.CallExpr{
				Fun: sel("csched", "Go"),
				Args: []ast.Expr{&ast.FuncLit{
					Type: &ast.FuncType{Params: &ast.FieldList{}},
					Body: &ast.BlockStmt{List: []ast.Stmt{&ast.ExprStmt{X: n.Call}}},
				}},
			}}
			if len(hoist) == 0 {
				c.Replace(goCall)
			} else {
				c.Replace(&ast.BlockStmt{List: append(hoist, goCall)})
			}
		case *ast.SelectStmt:
			if r.feat.sched {
				r.rewriteSelect(c, n)
			}
		case *ast.SendStmt:
			if !r.feat.sched || r.inSelect[n] {
				break
			}
			r.sites++
			c.Replace(&ast.ExprStmt{X: &ast.CallExpr{
				Fun:  &ast.SelectorExpr{X: n.Chan, Sel: ast.NewIdent("Send")},
				Args: []ast.Expr{n.Value},
			}})
		case *ast.UnaryExpr:
			if !r.feat.sched || n.Op != token.ARROW || r.inSelect[n] {
				break
			}
			name := "Recv"
			if r.recv2[n] {
				name = "Recv2"
			}
			r.sites++
			c.Replace(&ast.CallExpr{Fun: &ast.SelectorExpr{X: n.X, Sel: ast.NewIdent(name)}})
		case *ast.CallExpr:
			if elem, ok := r.makeChan[n]; ok {
				var size ast.Expr = &ast.BasicLit{Kind: token.INT, Value: "0"}
				if len(n.Args) > 1 {
					size = n.Args[1]
				}
				// n.Args[0] has already been rewritten to *csched.Chan[T]; take T from the original
				r.needCS = true
				r.sites++
				var mk ast.Expr = &ast.CallExpr{
					Fun:  &ast.IndexExpr{X: sel("csched", "MakeChan"), Index: elem},
					Args: []ast.Expr{size},
				}
				if named, ok := r.makeNamed[n]; ok {
					mk = &ast.CallExpr{Fun: named, Args: []ast.Expr{mk}}
				}
				c.Replace(mk)
			} else if name, ok := r.lenCap[n]; ok {
				r.sites++
				m := "Len"
				if name == "cap" {
					m = "Cap"
				}
				c.Replace(&ast.CallExpr{Fun: &ast.SelectorExpr{X: n.Args[0], Sel: ast.NewIdent(m)}})
			} else if r.closeCh[n] {
				r.sites++
				c.Replace(&ast.CallExpr{Fun: &ast.SelectorExpr{X: n.Args[0], Sel: ast.NewIdent("Close")}})
			} else if r.readdir[n] {
				r.needVmap = true
				r.sites++
				delete(r.readdir, n)
				c.Replace(&ast.CallExpr{Fun: sel("vmap", "Names"), Args: []ast.Expr{n}})
			}
		case *ast.ChanType:
			if !r.feat.sched {
				break
			}
			r.needCS = true
			r.sites++
			c.Replace(&ast.StarExpr{X: &ast.IndexExpr{X: sel("csched", "Chan"), Index: n.Value}})
		case *ast.RangeStmt:
			switch r.rangeK[n] {
			case "chan":
				r.sites++
				r.uniq++
				ok := ast.NewIdent(fmt.Sprintf("zvOk%d", r.uniq))
				var key ast.Expr = ast.NewIdent("_")
				tok := token.DEFINE
				if n.Key != nil {
					key = n.Key
					tok = n.Tok
				}
				if tok == token.ASSIGN {
					r.errorf(n, "range over channel with = assignment")
				}
				recv := &ast.AssignStmt{
					Lhs: []ast.Expr{key, ok}, Tok: token.DEFINE,
					Rhs: []ast.Expr{&ast.CallExpr{Fun: &ast.SelectorExpr{X: n.X, Sel: ast.NewIdent("Recv2")}}},
				}
				brk := &ast.IfStmt{Cond: &ast.UnaryExpr{Op: token.NOT, X: ok}, Body: &ast.BlockStmt{List: []ast.Stmt{&ast.BranchStmt{Tok: token.BREAK}}}}
				body := &ast.BlockStmt{List: append([]ast.Stmt{recv, brk}, n.Body.List...)}
				c.Replace(&ast.ForStmt{Body: body})
			case "map":
				r.sites++
				r.uniq++
				r.needVmap = true
				pos := r.fset.Position(n.Pos())
				site := fmt.Sprintf("%s/%s:%d", r.pkgDir, filepath.Base(pos.Filename), pos.Line)
				keys := &ast.CallExpr{Fun: sel("vmap", "Keys"), Args: []ast.Expr{n.X, &ast.BasicLit{Kind: token.STRING, Value: strconv.Quote(site)}}}
				if n.Key == nil && n.Value == nil {
					c.Replace(&ast.RangeStmt{Tok: token.ILLEGAL, X: keys, Body: n.Body})
					break
				}
				if n.Tok == token.ASSIGN {
					r.errorf(n, "range over map with = assignment")
					break
				}
				kname := ast.NewIdent(fmt.Sprintf("zvKey%d", r.uniq))
				var pre []ast.Stmt
				present := ast.NewIdent(fmt.Sprintf("zvIn%d", r.uniq))
				var val ast.Expr = ast.NewIdent("_")
				if n.Value != nil {
					val = n.Value
				}
				// v, present := m[k]; if !present { continue }
				pre = append(pre, &ast.AssignStmt{Lhs: []ast.Expr{val, present}, Tok: token.DEFINE,
					Rhs: []ast.Expr{&ast.IndexExpr{X: n.X, Index: kname}}})
				pre = append(pre, &ast.IfStmt{Cond: &ast.UnaryExpr{Op: token.NOT, X: present},
					Body: &ast.BlockStmt{List: []ast.Stmt{&ast.BranchStmt{Tok: token.CONTINUE}}}})
				if n.Key != nil {
					if id, ok := n.Key.(*ast.Ident); !ok || id.Name != "_" {
						pre = append(pre, &ast.AssignStmt{Lhs: []ast.Expr{n.Key}, Tok: token.DEFINE, Rhs: []ast.Expr{kname}})
						// silence "declared and not used" when the body ignores the key
						pre = append(pre, &ast.AssignStmt{Lhs: []ast.Expr{ast.NewIdent("_")}, Tok: token.ASSIGN, Rhs: []ast.Expr{n.Key}})
					}
				}
				body := &ast.BlockStmt{List: append(pre, n.Body.List...)}
				c.Replace(&ast.RangeStmt{Key: ast.NewIdent("_"), Value: kname, Tok: token.DEFINE, X: keys, Body: body})
			}
		}
		return true
	}
	res := astutil.Apply(f, pre, post)
	_ = res
	if r.sites > 0 {
		changed = true
	}
	if r.needCS {
		astutil.AddNamedImport(r.fset, f, "csched", modPath+"/zverif/csched")
	}
	if r.needVmap {
		astutil.AddNamedImport(r.fset, f, "vmap", modPath+"/zverif/vmap")
	}
	if r.needVio {
		astutil.AddNamedImport(r.fset, f, "vio", modPath+"/zverif/vio")
		// keep the io import used
		f.Decls = append(f.Decls, &ast.GenDecl{Tok: token.VAR, Specs: []ast.Spec{&ast.ValueSpec{
			Names: []*ast.Ident{ast.NewIdent("_")}, Type: sel(r.ioName, "Reader")}}})
		r.needVio = false
	}
	if r.needRuntimeKeep {
		// keep the runtime import used
		f.Decls = append(f.Decls, &ast.GenDecl{Tok: token.VAR, Specs: []ast.Spec{&ast.ValueSpec{
			Names: []*ast.Ident{ast.NewIdent("_")}, Type: sel(r.runtimeName, "Error")}}})
		r.needRuntimeKeep = false
	}
	if r.needVtime {
		astutil.AddNamedImport(r.fset, f, "vtime", modPath+"/zverif/vtime")
		// keep the time import used
		f.Decls = append(f.Decls, &ast.GenDecl{Tok: token.VAR, Specs: []ast.Spec{&ast.ValueSpec{
			Names: []*ast.Ident{ast.NewIdent("_")}, Type: sel(r.timeName, "Duration")}}})
		r.needVtime = false
	}
	return changed
}
