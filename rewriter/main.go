package main

import (
	"fmt"

	"golang.org/x/tools/go/ast/astutil"
)

func main() { fmt.Println(astutil.Apply != nil) }
