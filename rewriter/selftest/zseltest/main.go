package main

import (
	"fmt"
	"os"

	"github.com/markkurossi/mpc/zsel"
	"github.com/markkurossi/mpc/zverif/csched"
)

func main() {
	bad := 0
	zsel.Drop = csched.Drop
	for _, sc := range zsel.Scenarios {
		x := &csched.Explorer{PBound: sc.P, EBound: sc.E, Opts: csched.Options{HashStates: true}}
		var obs []string
		outcomes := map[string]int{}
		x.Explore(func() { obs = nil; sc.Run(csched.GoNamed, csched.Yield, &obs) }, func(r *csched.Result, pp, ee int) bool {
			if r.Outcome != "ok" {
				bad++
				fmt.Println("FAIL", sc.Name, r.Outcome, r.Detail, len(r.Choices))
				return false
			}
			if !sc.Want(obs) {
				bad++
				fmt.Println("FAIL", sc.Name, "obs=", obs, "schedule-len=", len(r.Choices))
				return false
			}
			outcomes[fmt.Sprint(obs)]++
			return true
		})
		fmt.Printf("%s: executions=%d distinct outcomes=%d truncated=%v\n", sc.Name, x.Executions, len(outcomes), x.Truncated)
		if len(outcomes) < sc.MinOutcomes {
			bad++
			fmt.Println("FAIL", sc.Name, "only", len(outcomes), "distinct outcomes, want", sc.MinOutcomes)
		}
	}
	if err := csched.SelfTest(); err != nil {
		bad++
		fmt.Println("FAIL selftest", err)
	}
	if bad > 0 {
		os.Exit(1)
	}
	fmt.Println("ALL OK")
}
