// Package zsel exercises the constructs the rewriter must support.
package zsel

import (
	"runtime"
	"errors"
	"sync"
	"sync/atomic"
	"time"
)

// Fanin merges two unbuffered channels until both are closed.
func Fanin(a, b chan int, out chan<- int) {
	for a != nil || b != nil {
		select {
		case v, ok := <-a:
			if !ok {
				a = nil
				continue
			}
			out <- v
		case v, ok := <-b:
			if !ok {
				b = nil
				continue
			}
			out <- v
		}
	}
	close(out)
}

// RecvTimeout receives with a timeout.
func RecvTimeout(ch chan int, d time.Duration) (int, error) {
	select {
	case v := <-ch:
		return v, nil
	case <-time.After(d):
		return 0, errors.New("timeout")
	}
}

// TrySend is a non-blocking send.
func TrySend(ch chan int, v int) bool {
	select {
	case ch <- v:
		return true
	default:
		return false
	}
}

// Poll polls an unbuffered channel until a value arrives.
func Poll(ch chan int) int {
	for {
		select {
		case v := <-ch:
			return v
		default:
			time.Sleep(time.Millisecond)
		}
	}
}

// Counter uses function-style atomics, RWMutex and sync.Map.
type Counter struct {
	n    int64
	mu   sync.RWMutex
	seen sync.Map
	t    *time.Timer
}

// Inc increments.
func (c *Counter) Inc(k string) int64 {
	c.mu.RLock()
	defer c.mu.RUnlock()
	c.seen.Store(k, true)
	return atomic.AddInt64(&c.n, 1)
}

// Get reads.
func (c *Counter) Get() (int64, int) {
	c.mu.Lock()
	defer c.mu.Unlock()
	n := 0
	c.seen.Range(func(k, v interface{}) bool { n++; return true })
	return atomic.LoadInt64(&c.n), n
}

// Watchdog arms a timer calling f; Stop disarms it.
func (c *Counter) Watchdog(d time.Duration, f func()) { c.t = time.AfterFunc(d, f) }

// StopWatchdog stops it.
func (c *Counter) StopWatchdog() bool { return c.t.Stop() }

// Labeled uses a labeled break out of a select inside a loop.
func Labeled(ch chan int, done chan struct{}) int {
	sum := 0
loop:
	for {
		select {
		case v := <-ch:
			sum += v
		case <-done:
			break loop
		}
	}
	return sum
}

func double(i int) int { return 2 * i }

// SpawnSum starts n workers whose arguments are computed at the go statement.
func SpawnSum(n int, out chan int) {
	for i := 0; i < n; i++ {
		go func(v, w int) { out <- v * w }(i+1, double(i))
	}
}

// eventCh is a named channel type.
type eventCh chan int

// Named sends through a channel made from a named type.
func Named(v int) int {
	ch := make(eventCh, 1)
	go func() { ch <- v + 1 }()
	return <-ch
}

// Res is a resource with a finalizer.
type Res struct {
	mu     sync.Mutex
	closed bool
}

// NewRes creates a resource that is closed when it is collected.
func NewRes() *Res {
	r := &Res{}
	runtime.SetFinalizer(r, (*Res).Close)
	return r
}

// Close closes the resource.
func (r *Res) Close() {
	r.mu.Lock()
	r.closed = true
	r.mu.Unlock()
}

// Closed reports whether the resource was closed.
func (r *Res) Closed() bool {
	runtime.Gosched()
	r.mu.Lock()
	defer r.mu.Unlock()
	return r.closed
}
