package zsel

import (
	"fmt"
	"sort"
	"time"
)

// Spawn starts a named thread.
type Spawn func(name string, f func())

// Scenario is one closed system with its expectation.
type Scenario struct {
	Name string
	P, E int
	Run  func(sp Spawn, yield func(), obs *[]string)
	Want func(obs []string) bool
	// MinOutcomes: at least this many distinct observation lists must occur over all executions (0: no demand)
	MinOutcomes int
}

// Drop is set by the driver to the scheduler's "this object has become unreachable".
var Drop func(obj interface{}) bool

// Scenarios lists the systems the test driver explores.
var Scenarios = []Scenario{
	{Name: "fanin", P: 1, E: 2, Run: func(sp Spawn, yield func(), obs *[]string) {
		a, b, out := make(chan int), make(chan int), make(chan int)
		sp("pa", func() { a <- 1; a <- 2; close(a) })
		sp("pb", func() { b <- 10; close(b) })
		sp("fanin", func() { Fanin(a, b, out) })
		sp("sink", func() {
			var got []int
			for v := range out {
				got = append(got, v)
			}
			sort.Ints(got)
			*obs = append(*obs, fmt.Sprint(got))
		})
	}, Want: func(obs []string) bool { return len(obs) == 1 && obs[0] == "[1 2 10]" }},
	{Name: "timeout-with-sender", P: 2, E: 1, Run: func(sp Spawn, yield func(), obs *[]string) {
		ch := make(chan int)
		sp("s", func() { ch <- 7 })
		sp("r", func() {
			v, err := RecvTimeout(ch, time.Second)
			*obs = append(*obs, fmt.Sprint(v, err))
		})
	}, Want: func(obs []string) bool { return len(obs) == 1 && obs[0] == "7 <nil>" }},
	{Name: "timeout-no-sender", P: 2, E: 1, Run: func(sp Spawn, yield func(), obs *[]string) {
		ch := make(chan int)
		sp("r", func() {
			v, err := RecvTimeout(ch, time.Second)
			*obs = append(*obs, fmt.Sprint(v, err))
		})
	}, Want: func(obs []string) bool { return len(obs) == 1 && obs[0] == "0 timeout" }},
	{Name: "trysend", P: 2, E: 1, Run: func(sp Spawn, yield func(), obs *[]string) {
		ch := make(chan int)
		buf := make(chan int, 1)
		got := make(chan int, 1)
		sp("r", func() { got <- <-ch })
		sp("s", func() {
			ok1 := TrySend(buf, 1)
			ok2 := TrySend(buf, 2)
			ok := false
			for !ok {
				ok = TrySend(ch, 5)
				if !ok {
					time.Sleep(time.Millisecond)
				}
			}
			*obs = append(*obs, fmt.Sprint(ok1, ok2, <-got))
		})
	}, Want: func(obs []string) bool { return len(obs) == 1 && obs[0] == "true false 5" }},
	{Name: "poll", P: 2, E: 1, Run: func(sp Spawn, yield func(), obs *[]string) {
		ch := make(chan int)
		sp("s", func() { ch <- 9; *obs = append(*obs, "sent") })
		sp("p", func() { *obs = append(*obs, fmt.Sprint(Poll(ch))) })
	}, Want: func(obs []string) bool { return len(obs) == 2 }},
	{Name: "counter", P: 2, E: 1, Run: func(sp Spawn, yield func(), obs *[]string) {
		c := &Counter{}
		fired := false
		c.Watchdog(time.Minute, func() { fired = true })
		done := make(chan int, 3)
		for i := 0; i < 3; i++ {
			k := fmt.Sprint("k", i%2)
			sp(fmt.Sprint("inc", i), func() { c.Inc(k); done <- 1 })
		}
		sp("get", func() {
			for i := 0; i < 3; i++ {
				<-done
			}
			n, keys := c.Get()
			stopped := c.StopWatchdog()
			*obs = append(*obs, fmt.Sprint(n, keys, stopped, fired))
		})
	}, Want: func(obs []string) bool { return len(obs) == 1 && obs[0] == "3 2 true false" }},
	{Name: "go-args", P: 2, E: 1, Run: func(sp Spawn, yield func(), obs *[]string) {
		out := make(chan int)
		sp("m", func() {
			SpawnSum(3, out)
			sum := 0
			for i := 0; i < 3; i++ {
				sum += <-out
			}
			*obs = append(*obs, fmt.Sprint(sum))
		})
	}, Want: func(obs []string) bool { return len(obs) == 1 && obs[0] == "16" }},
	{Name: "named-chan", P: 2, E: 1, Run: func(sp Spawn, yield func(), obs *[]string) {
		sp("m", func() { *obs = append(*obs, fmt.Sprint(Named(4))) })
	}, Want: func(obs []string) bool { return len(obs) == 1 && obs[0] == "5" }},
	{Name: "labeled", P: 2, E: 1, Run: func(sp Spawn, yield func(), obs *[]string) {
		ch, done := make(chan int), make(chan struct{})
		sp("s", func() { ch <- 1; ch <- 2; close(done) })
		sp("l", func() { *obs = append(*obs, fmt.Sprint(Labeled(ch, done))) })
	}, Want: func(obs []string) bool { return len(obs) == 1 && obs[0] == "3" }},
	// a finalizer runs, as a thread of its own, any time after the harness dropped the object: the reader sees the
	// resource open in some executions and closed in others; without Drop it never runs
	{Name: "finalizer", P: 2, E: 1, MinOutcomes: 2, Run: func(sp Spawn, yield func(), obs *[]string) {
		r := NewRes()
		keep := NewRes()
		sp("user", func() {
			started := Drop(r)
			*obs = append(*obs, fmt.Sprint(started, r.Closed(), keep.Closed()))
		})
	}, Want: func(obs []string) bool {
		return len(obs) == 1 && (obs[0] == "true false false" || obs[0] == "true true false")
	}},
}
