module selftestsrc

go 1.23
