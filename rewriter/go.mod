module verifrewrite

go 1.25.0

require golang.org/x/tools v0.29.0
