#!/bin/bash
# setup_cmd: builds every driver once so that the Go build cache is warm. Offline.
set -e
export GOFLAGS=-mod=mod GOPROXY=off
HERE="$(cd "$(dirname "$0")" && pwd)"
cd "$HERE/harness"
cat /repo/go.sum go.sum.extra 2>/dev/null | sort -u > go.sum
(cd /repo && go build ./...)
mkdir -p "$HERE/.work"
for d in cmd/*/; do
  go build -o "$HERE/.work/setup-bin" "./$d" || { echo "setup: build of $d failed" >&2; exit 1; }
done
rm -f "$HERE/.work/setup-bin"
echo "setup ok"
