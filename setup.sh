#!/bin/bash
# setup_cmd: builds every driver once so that the Go build cache is warm. Offline.
set -e
export GOFLAGS=-mod=mod GOPROXY=off
HERE="$(cd "$(dirname "$0")" && pwd)"
cd "$HERE/harness"
cat /repo/go.sum go.sum.extra 2>/dev/null | sort -u > go.sum
(cd /repo && go build ./...)
cd "$HERE"
for id in $(python3 -c "import json;print(' '.join(c['property_id'] for c in json.load(open('MANIFEST.json'))['checks']))"); do
  ./check "$id" --build-only || { echo "setup: build for $id failed" >&2; exit 1; }
done
# warm the race-detector builds of the free-running passes (C17, C08)
(cd "$HERE/harness" && go test -race -vet=off -count=1 -run NONE ./racepass/ ./racepass8/ ./racepass10/ ./racepass11/ ./racepass20/ >/dev/null 2>&1 || true)
echo "setup ok"
